"""Real multi-process runs of `jug execute` on a file store (thorough tiers of C12 and C13): real SIGTERM / SIGINT /
SIGKILL delivered to real worker processes, then the end state is checked directly (no model involved).

The jugfile is generated from a small DAG; every task function appends 'S <pid> <task>' / 'E <pid> <task>' records to a
shared log (O_APPEND, one write per record), sleeps a little and returns a value determined by its arguments."""
import json
import os
import signal
import subprocess
import sys
import time

from . import core
from . import jugrun

JUGFILE = '''%(header)simport os, time
from jug import TaskGenerator

LOG = %(log)r
DUR = %(dur)r
EDGES = %(edges)r
CLEANUP_STAGES = %(stages)r      # nested clean-up handlers inside the task function (for repeated stop requests)
CLEANUP_DUR = %(findur)r

# hard kill at the n-th call of an os primitive of THIS process (C13: a kill inside file_store.dump)
_k = os.environ.get('JUGV_KILL_AT')
if _k:
    import sys as _sys
    _fn, _n = _k.split(':')
    _cnt = [0]

    def _interpose(_name):
        _orig = getattr(os, _name)

        def _interposed(*a, **kw):
            _cnt[0] += 1
            if _cnt[0] == int(_n):
                os.kill(os.getpid(), 9)
            return _orig(*a, **kw)
        setattr(os, _name, _interposed)
        # ... and wherever jug holds the primitive under a global of its own (from os import rename)
        for _mn, _m in list(_sys.modules.items()):
            if _m is not None and (_mn == 'jug' or _mn.startswith('jug.')):
                for _g, _v in list(vars(_m).items()):
                    if _v is _orig:
                        setattr(_m, _g, _interposed)
    # 'rename' = the publishing step of file_store.dump, whichever of os.rename / os.replace it uses (one shared counter)
    for _name in {'rename': ('rename', 'replace'), 'fsync': ('fsync',)}.get(_fn, (_fn,)):
        _interpose(_name)


def _rec(kind, i):
    fd = os.open(LOG, os.O_WRONLY | os.O_APPEND | os.O_CREAT, 0o644)
    try:
        os.write(fd, ('%%s %%d %%d %%.4f\\n' %% (kind, os.getpid(), i, time.time())).encode('ascii'))
    finally:
        os.close(fd)


def _body(i, k):
    """the work of task i inside k nested clean-up handlers: when the work is interrupted each handler (innermost first) writes
    'F<k>', takes CLEANUP_DUR seconds, writes 'G<k>' and lets the interruption go on"""
    if k == 0:
        time.sleep(DUR[i])
        return
    try:
        _body(i, k - 1)
    except BaseException:
        _rec('F%%d' %% k, i)
        time.sleep(CLEANUP_DUR)
        _rec('G%%d' %% k, i)
        raise


@TaskGenerator
def node(i, *deps):
    _rec('S', i)
    _body(i, CLEANUP_STAGES)
    _rec('E', i)
    return ('node', i, list(deps))


tasks = []
for i, ds in enumerate(EDGES):
    tasks.append(node(i, *[tasks[d] for d in ds]))
'''

SHAPES = {'chain3': [[], [0], [1]], 'fork': [[], [0], [0]], 'join': [[], [], [0, 1]], 'diamond': [[], [0], [0], [1, 2]],
          'indep3': [[], [], []], 'chain4': [[], [0], [1], [2]]}


def reference(edges):
    vals = []
    for i, ds in enumerate(edges):
        vals.append(('node', i, [vals[d] for d in ds]))
    return vals


def py_env():
    env = dict(os.environ)
    env['PYTHONPATH'] = core.REPO
    env['PYTHONDONTWRITEBYTECODE'] = '1'
    for k in list(env):
        if k.startswith('JUG_') and k != 'JUG_VERIF':
            del env[k]
    return env


_LAYOUT = {}       # root -> {'cli': --jugdir argument, 'store': where the data really is (a jugdir spec), 'dir': directory of a file store or None}
STORES = ('file', 'keepalive', 'dictfile', 'own')


def set_layout(root, kind):
    """file: plain file store; keepalive: file_keepalive:<dir>; dictfile: dict_store:<file> (in-memory store with a backing file, one
    process at a time); own: the jugfile selects its store itself with jug.set_jugdir(<other dir>), the command line says something else"""
    jd = os.path.join(root, 'jd')
    if kind == 'file':
        lay = {'cli': jd, 'store': jd, 'dir': jd, 'header': ''}
    elif kind == 'keepalive':
        lay = {'cli': 'file_keepalive:' + jd, 'store': 'file_keepalive:' + jd, 'dir': jd, 'header': ''}
    elif kind == 'dictfile':
        f = os.path.join(root, 'store.pkl')
        lay = {'cli': 'dict_store:' + f, 'store': 'dict_store:' + f, 'dir': None, 'header': ''}
    elif kind == 'own':
        own = os.path.join(root, 'own_jd')
        lay = {'cli': jd, 'store': own, 'dir': own, 'header': 'import jug\njug.set_jugdir(%r)\n' % own}
    else:
        raise ValueError(kind)
    lay['hashes'] = None
    _LAYOUT[root] = lay
    return lay


def layout(root):
    return _LAYOUT.get(root) or set_layout(root, 'file')


def open_store(root):
    """the store as a fresh process would open it (never written back from here)"""
    from jug.backends import select
    st = select(layout(root)['store'])
    if hasattr(st, 'backend'):
        st.backend = None
    return st


def jug_cmd(sub, root, extra=()):
    code = 'import sys; from jug.jug import main; main(["jug"] + sys.argv[1:])'
    return [sys.executable, '-c', code, sub, os.path.join(root, 'jf.py'), '--jugdir', layout(root)['cli'], '--will-cite'] + list(extra)


def proc_stat(pid):
    """(state, ppid) of a process, or None"""
    try:
        data = open('/proc/%d/stat' % pid).read()
    except OSError:
        return None
    rest = data[data.rindex(')') + 1:].split()
    return rest[0], int(rest[1])


def find_child(ppid, needle, timeout=15.0):
    """pid of a live child of `ppid` whose command line contains `needle` (the keep-alive monitor of a held lock)"""
    t_end = time.time() + timeout
    while time.time() < t_end:
        for d in os.listdir('/proc'):
            if d.isdigit():
                st = proc_stat(int(d))
                if st is not None and st[1] == ppid and st[0] != 'Z':
                    try:
                        if needle in open('/proc/%s/cmdline' % d, 'rb').read():
                            return int(d)
                    except OSError:
                        pass
        time.sleep(0.02)
    return None


def start_worker(root, nr_wait=4, cycle=1, verbose=False, opts=(), env_extra=None, own_group=False):
    extra = ['--nr-wait-cycles', str(nr_wait), '--wait-cycle-time', str(cycle)] + list(opts)
    if verbose:
        extra += ['--verbose', 'info']
    errf = open(os.path.join(root, 'err.%d.%d' % (os.getpid(), int(time.time() * 1e6) % 10 ** 9)), 'w+')
    env = py_env()
    env.update(env_extra or {})
    p = subprocess.Popen(jug_cmd('execute', root, extra), cwd=root, env=env, stdout=subprocess.DEVNULL, stderr=errf, start_new_session=own_group)
    p.errf = errf
    return p


def read_log(root):
    p = os.path.join(root, 'log')
    out = []
    if os.path.exists(p):
        for line in open(p).read().splitlines():
            parts = line.split()
            if len(parts) == 4:
                out.append((parts[0], int(parts[1]), int(parts[2]), float(parts[3])))
    return out


def open_tasks(log, pid):
    """tasks pid has started and not finished"""
    o = []
    for k, p, i, _ in log:
        if p == pid:
            if k == 'S':
                o.append(i)
            elif k == 'E' and i in o:
                o.remove(i)
    return o


def load_state(root, edges):
    """(results by task index or None, lock names -> [state, pid], temp files): a fresh store object + the task hashes from a subprocess"""
    lay = layout(root)
    if lay['hashes'] is None:
        code = ('import sys, json; sys.argv=["x"]; import jug; from jug import task; from jug.jug import init; from jug.backends import select; '
                'st=select(%r); st.backend=None if hasattr(st, "backend") else None; task.Task.store=st; '
                'store, space = init(%r, %r, store=st); print(json.dumps([t.hash().decode() for t in space["tasks"]]))'
                % (lay['store'], os.path.join(root, 'jf.py'), lay['store']))
        rc, out = core.sh([sys.executable, '-c', code], cwd=root, env=py_env(), timeout=120)
        lay['hashes'] = json.loads([l for l in out.splitlines() if l.startswith('[')][-1])
    hashes = lay['hashes']
    st = open_store(root)
    res = []
    for h in hashes:
        hb = h.encode('ascii')
        res.append(st.load(hb) if st.can_load(hb) else None)
    locks = {}
    for name in st.listlocks():
        n = name.decode('ascii') if isinstance(name, bytes) else name
        pid = None
        if lay['dir'] is not None:
            try:
                txt = open(os.path.join(lay['dir'], 'locks', n + '.lock')).read()
                if txt.startswith('PID '):
                    pid = int(txt.split()[1])
            except (OSError, ValueError, IndexError):
                pass
        locks[hashes.index(n) if n in hashes else n] = ['failed' if st.getlock(name).is_failed() else 'held', pid]
    td = os.path.join(lay['dir'], 'tempfiles') if lay['dir'] else None
    temps = sorted(os.listdir(td)) if td and os.path.isdir(td) else []
    return res, locks, temps


def wait_all(procs, timeout):
    t_end = time.time() + timeout
    for p in procs:
        try:
            p.wait(max(0.1, t_end - time.time()))
        except subprocess.TimeoutExpired:
            p.kill()
            p.wait()
            return False
    return True


def log_checks(log, edges, out, stored_before=None, t_recovery=None, victim_pid=None, t_sig=None):
    """C02 on the real multi-process log: no overlapping executions of one task; C03: dependencies ended before a start"""
    open_ = {}
    ended = set()
    for k, p, i, ts in log:
        if k == 'S':
            if i in open_ and not (open_[i] == victim_pid and t_sig is not None and ts >= t_sig):
                out.append({'what': 'process-run: two processes execute one task at the same time', 'task': i, 'pids': [open_[i], p]})
            for d in edges[i]:
                if d not in ended:
                    out.append({'what': 'process-run: task started before its dependency finished', 'task': i, 'dependency': d})
            open_[i] = p
            if stored_before is not None and t_recovery is not None and ts >= t_recovery and stored_before[i] is not None:
                out.append({'what': 'process-run: a task whose result was stored before the crash is executed again', 'task': i})
        elif k == 'E':
            if open_.get(i) == p:
                del open_[i]
            ended.add(i)


def one_run(rng, mode, params=None):
    """mode: 'term' | 'int' | 'kill'.  -> (replay params, findings)"""
    params = dict(params or {})
    defaults = [('shape', lambda: rng.choice(sorted(SHAPES))), ('dur', lambda: rng.choice([0.5, 0.8])), ('nworkers', lambda: rng.choice([1, 2, 2])),
                ('victim', lambda: rng.randrange(params['nworkers'])),
                ('when', lambda: rng.choice(['in-function', 'in-function', 'in-wait-loop']) if mode != 'kill' else rng.choice(['in-function', 'random-time', 'in-dump', 'in-dump'])),
                ('delay', lambda: round(rng.uniform(0.0, 1.5), 3)),
                ('nth', lambda: rng.randrange(3) if params['nworkers'] == 1 else 0),
                ('opts', lambda: [o for o in ('--no-check-environment', '--keep-going', '--keep-failed', '--aggressive-unload') if rng.random() < 0.35]),
                # repeated stop requests: the later ones arrive while the task function is still unwinding through its own clean-up
                ('signals', lambda: [mode] + ([rng.choice(['term', 'int']) for _ in range(rng.choice([1, 1, 2]))] if mode != 'kill' and rng.random() < 0.3 else [])),
                ('kill_at', lambda: '%s:%d' % (('fsync', rng.randint(1, 6)) if rng.random() < 0.6 else ('rename', rng.randint(1, 3)))),
                ('store', lambda: rng.choice(['file', 'file', 'file', 'own'] if mode == 'kill' else ['file', 'file', 'keepalive', 'dictfile'])),
                # the stop request reaches the whole process group (Ctrl-C on a terminal, kill -TERM -pgid, a cancelled batch job): the keep-alive
                # monitor of the held lock, a child of the worker, gets it too and is gone before the worker unwinds
                ('group', lambda: mode != 'kill' and rng.random() < 0.5)]
    for k, f in defaults:
        v = f()                 # always drawn, so that presets do not shift the random stream
        params.setdefault(k, v)
    edges = SHAPES[params['shape']]
    n = len(edges)
    if params['when'] == 'in-wait-loop':
        params['shape'] = 'chain3'
        edges = SHAPES['chain3']
        n = 3
        params['nworkers'] = 2
        params['victim'] = 1
    if params['store'] == 'dictfile':
        # an in-memory store with a backing file serves one process at a time
        params['nworkers'], params['victim'] = 1, 0
        if params['when'] == 'in-wait-loop':
            params['when'] = 'in-function'
        edges = SHAPES[params['shape']]
        n = len(edges)
    if params['store'] != 'keepalive' or params['when'] != 'in-function':
        params['group'] = False
    if params['when'] != 'in-function' or mode == 'kill':
        params['signals'] = [mode]
    if params['when'] == 'in-dump':
        params['dur'] = 0.05
    stages = len(params['signals']) - 1
    SIGS = {'term': signal.SIGTERM, 'int': signal.SIGINT, 'kill': signal.SIGKILL}
    found = []
    sig = {'term': signal.SIGTERM, 'int': signal.SIGINT, 'kill': signal.SIGKILL}[mode]
    with jugrun.scratch_dir('jugvp') as root:
        lay = set_layout(root, params['store'])
        dur = [params['dur']] * n
        if params['when'] == 'in-wait-loop':
            dur[0] = 3.0           # the first worker sits inside task 0 while the victim waits
        with open(os.path.join(root, 'jf.py'), 'w') as f:
            f.write(JUGFILE % {'log': os.path.join(root, 'log'), 'dur': dur, 'edges': edges, 'stages': stages, 'findur': 1.0, 'header': lay['header']})
        procs = []
        try:
            delivered = False
            if params['when'] == 'in-dump':
                # the victim kills itself (SIGKILL) at the n-th os.fsync / os.rename it performs, i.e. inside file_store.dump between the
                # creation of the temporary file and the rename
                # the victim first; the others join once it is inside its first task (otherwise a fast survivor could finish everything
                # before the victim has even imported jug, and the kill point would never be reached)
                victim = start_worker(root, opts=params['opts'], env_extra={'JUGV_KILL_AT': params['kill_at']})
                procs.append(victim)
                t_end = time.time() + 30
                while time.time() < t_end and victim.poll() is None and not any(pid == victim.pid for k, pid, i, ts in read_log(root)):
                    time.sleep(0.01)
                for k in range(params['nworkers'] - 1):
                    procs.append(start_worker(root, opts=params['opts']))
                try:
                    victim.wait(90)
                except subprocess.TimeoutExpired:
                    pass
                delivered = victim.returncode == -signal.SIGKILL
            elif params['when'] == 'in-wait-loop':
                p0 = start_worker(root, opts=params['opts'])
                procs.append(p0)
                t_end = time.time() + 30
                while time.time() < t_end and not open_tasks(read_log(root), p0.pid):
                    time.sleep(0.02)
                victim = start_worker(root, nr_wait=6, cycle=2, verbose=True, opts=params['opts'])
                procs.append(victim)
                # the victim reports 'waiting 2 secs for an open task' right before it sleeps for 2 s
                t_end = time.time() + 30
                while time.time() < t_end:
                    victim.errf.flush()
                    if 'waiting' in open(victim.errf.name).read():
                        break
                    time.sleep(0.01)
                if victim.poll() is None and 0 in open_tasks(read_log(root), p0.pid):
                    params['t_sig'] = time.time()
                    victim.send_signal(sig)
                    delivered = True
            else:
                for k in range(params['nworkers']):
                    procs.append(start_worker(root, opts=params['opts'], own_group=bool(params.get('group')) and k == params['victim']))
                victim = procs[params['victim']]
                if params['when'] == 'in-function':
                    # wait until the victim is inside its nth task function (it sleeps there for `dur` seconds), then signal at once
                    t_end = time.time() + 30
                    seen = 0
                    last = None
                    while time.time() < t_end and victim.poll() is None:
                        o = open_tasks(read_log(root), victim.pid)
                        if o and o[0] != last:
                            last = o[0]
                            seen += 1
                            if seen > params['nth'] or last == n - 1:
                                if params.get('group'):
                                    # deterministic order of a group-wide signal: the monitor of the held lock first (wait until it is dead) ...
                                    mon = find_child(victim.pid, b'file_keepalive_monitor')
                                    params['monitor_found'] = mon is not None
                                    if mon is not None:
                                        os.kill(mon, sig)
                                        t_m = time.time() + 10
                                        while time.time() < t_m and (proc_stat(mon) or ('Z',))[0] != 'Z':
                                            time.sleep(0.01)
                                    # ... then the rest of the group (= the worker)
                                    params['t_sig'] = time.time()
                                    os.killpg(os.getpgid(victim.pid), sig)
                                    delivered = True
                                    break
                                params['t_sig'] = time.time()
                                victim.send_signal(sig)
                                delivered = True
                                break
                        time.sleep(0.005)
                    # the later stop requests: each as soon as the function reports that it entered its next clean-up handler
                    for j in range(1, len(params['signals'])):
                        t_end = time.time() + 15
                        while delivered and time.time() < t_end and victim.poll() is None:
                            if any(k == 'F%d' % j and pid == victim.pid for k, pid, i, ts in read_log(root)):
                                victim.send_signal(SIGS[params['signals'][j]])
                                params['sent'] = j + 1
                                break
                            time.sleep(0.005)
                else:
                    time.sleep(params['delay'])
                    if victim.poll() is None:
                        params['t_sig'] = time.time()
                        victim.send_signal(sig)
                        delivered = True
            params['delivered'] = delivered
            if not wait_all(procs, 90):
                found.append({'what': 'process-run: a worker did not terminate'})
            log1 = read_log(root)
            res1, locks1, temps1 = load_state(root, edges)
            ref = reference(edges)
            for i, v in enumerate(res1):
                if v is not None and v != ref[i]:
                    found.append({'what': 'process-run: a stored result is wrong after the signal', 'task': i})
            vt = open_tasks(log1, victim.pid)
            # did the stop request really arrive at an instant the property speaks about?  (inside a task function: the victim has a
            # start record from before the signal and no end record for it; in the wait loop: the victim never started anything and the
            # task everything depends on was still running well after the signal).  Under heavy machine load the signal can be late;
            # such runs are counted but not judged.
            valid = True
            if mode in ('term', 'int') and delivered:
                t_sig = params['t_sig']
                if params['when'] == 'in-wait-loop':
                    started = [1 for k, pid, i, ts in log1 if k == 'S' and pid == victim.pid and ts <= t_sig + 0.25]
                    e0 = [ts for k, pid, i, ts in log1 if k == 'E' and i == 0 and pid != victim.pid]
                    valid = not started and (not e0 or min(e0) > t_sig + 0.25)
                else:
                    first_open = [ts for k, pid, i, ts in log1 if k == 'S' and pid == victim.pid and i in vt]
                    valid = bool(vt) and min(first_open) <= t_sig
                    # a later stop request counts only if it cut the clean-up handler short (no 'G' record of that stage)
                    for j in range(1, params.get('sent', 1)):
                        if any(k == 'G%d' % j and pid == victim.pid for k, pid, i, ts in log1):
                            valid = False
                    # (a later request that was never sent because the worker was already gone does not matter: the run is judged on
                    # what was delivered)
            params['valid_instant'] = valid
            if valid:
                if mode in ('term', 'int') and delivered:
                    later = [i for k, pid, i, ts in log1 if k == 'S' and pid == victim.pid and ts > params['t_sig']]
                    if later:
                        found.append({'what': 'process-run: a signalled worker goes on to start another task', 'tasks': later})
                if mode in ('term', 'int'):
                    if delivered and victim.returncode == 0 and vt:
                        found.append({'what': 'process-run: a signalled worker exits with status 0 in the middle of a task'})
                    if locks1:
                        found.append({'what': 'process-run: locks are left after a worker was stopped by a signal', 'locks': locks1,
                                      'victim_open_tasks': vt})
                    for i in vt:
                        others = [1 for k, p, j, _ in log1 if k == 'E' and j == i and p != victim.pid]
                        if res1[i] is not None and not others:
                            found.append({'what': 'process-run: the interrupted task has a result', 'task': i})
                else:
                    # SIGKILL: residue = at most the locks of the killed worker
                    for t, (state, pid) in locks1.items():
                        if not delivered or not isinstance(t, int) or (pid is not None and pid != victim.pid):
                            found.append({'what': 'process-run: a lock is left that does not belong to the killed worker', 'lock': t, 'pid': pid,
                                          'victim': victim.pid})
                    if len(locks1) > 1:
                        found.append({'what': 'process-run: more than one lock left by one killed worker', 'locks': locks1})
                    rc, out = core.sh(jug_cmd('cleanup', root, ['--locks-only']), cwd=root, env=py_env(), timeout=120)
                    _, locks_after, _ = load_state(root, edges)
                    if rc != 0 or locks_after:
                        found.append({'what': 'process-run: cleanup --locks-only does not remove the locks', 'rc': rc, 'locks': locks_after})
                # the follow-up run finishes everything
                t_rec = time.time()
                p = start_worker(root)
                ok = wait_all([p], 90)
                res2, locks2, temps2 = load_state(root, edges)
                log2 = read_log(root)
                if not ok or p.returncode != 0:
                    found.append({'what': 'process-run: the follow-up execute fails', 'rc': p.returncode})
                for i, v in enumerate(res2):
                    if v != ref[i]:
                        found.append({'what': 'process-run: after the follow-up execute a result is missing or wrong', 'task': i})
                if locks2:
                    found.append({'what': 'process-run: locks left after the follow-up execute', 'locks': locks2})
                log_checks(log2, edges, found, stored_before=res1, t_recovery=t_rec, victim_pid=victim.pid, t_sig=params.get('t_sig'))
            else:
                log2 = log1
            params['log'] = ['%s %d %d' % (k, pid, i) for k, pid, i, _ in log2]
            params['victim_pid'] = victim.pid
            params['locks_after_signal'] = {str(k): v for k, v in locks1.items()}
            params['temp_files_after_signal'] = len(temps1)
        finally:
            for p in procs:
                if p.poll() is None:
                    p.kill()
                    p.wait()
                try:
                    p.errf.close()
                except Exception:
                    pass
    return params, found


def _runs(ck, n, modes, presets=()):
    for i in range(n):
        mode = modes[i % len(modes)]
        if i < len(presets):
            mode, preset = presets[i]
            preset = dict(preset)
            preset.setdefault('signals', [mode])
            preset.setdefault('group', False)
        else:
            preset = None
        params, found = one_run(ck.rng, mode, preset)
        if _timed_out(found):                   # a loaded machine: once more before it counts
            ck.count('process-run:retried after a timeout')
            params, found = one_run(ck.rng, mode, {k: params[k] for k in ('shape', 'dur', 'nworkers', 'victim', 'when', 'delay', 'nth', 'opts', 'signals', 'kill_at', 'store', 'group')})
        if i < len(presets) and params['when'] == 'in-dump' and not params.get('delivered'):
            # a deterministic kill point that did not fire: once more, then it is a hole in the check (e.g. the publishing primitive changed)
            params, found = one_run(ck.rng, mode, {k: params[k] for k in ('shape', 'dur', 'nworkers', 'victim', 'when', 'delay', 'nth', 'opts', 'signals', 'kill_at', 'store', 'group')})
            if not params.get('delivered'):
                ck.broken.append('coverage lost: the kill point %s inside file_store.dump was never reached (preset %d)' % (params['kill_at'], i))
        ck.count('process-run:%s:store %s' % (mode, params['store']))
        if params.get('group'):
            ck.count('process-run:%s:signal to the whole process group, keep-alive monitor dead first%s' % (mode, '' if params.get('monitor_found') else ' (monitor not found)'))
        ck.count('process-run:%s:%s:%s' % (mode, params['when'], ('delivered' if params.get('valid_instant') else 'delivered at an instant outside the property (not judged)')
                                           if params.get('delivered') else 'too-late'))
        for o in params['opts']:
            ck.count('process-run:%s:option %s' % (mode, o))
        if len(params.get('signals', [])) > 1:
            ck.count('process-run:repeated stop requests %s%s' % ('+'.join(params['signals']), '' if params.get('valid_instant') else ' (not judged)'))
        if params['when'] == 'in-dump':
            ck.count('process-run:kill inside dump at %s' % params['kill_at'].split(':')[0])
        if params.get('temp_files_after_signal'):
            ck.count('process-run:%s:temp-files-left' % mode)
        if params.get('locks_after_signal'):
            ck.count('process-run:%s:locks-left-before-cleanup' % mode)
        for f in found:
            ck.violation({'kind': 'impl-violation', 'kind2': 'process-run', 'what': f['what'], 'finding': f, 'mode': mode, 'params': params}, found_input=True)


# a small covering set that every tier runs first: both signals x exit checks on/off x the failure-handling flags x both instants
SIGNAL_PRESETS = (('term', {'when': 'in-function', 'nworkers': 1, 'opts': ['--no-check-environment'], 'store': 'file'}),
                  ('term', {'when': 'in-function', 'nworkers': 1, 'opts': [], 'store': 'dictfile'}),
                  ('int', {'when': 'in-function', 'nworkers': 1, 'opts': ['--keep-going', '--keep-failed'], 'store': 'keepalive'}),
                  ('term', {'when': 'in-function', 'nworkers': 1, 'opts': [], 'store': 'keepalive', 'group': True, 'dur': 0.8}),
                  ('int', {'when': 'in-function', 'nworkers': 1, 'opts': ['--no-check-environment'], 'store': 'dictfile'}),
                  ('term', {'when': 'in-function', 'nworkers': 1, 'opts': [], 'signals': ['term', 'term'], 'store': 'file'}),
                  ('int', {'when': 'in-function', 'nworkers': 1, 'opts': ['--keep-going'], 'signals': ['int', 'term', 'int'], 'store': 'file'}),
                  ('term', {'when': 'in-wait-loop', 'opts': ['--keep-going'], 'store': 'keepalive'}),
                  ('int', {'when': 'in-function', 'nworkers': 2, 'victim': 0, 'opts': ['--no-check-environment', '--aggressive-unload'], 'store': 'file'}),
                  ('int', {'when': 'in-wait-loop', 'opts': ['--no-check-environment', '--keep-failed'], 'store': 'file'}),
                  ('term', {'when': 'in-function', 'nworkers': 2, 'opts': ['--keep-failed', '--aggressive-unload'], 'store': 'file'}))


def signal_runs(ck, n):
    _runs(ck, n, ['term', 'int'], SIGNAL_PRESETS)


KILL_PRESETS = (('kill', {'when': 'in-dump', 'kill_at': 'fsync:1', 'nworkers': 1, 'shape': 'chain3', 'store': 'file'}),
                ('kill', {'when': 'in-dump', 'kill_at': 'rename:2', 'nworkers': 1, 'shape': 'fork', 'store': 'own'}),
                ('kill', {'when': 'in-function', 'nworkers': 1, 'shape': 'join', 'nth': 1, 'store': 'own'}),
                ('kill', {'when': 'in-dump', 'kill_at': 'rename:1', 'nworkers': 2, 'victim': 0, 'shape': 'fork', 'store': 'file'}),
                ('kill', {'when': 'in-dump', 'kill_at': 'fsync:1', 'nworkers': 2, 'victim': 1, 'shape': 'indep3', 'store': 'file'}),
                ('kill', {'when': 'in-function', 'nworkers': 2, 'store': 'file'}))


def kill_runs(ck, n):
    _runs(ck, n, ['kill'], KILL_PRESETS)


def replay(obj):
    import random
    if obj.get('mode') == 'failure':
        params = {k: v for k, v in obj['params'].items() if k in ('shape', 'keep_going', 'keep_failed', 'barrier', 'bvalue', 'exc', 'store')}
        p, found = failure_run(random.Random(0), params)
        print('log:', p.get('log'), 'exit statuses:', p.get('statuses'))
        print('expected (recorded):', obj.get('what'))
        for f in found:
            print('observed:', json.dumps(f, default=repr))
        if not found:
            print('observed: no violation on this tree')
        return 1 if found else 0
    params = {k: v for k, v in obj['params'].items() if k in ('shape', 'dur', 'nworkers', 'victim', 'when', 'delay', 'nth', 'opts', 'signals', 'kill_at', 'store', 'group')}
    p, found = one_run(random.Random(0), obj['mode'], params)
    print('log:', p.get('log'))
    print('expected (recorded):', obj.get('what'))
    for f in found:
        print('observed:', json.dumps(f, default=repr))
    if not found:
        print('observed: no violation on this tree (real-time process runs are not exactly reproducible)')
    return 1 if found else 0


# ================================================================ C11: failing tasks through the real `jug execute` command
FAIL_JUGFILE = '''%(header)simport os, time
from jug import TaskGenerator, barrier, bvalue

LOG = %(log)r
EDGES = %(edges)r
FAIL = %(fail)r
BARRIER_AFTER = %(barrier)r
BVALUE = %(bvalue)r          # [after task k, task j]: bvalue(tasks[j]) right after task k is defined
EXC = %(exc)r


class MyError(Exception):
    pass


class MyTypeError(TypeError):
    pass


class MyBase(BaseException):
    pass


def _rec(kind, i):
    fd = os.open(LOG, os.O_WRONLY | os.O_APPEND | os.O_CREAT, 0o644)
    try:
        os.write(fd, ('%%s %%d %%d %%.4f\\n' %% (kind, os.getpid(), i, time.time())).encode('ascii'))
    finally:
        os.close(fd)


@TaskGenerator
def node(i, *deps):
    _rec('S', i)
    if i in FAIL:
        _rec('B', i)
        raise eval(EXC)('task %%d fails' %% i)
    _rec('E', i)
    return ('node', i, list(deps))


tasks = []
for i, ds in enumerate(EDGES):
    tasks.append(node(i, *[tasks[d] for d in ds]))
    if i == BARRIER_AFTER:
        barrier()
    if BVALUE and i == BVALUE[0]:
        bvalue(tasks[BVALUE[1]])
'''

FAIL_SHAPES = {  # edges, failing set, barrier after task (None: no barrier) -> which tasks exist / can complete is computed below
    'fork': ([[], [0], [0], [1]], [1]), 'chain': ([[], [0], [1]], [1]), 'indep': ([[], [], [], [2]], [0]), 'two': ([[], [0], [0], [1], [2]], [1, 2]),
    'late': ([[], [0], [1], [0]], [2]),
    # boom; child(boom); split; [bvalue(split)]; work(split); work()   and   ok; [bvalue(ok)]; ok2; boom; child(boom); ok3(ok2)
    'bv': ([[], [0], [], [2], []], [0]), 'bv2': ([[], [], [], [2], [1]], [2])}


EXC_CLASSES = ('RuntimeError', 'TypeError', 'ValueError', 'KeyError', 'AssertionError', 'OSError', 'MyError', 'MyTypeError', 'StopIteration',
               'ZeroDivisionError', 'MyBase')


def failure_run(rng, params=None):
    """one `jug execute` (flags) on a jugfile with failing tasks, optionally with a barrier; then a second execute; then
    `cleanup --failed-only` and a third.  -> (params, findings)"""
    params = dict(params or {})
    for k, f in [('shape', lambda: rng.choice(sorted(FAIL_SHAPES))), ('keep_going', lambda: rng.random() < 0.5), ('keep_failed', lambda: rng.random() < 0.5),
                 ('barrier', lambda: rng.choice([None, None, 0, 1, 2])), ('bvalue', lambda: None),
                 ('exc', lambda: rng.choice(EXC_CLASSES)), ('store', lambda: rng.choice(['file', 'file', 'dictfile']))]:
        v = f()
        params.setdefault(k, v)
    edges, fail = FAIL_SHAPES[params['shape']]
    n = len(edges)
    if params['shape'] in ('bv', 'bv2') and params['bvalue'] is None:
        params['bvalue'] = [2, 2] if params['shape'] == 'bv' else [0, 0]
        params['barrier'] = None
    bar = params['barrier']
    flags = (['--keep-going'] if params['keep_going'] else []) + (['--keep-failed'] if params['keep_failed'] else [])
    # which tasks have a value at all
    bad = set(fail)
    for i, ds in enumerate(edges):
        if any(d in bad for d in ds):
            bad.add(i)
    # the barrier passes only when every task defined before it is complete: tasks after a blocked barrier are never defined
    defined = list(range(n))
    if bar is not None and any(i in bad for i in range(bar + 1)):
        defined = list(range(bar + 1))
    # bvalue(t) opens as soon as t itself is stored - whatever else failed: only a bvalue on a task without a value stays closed
    bv = params['bvalue']
    if bv and bv[1] in bad:
        defined = [i for i in defined if i <= bv[0]]
    found = []
    ordinary = params['exc'] != 'MyBase'         # a BaseException that is no Exception is not a task failure for jug: the worker just dies (non-zero)
    with jugrun.scratch_dir('jugvf') as root:
        lay = set_layout(root, params['store'])
        with open(os.path.join(root, 'jf.py'), 'w') as f:
            f.write(FAIL_JUGFILE % {'log': os.path.join(root, 'log'), 'edges': edges, 'fail': sorted(fail), 'barrier': bar, 'bvalue': params['bvalue'], 'exc': params['exc'],
                                    'header': lay['header']})

        def execute(extra=()):
            p = start_worker(root, nr_wait=2, cycle=0, opts=list(flags) + list(extra))
            if not wait_all([p], 120):
                found.append({'what': 'process-run: jug execute did not terminate'})
            p.errf.close()
            return p

        def state():
            st = open_store(root)
            vals = [[k, json.loads(json.dumps(st.load(k), default=list))] for k in list(st.list())]
            locks = sorted(('failed' if st.getlock(nm).is_failed() else 'held') for nm in st.listlocks())
            want = [json.loads(json.dumps(r)) for r in reference(edges)]
            stored = []
            for key, v in vals:
                if v in want:
                    stored.append(want.index(v))
                else:
                    found.append({'what': 'process-run: a stored value is not the value of any task', 'value': repr(v)[:200]})
            return sorted(stored), locks

        def judge(p, lo, tag):
            log = [r for r in read_log(root)[lo:] if r[1] == p.pid]
            saw = any(r[0] == 'B' for r in log)
            if (p.returncode != 0) != saw:
                found.append({'what': 'process-run: exit status of jug execute does not tell whether the worker saw a failure', 'run': tag,
                              'status': p.returncode, 'saw_failure': saw})
            return log

        ref = reference(edges)
        p1 = execute()
        log1 = judge(p1, 0, 'first')
        stored, locks = state()
        for i in stored:
            if i in bad:
                found.append({'what': 'process-run: a result is stored for a failed task or a dependent of one', 'task': i})
        for r in log1:
            if r[0] == 'S' and r[2] in bad and r[2] not in fail:
                found.append({'what': 'process-run: a dependent of a failed task was started', 'task': r[2]})
        if params['keep_going'] and ordinary:
            for i in defined:
                if i not in bad and i not in stored:
                    found.append({'what': 'process-run: keep-going: an independent task has no result', 'task': i, 'stored': stored})
        executed_fail = sorted(set(r[2] for r in log1 if r[0] == 'B'))
        want_locks = ['failed'] * len(executed_fail) if params['keep_failed'] else []
        if not ordinary:
            want_locks = [x for x in locks if x == 'failed']          # only: no HELD lock may stay
        if locks != want_locks:
            found.append({'what': 'process-run: lock table after a run with failures is wrong', 'locks': locks, 'expected': want_locks})
        n1 = len(read_log(root))
        p2 = execute()
        log2 = judge(p2, n1, 'second')
        if not ordinary:
            pass
        elif params['keep_failed']:
            again = [r[2] for r in log2 if r[0] == 'S' and r[2] in executed_fail]
            if again:
                found.append({'what': 'process-run: keep-failed: a failed task was executed again before the failed locks were released', 'tasks': again})
            core.sh(jug_cmd('cleanup', root, ['--failed-only']), cwd=root, env=py_env(), timeout=120)
            _, locks3 = state()
            if locks3:
                found.append({'what': 'process-run: cleanup --failed-only leaves failed locks', 'locks': locks3})
            n2 = len(read_log(root))
            p3 = execute()
            log3 = judge(p3, n2, 'third')
            if not [r for r in log3 if r[0] == 'S' and r[2] in executed_fail]:
                found.append({'what': 'process-run: a failed task is not retried after the failed locks were released'})
        else:
            if executed_fail and not [r for r in log2 if r[0] == 'S' and r[2] in fail]:
                found.append({'what': 'process-run: a failed task is not retried by a later run (no keep-failed)'})
        params['log'] = ['%s %d %d' % (k, pid, i) for k, pid, i, _ in read_log(root)]
        params['statuses'] = [p1.returncode, p2.returncode]
    return params, found


FAILURE_PRESETS = ({'shape': 'fork', 'keep_going': True, 'keep_failed': True, 'barrier': 1, 'exc': 'ValueError', 'store': 'file'},
                   {'shape': 'chain', 'keep_going': False, 'keep_failed': False, 'barrier': None, 'exc': 'TypeError', 'store': 'file'},
                   {'shape': 'fork', 'keep_going': True, 'keep_failed': False, 'barrier': None, 'exc': 'KeyError', 'store': 'dictfile'},
                   {'shape': 'chain', 'keep_going': False, 'keep_failed': True, 'barrier': None, 'exc': 'MyTypeError', 'store': 'dictfile'},
                   {'shape': 'indep', 'keep_going': False, 'keep_failed': False, 'barrier': 0, 'exc': 'MyError', 'store': 'file'},
                   {'shape': 'two', 'keep_going': True, 'keep_failed': True, 'barrier': 2, 'exc': 'AssertionError', 'store': 'file'},
                   {'shape': 'late', 'keep_going': True, 'keep_failed': False, 'barrier': 1, 'exc': 'StopIteration', 'store': 'dictfile'},
                   {'shape': 'indep', 'keep_going': False, 'keep_failed': True, 'barrier': None, 'exc': 'OSError', 'store': 'file'},
                   {'shape': 'bv', 'keep_going': True, 'keep_failed': False, 'barrier': None, 'bvalue': [2, 2], 'exc': 'RuntimeError', 'store': 'file'},
                   {'shape': 'bv2', 'keep_going': True, 'keep_failed': True, 'barrier': None, 'bvalue': [0, 0], 'exc': 'ValueError', 'store': 'dictfile'})


def _timed_out(found):
    return any('did not terminate' in f['what'] for f in found)


def failure_runs(ck, n):
    for i in range(n):
        params, found = failure_run(ck.rng, FAILURE_PRESETS[i] if i < len(FAILURE_PRESETS) else None)
        if _timed_out(found):                   # a loaded machine: once more before it counts
            ck.count('process-run:retried after a timeout')
            params, found = failure_run(ck.rng, {k: params[k] for k in ('shape', 'keep_going', 'keep_failed', 'barrier', 'bvalue', 'exc', 'store')})
        ck.count('process-run:failing-task:kg=%d,kf=%d,barrier=%s' % (params['keep_going'], params['keep_failed'], 'yes' if params['barrier'] is not None else 'no'))
        ck.count('process-run:failing-task raises %s' % params['exc'])
        if params.get('bvalue'):
            ck.count('process-run:failing-task next to a bvalue() that can open')
        ck.count('process-run:failing-task:store %s' % params['store'])
        for f in found:
            ck.violation({'kind': 'impl-violation', 'kind2': 'process-run', 'what': f['what'], 'finding': f, 'mode': 'failure', 'params': params}, found_input=True)
