"""C08 - different task invocations never share an identifier.

The full statement is false of the code (known finding D1: hash_update writes no container
delimiters); Props/C08.v proves the refutation and the check tolerates exactly the collisions that
(a) the model reproduces (stream equal) and (b) a length chunk after each container marker
(dstream) separates.  Any other collision is a VIOLATION.

Tie: as C07 (recorded sha1 chunk sequence == model stream) on the enumerated structures.
Search: exhaustive pair comparison (hash-bucketed) over all invocation structures up to a node
bound and over families of easily confused invocations (arrays of many dtypes - structured, sub-array,
byte order, kind, item size - over the same buffer and shapes; tasklet chains of depth 1..3 incl.
return_tuple / iteratetask and their consumers; containers of all six kinds; NoHash / CustomHash
wrappers, which are exempt by design), a directed corpus of the pairs the property names, and
end-to-end can_load checks."""
import itertools
import json

from . import core
from . import hashgen
from . import jugrun

EVIDENCE = dict(
    level='proof',
    rule='cases = all task invocations f/g(positional..., a=, b=) over leaves {0,1,"a"} and nested tuples/lists/dicts up to the node bound '
         '(exhaustive) + families of confusable invocations (arrays of ~all dtype variants over one buffer, tasklet chains of depth <= 3 and '
         'their consumers, containers of all six kinds, NoHash/CustomHash wrappers) + a directed corpus of differing pairs; all are hashed by '
         'the real code and bucketed by identifier; every pair of distinct invocations with equal identifier is classified in coqc; '
         'non-trivial = invocation with >= 2 nodes; distinct = distinct canonical specs',
    explanation='Coq: C08_refuted (the injectivity statement is false of the faithful model); C08_dstream_injective / C08_stream_erases / '
                'C08_partial (the delimited stream is an injective prefix code, the real stream is its erasure, so identifiers collide only '
                'by disagreeing on container extents; A1/A2 explicit) + classification of every observed collision as delimiter-erasure '
                '(known finding) or not (violation); tie: real sha1 chunk sequence == model stream, every value lies in the theorems\' universe',
)

LEAFS = [['leaf', '0'], ['leaf', '1'], ['leaf', "'a'"]]


def values(n, memo={}):
    """all value specs with exactly n nodes: leaf | tuple | list | dict over keys 'a','b' (a dict counts 1 + its values)"""
    if n in memo:
        return memo[n]
    out = []
    if n == 1:
        out = list(LEAFS) + [['tuple', []], ['list', []], ['dict', []]]
    elif n > 1:
        for parts in compositions(n - 1):
            kids = [values(p) for p in parts]
            for combo in itertools.product(*kids):
                out.append(['tuple', list(combo)])
                out.append(['list', list(combo)])
            if len(parts) <= 2:
                for keys in (["'a'"], ["'b'"], ["'a'", "'b'"]):
                    if len(keys) == len(parts):
                        for combo in itertools.product(*kids):
                            out.append(['dict', [[['leaf', k], v] for k, v in zip(keys, combo)]])
    memo[n] = out
    return out


def compositions(n):
    """ordered tuples of positive ints summing to n (at most 3 parts)"""
    out = []
    for k in range(1, min(n, 3) + 1):
        for cuts in itertools.combinations(range(1, n), k - 1):
            b = (0,) + cuts + (n,)
            out.append(tuple(b[i + 1] - b[i] for i in range(k)))
    return out


def invocations(maxnodes):
    """f/g(pos..., a=?, b=?) with total argument nodes <= maxnodes"""
    out = []
    for total in range(0, maxnodes + 1):
        splits = [()] if total == 0 else compositions(total)
        for parts in splits:
            kids = [values(p) for p in parts]
            for combo in itertools.product(*kids):
                combo = list(combo)
                # choose how many trailing arguments are passed by keyword (0, 1 or 2)
                for nkw in range(0, min(2, len(combo)) + 1):
                    pos = combo[:len(combo) - nkw]
                    kwv = combo[len(combo) - nkw:]
                    for names in ((['a'], ['b']) if nkw == 1 else ((['a', 'b'],) if nkw == 2 else ([],))):
                        for fn in ('f', 'g'):
                            out.append(['task', fn, pos, [[k, v] for k, v in zip(names, kwv)]])
    return out


_DTYPES = []


def _dtype_key(dt):
    """index of the first dtype seen that compares equal (numpy's own notion of 'the same dtype')"""
    for i, d in enumerate(_DTYPES):
        if d == dt:
            return i
    _DTYPES.append(dt)
    return len(_DTYPES) - 1


def canon(spec):
    """canonical form: equal Python invocations have equal canon().  By design NoHash(x) is the same argument for
    every x, CustomHash(x, h) is identified by h(x) alone, iteratetask(t, n)[i] IS t[i], and an array is its dtype,
    shape and C-order bytes."""
    k = spec[0]
    if k == 'dict':
        return ['dict', sorted([[canon(a), canon(b)] for a, b in spec[1]], key=json.dumps)]
    if k in ('set', 'frozenset'):
        out = []
        for c in sorted([canon(x) for x in spec[1]], key=json.dumps):
            if c not in out:
                out.append(c)
        return [k, out]
    if k in ('list', 'tuple'):
        return [k, [canon(x) for x in spec[1]]]
    if k == 'task':
        return ['task', spec[1], [canon(a) for a in spec[2]], sorted([[kw, canon(v)] for kw, v in spec[3]], key=json.dumps)]
    if k == 'objarray':
        return ['objarray', spec[1], [canon(x) for x in spec[2]]]
    if k in ('array', 'rawarray', 'perm'):
        import numpy as np
        from .hashworker import np_descr
        axes = None
        if k == 'perm':
            axes, spec = spec[2], spec[1]
            k = spec[0]
        if k == 'array':
            a = np.array(spec[3], dtype=spec[1]).reshape(spec[2])
        else:
            a = np.frombuffer(bytes.fromhex(spec[3]), dtype=np.dtype(np_descr(spec[1]))).reshape(spec[2])
        if axes is not None:
            a = a.transpose(axes)           # an array is its VALUES (logical C order), whatever its memory image
        return ['ndarray', _dtype_key(a.dtype), list(a.shape), a.tobytes().hex()]
    if k == 'sub':
        # an instance of a subclass is another value than the base-class instance with the same content; an OrderedDict is
        # compared in order, the other mappings / sets are not; an attribute (cls "X:tag") is part of the value
        cls, inner = spec[1], spec[2]
        if cls.startswith('np.') and inner[0] == 'leaf':
            return ['leaf', '%s(%s)' % (cls, inner[1])]
        if cls == 'OrderedDict':
            return ['sub', cls, [[canon(a), canon(b)] for a, b in inner[1]]]
        return ['sub', cls, canon(inner)]
    if k == 'getitem':
        return ['getitem', canon(spec[1]), canon(spec[2])]
    if k == 'iter':
        return ['getitem', canon(spec[1]), ['leaf', str(spec[2])]]
    if k in ('funtasklet', 'lambda'):
        return [k, canon(spec[1]), spec[2]]
    if k == 'rettuple':
        return [k, canon(spec[1]), spec[2], spec[3]]
    if k == 'nohash':
        return ['nohash']
    if k == 'custom':
        return ['custom', spec[1]]
    if k == 'identity':
        return ['identity', canon(spec[1])]
    return spec


def has_raw(spec):
    """does the spec contain a NoHash / CustomHash wrapper (outside the universe of the C08 theorems)?"""
    if isinstance(spec, list):
        if spec and spec[0] in ('nohash', 'custom'):
            return True
        return any(has_raw(x) for x in spec)
    return False


T = lambda fn, pos=(), kw=(): ['task', fn, list(pos), [list(x) for x in kw]]
L = lambda e: ['leaf', e]
ARR = lambda dt, shape, data: ['array', dt, shape, data]

# pairs the property names explicitly: each pair must have DIFFERENT identifiers
DIRECTED = [
    ('function name', T('f', [L('1')]), T('g', [L('1')])),
    ('argument value', T('f', [L('1')]), T('f', [L('2')])),
    ('argument type int/bool', T('f', [L('1')]), T('f', [L('True')])),
    ('argument type int/float', T('f', [L('1')]), T('f', [L('1.0')])),
    ('argument type str/bytes', T('f', [L("'a'")]), T('f', [L("b'a'")])),
    ('argument order', T('f', [L('1'), L('2')]), T('f', [L('2'), L('1')])),
    ('list vs tuple', T('f', [['list', [L('1')]]]), T('f', [['tuple', [L('1')]]])),
    ('set vs frozenset', T('f', [['set', [L('1')]]]), T('f', [['frozenset', [L('1')]]])),
    ('set vs list', T('f', [['set', [L('1')]]]), T('f', [['list', [L('1')]]])),
    ('nesting', T('f', [['list', [['list', [L('1')]]]]]), T('f', [['list', [L('1')]]])),
    ('empty list vs none', T('f', [['list', []]]), T('f', [])),
    ('reshaped array', T('f', [ARR('int32', [2, 3], [1, 2, 3, 4, 5, 6])]), T('f', [ARR('int32', [3, 2], [1, 2, 3, 4, 5, 6])])),
    ('transposed square array', T('f', [['perm', ARR('int32', [2, 2], [1, 2, 3, 4]), [0, 1]]]), T('f', [['perm', ARR('int32', [2, 2], [1, 2, 3, 4]), [1, 0]]])),
    ('C- vs Fortran-ordered array over the same bytes', T('f', [ARR('int32', [2, 3], [1, 2, 3, 4, 5, 6])]),
     T('f', [['perm', ARR('int32', [3, 2], [1, 2, 3, 4, 5, 6]), [1, 0]]])),
    ('flattened array', T('f', [ARR('int32', [2, 3], [1, 2, 3, 4, 5, 6])]), T('f', [ARR('int32', [6], [1, 2, 3, 4, 5, 6])])),
    ('re-typed array', T('f', [ARR('int8', [4], [1, 0, 0, 0])]), T('f', [ARR('int32', [1], [1])])),
    ('array vs list', T('f', [ARR('int64', [2], [1, 2])]), T('f', [['list', [L('1'), L('2')]]])),
    ('object array vs list', T('f', [['objarray', [2], [L('1'), L("'a'")]]]), T('f', [['list', [L('1'), L("'a'")]]])),
    ('object array elements', T('f', [['objarray', [2], [L('1'), L("'a'")]]]), T('f', [['objarray', [2], [L('1'), L("'b'")]]])),
    ('swapped keyword names', T('f', [], [('a', L('1')), ('b', L('2'))]), T('f', [], [('a', L('2')), ('b', L('1'))])),
    ('keyword name', T('f', [], [('a', L('1'))]), T('f', [], [('b', L('1'))])),
    ('positional vs keyword', T('f', [L('1')]), T('f', [], [('a', L('1'))])),
    ('lambda constants', ['lambda', T('g'), 'la'], ['lambda', T('g'), 'lb']),
    ('lambda attribute names', ['lambda', T('g'), 'lreal'], ['lambda', T('g'), 'limag']),
    ('lambda numeric constants', ['lambda', T('g'), 'l1'], ['lambda', T('g'), 'l2']),
    ('lambda default argument', ['lambda', T('g'), 'ld0'], ['lambda', T('g'), 'ld1']),
    ('lambda keyword-only default', ['lambda', T('g'), 'lkw0'], ['lambda', T('g'), 'lkw1']),
    ('lambda captured variable', ['lambda', T('g'), 'lc0'], ['lambda', T('g'), 'lc2']),
    ('index i vs j', ['getitem', T('g'), L('0')], ['getitem', T('g'), L('1')]),
    ('index int vs str', ['getitem', T('g'), L('0')], ['getitem', T('g'), L("'0'")]),
    ('index vs slice', ['getitem', T('g'), L('1')], ['getitem', T('g'), L('slice(1, None, None)')]),
    ('task-valued index', ['getitem', T('g'), T('f', [L('0')])], ['getitem', T('g'), T('f', [L('1')])]),
    ('tasklet base', ['getitem', T('g'), L('0')], ['getitem', T('h'), L('0')]),
    ('tasklet vs task', T('f', [['getitem', T('g'), L('0')]]), T('f', [T('g')])),
    ('tasklet function', ['funtasklet', T('g'), 'f'], ['funtasklet', T('g'), 'm1']),
    ('tasklet of tasklet order', ['getitem', ['getitem', T('g'), L('0')], L('1')], ['getitem', ['getitem', T('g'), L('1')], L('0')]),
    ('mapped sequence step', ['mapseq', 'm1', ['1', '2', '3', '4'], 2], ['mapseq', 'm1', ['1', '2', '3', '4'], 4]),
    ('mapped sequence slice', ['mapslice', ['mapseq', 'm1', ['1', '2', '3', '4'], 2], 0, 2, 1], ['mapslice', ['mapseq', 'm1', ['1', '2', '3', '4'], 2], 0, 3, 1]),
    ('mapped sequence slice stride', ['mapslice', ['mapseq', 'm1', ['1', '2', '3', '4'], 2], 0, 4, 1], ['mapslice', ['mapseq', 'm1', ['1', '2', '3', '4'], 2], 0, 4, 2]),
    ('dependency value', T('f', [T('g', [L('1')])]), T('f', [T('g', [L('2')])])),
    ('dict key vs value', T('f', [['dict', [[L("'a'"), L("'b'")]]]]), T('f', [['dict', [[L("'b'"), L("'a'")]]]])),
    ('dict vs list of pairs', T('f', [['dict', [[L("'a'"), L('1')]]]]), T('f', [['list', [['tuple', [L("'a'"), L('1')]]]]])),
]


# ---------------------------------------------------------------------------------------------------
# families of easily confused invocations.  Every member is a DIFFERENT invocation unless canon() says
# otherwise; all members go into the same identifier buckets as the enumerated structures.
FMT = {1: ['|i1', '|u1', '|b1', '|S1', '|V1'],
       2: ['<i2', '>i2', '<u2', '>u2', '<f2', '>f2', '|S2', '|V2'],
       4: ['<i4', '>i4', '<u4', '>u4', '<f4', '>f4', '|S4', '|V4', '<U1', '>U1'],
       8: ['<i8', '>i8', '<u8', '>u8', '<f8', '>f8', '<c8', '>c8', '|S8', '|V8', '<U2', '>U2'],
       # (datetime64 / timedelta64 arrays cannot be hashed by jug at all: ndarray.data raises "cannot include dtype 'M' in a
       #  buffer", also for the copy in the fallback - no identifier, hence no collision)
       16: ['<c16', '>c16', '|S16', '|V16', '<U4', '>U4']}
BUFLEN = 16
BUCKET_PAIRS = 60      # pairs classified per identifier bucket


def field_formats(size):
    """what one field of `size` bytes can be: [fmt] or [fmt, subshape] (sub-array field)"""
    out = [[f] for f in FMT.get(size, [])]
    for s, base in ((1, '|i1'), (2, '<i2'), (4, '<i4'), (4, '<f4'), (8, '<f8')):
        if size % s == 0 and size // s > 1:
            n = size // s
            out.append([base, [n]])
            out.append([base, [1, n]])
            out.append([base, [n, 1]])
            for a in range(2, n):
                if n % a == 0:
                    out.append([base, [a, n // a]])
    return out


def struct_descrs(size, rng, nrandom):
    """structured dtype descriptors of item size `size`: a systematic core (renamed / permuted / re-typed fields,
    sub-array fields, nested records, split and merged fields) and random ones"""
    out = []
    h, q = size // 2, size // 4
    for nm in ('x', 'y'):
        for f in field_formats(size):
            out.append([[nm] + f])
    if h >= 1:
        iH, fH, uH, bH = {1: ('|i1', '|b1', '|u1', '|i1'), 2: ('<i2', '<f2', '<u2', '>i2'), 4: ('<i4', '<f4', '<u4', '>i4'),
                          8: ('<i8', '<f8', '<u8', '>i8')}[h]
        for a, b in ((iH, fH), (fH, iH), (iH, iH), (bH, fH), (uH, fH), (iH, uH), ('|S%d' % h, '|V%d' % h), ('|V%d' % h, '|S%d' % h)):
            for n1, n2 in (('x', 'y'), ('y', 'x'), ('a', 'b')):
                out.append([[n1, a], [n2, b]])
        out.append([['p', [['x', iH], ['y', iH]]]])
        out.append([['p', [['x', iH]]], ['q', [['y', iH]]]])
        out.append([['p', [['x', iH]]], ['y', iH]])
        out.append([['x', iH, [1]], ['y', iH]])
        if q >= 1:
            iQ = {1: '|i1', 2: '<i2', 4: '<i4'}[q]
            out.append([['x', iQ], ['y', iQ], ['z', iH]])
            out.append([['x', iH], ['y', iQ], ['z', iQ]])
            out.append([['x', iQ, [2]], ['y', iH]])
            out.append([['x', iQ], ['y', iQ], ['z', iQ], ['w', iQ]])
    names = ['x', 'y', 'z', 'a', 'b']
    for _ in range(nrandom):
        parts, left = [], size
        while left > 0 and len(parts) < 4:
            c = rng.choice([c for c in (1, 2, 4, 8, 16) if c <= left])
            parts.append(c)
            left -= c
        if left:
            parts[-1] += left
        if any(not field_formats(c) for c in parts):
            continue
        nm = rng.sample(names, len(parts))
        out.append([[n] + rng.choice(field_formats(c)) for n, c in zip(nm, parts)])
    return out


def array_family(ck):
    rng = ck.rng
    bufs = [bytes(rng.randrange(256) for _ in range(BUFLEN)).hex(), bytes(BUFLEN).hex()]
    descrs = []
    for size in (1, 2, 4, 8, 16):
        descrs += [(size, f) for f in FMT[size]]
        if size >= 2:
            descrs += [(size, d) for d in struct_descrs(size, rng, ck.n(12, 120))]
    out = []
    for k, (size, d) in enumerate(descrs):
        n = BUFLEN // size
        shapes = [[n]]
        if n > 1:
            shapes += [[1, n], [n, 1]]
        if n > 2 and n % 2 == 0:
            shapes += [[2, n // 2]]
        if isinstance(d, list) and ck.tier == 'quick':
            shapes = shapes[:2] if k % 3 else shapes[:3]
        for sh in shapes:
            out.append(T('f', [['rawarray', d, sh, bufs[0]]]))
        if k % 4 == 0:
            out.append(T('f', [['rawarray', d, [n], bufs[1]]]))
    return out


def apply_op(base, op):
    return [op[0], base] + list(op[1:])


def chain_family(ck):
    """tasklet chains base.op1.op2.. of depth 1..3 (all of depth <= 2 over the core operations, a sample beyond) and the
    tasks that consume them: chains differing in an inner operation, in the last one, or in length must all differ"""
    rng = ck.rng
    core = [['getitem', L('0')], ['getitem', L('1')], ['getitem', L("'a'")], ['funtasklet', 'm1'], ['lambda', 'la'],
            ['rettuple', 0, 2], ['rettuple', 1, 2]]
    extra = [['iter', 1, 3], ['iter', 0, 2], ['getitem', L('slice(0, 1, None)')], ['lambda', 'lb'], ['rettuple', 0, 3],
             ['funtasklet', 'f'], ['getitem', T('h')], ['getitem', L('-1')]]
    seqs = [[a] for a in core + extra] + [[a, b] for a in core for b in core]
    allops = core + extra
    for _ in range(ck.n(40, 400)):
        seqs.append([rng.choice(allops), rng.choice(allops)])
    for _ in range(ck.n(80, 800)):
        seqs.append([rng.choice(allops), rng.choice(allops), rng.choice(core)])
    out = []
    for base in (T('g'), T('g', [L('1')])):
        for sq in seqs:
            c = base
            for op in sq:
                c = apply_op(c, op)
            out.append(c)
            out.append(T('f', [c]))
    for sq in seqs[:len(core + extra) + 20]:
        c = T('g')
        for op in sq:
            c = apply_op(c, op)
        out.append(T('f', [], [('a', c)]))
        out.append(T('f', [['list', [c]]]))
    return out


MLEAF = [['leaf', '1'], ['leaf', "'a'"]]


def hashable(spec):
    return spec[0] == 'leaf' or (spec[0] in ('tuple', 'frozenset') and all(hashable(x) for x in spec[1]))


def mixed_values(n, memo={}):
    """all values with exactly n nodes over the six container kinds (list, tuple, set, frozenset, dict, object array)"""
    if n in memo:
        return memo[n]
    out = []
    if n == 1:
        out = list(MLEAF) + [['list', []], ['tuple', []], ['set', []], ['frozenset', []], ['dict', []], ['objarray', [0], []]]
    elif n > 1:
        for parts in compositions(n - 1):
            for combo in itertools.product(*[mixed_values(p) for p in parts]):
                combo = list(combo)
                out.append(['list', combo])
                out.append(['tuple', combo])
                out.append(['objarray', [len(combo)], combo])
                if all(hashable(x) for x in combo) and len(set(json.dumps(canon(x)) for x in combo)) == len(combo):
                    out.append(['set', combo])
                    out.append(['frozenset', combo])
                out.append(['dict', [[['leaf', kname], v] for kname, v in zip(("'a'", "'b'", "'c'"), combo)]])
    memo[n] = out
    return out


def mixed_family(ck):
    out = []
    for total in range(0, ck.n(3, 4) + 1):
        for parts in ([()] if total == 0 else compositions(total)):
            for combo in itertools.product(*[mixed_values(p) for p in parts]):
                out.append(T('f', list(combo)))
    return out


def exempt_family(ck):
    """NoHash(x) / CustomHash(x, h): by design the identifier does not depend on x - such pairs must NOT be reported;
    everything else about the invocation still must matter"""
    xs = [L('1'), L('2'), ['list', [L('1'), L('2')]]]
    out = []
    for x in xs:
        n = ['nohash', x]
        out += [T('f', [n]), T('f', [n, L('2')]), T('f', [L('2'), n]), T('f', [], [('a', n)]), T('f', [], [('b', n)]), T('g', [n]),
                T('f', [['list', [n]]]), T('f', [['tuple', [n]]]), T('f', [n, n]), T('f', [['getitem', T('g', [n]), L('0')]])]
    for b in ("b'abc'", "b'abd'", "b'0123456789abcdef0123456789abcdef01234567'"):
        for x in xs[:2]:
            c = ['custom', b, x]
            out += [T('f', [c]), T('f', [], [('a', c)]), T('g', [c]), T('f', [['list', [c]]]), T('f', [c, L('2')])]
    out += [T('f', [L("b'nohash'")]), T('f', [L("b'abc'")]), T('f', [L("'nohash'")])]
    return out


def subclass_values():
    """for every type hash_update dispatches on (and the scalar types): the same content as an instance of the base class and of
    several subclasses (std-lib, numpy, user-defined with and without attributes); mappings also in another insertion order"""
    ab = [[L("'a'"), L('1')], [L("'b'"), L('2')]]
    out = []
    for items in (ab, ab[::-1], ab[:1], [[L("'a'"), L('2')], [L("'b'"), L('1')]], []):
        d = ['dict', items]
        out.append(d)
        out += [['sub', c, d] for c in ('OrderedDict', 'Counter', 'defaultdict_int', 'defaultdict_list', 'defaultdict_none', 'MyDict',
                                        'MyDictAttr:1', 'MyDictAttr:2')]
    for xs in ([L('1'), L('2')], [L('2'), L('1')], []):
        out += [['list', xs], ['tuple', xs], ['set', xs], ['frozenset', xs]]
        out += [['sub', c, ['list', xs]] for c in ('MyList', 'MyListAttr:1', 'MyListAttr:2', 'deque')]
        out += [['sub', c, ['tuple', xs]] for c in ('MyTuple',) + (('Point', 'Pair') if len(xs) == 2 else ())]
        out += [['sub', 'MySet', ['set', xs]], ['sub', 'MyFrozenset', ['frozenset', xs]]]
    for e, cs in (("'ab'", ('MyStr', 'np.str_')), ("b'ab'", ('MyBytes', 'np.bytes_')), ('1', ('MyInt', 'Colour', 'np.int64')),
                  ('1.5', ('MyFloat', 'np.float64'))):
        out.append(L(e))
        out += [['sub', c, L(e)] for c in cs]
    for a in (ARR('int32', [2, 2], [1, 2, 3, 4]), ARR('float64', [2], [0.5, 1.5]),
              ['rawarray', [['x', '<i4'], ['y', '<f4']], [2], '000102030405060708090a0b0c0d0e0f']):
        out.append(a)
        out += [['sub', c, a] for c in ('MyArr', 'recarray', 'masked', 'masked1')]
    return out


def subclass_family(ck):
    """each of those values as a positional, keyword and nested argument"""
    out = []
    for v in subclass_values():
        out += [T('f', [v]), T('f', [], [('a', v)]), T('f', [['list', [v]]]), T('f', [['tuple', [v, L('1')]]]),
                T('f', [['dict', [[L("'k'"), v]]]]), T('g', [L('0'), v])]
    return out


def memory_image_family(ck):
    """arrays of one dtype and shape whose MEMORY IMAGES coincide while their values differ: for a byte string b, a shape S and every
    permutation pi of the axes, the view transpose(pi) of the C-contiguous array over b whose transposed shape is S (pi = identity: the
    plain C-ordered array; S square and pi = (1,0): X.T; pi = reversal: the Fortran-ordered array over b; cubes: all six axis orders);
    each as a positional, keyword and nested argument"""
    rng = ck.rng
    out = []
    for S in ([2, 2], [3, 3], [2, 3], [2, 2, 2], [2, 3, 2]):
        n = 1
        for d in S:
            n *= d
        for dt, size in (('<i4', 4), ('<f8', 8), ('|i1', 1), ([['x', '<i2'], ['y', '<i2']], 4)):
            hx = bytes(rng.randrange(1, 120) for _ in range(n * size)).hex()
            for axes in itertools.permutations(range(len(S))):
                base_shape = [0] * len(S)
                for i, ax in enumerate(axes):
                    base_shape[ax] = S[i]
                v = ['perm', ['rawarray', dt, base_shape, hx], list(axes)]
                out += [T('f', [v]), T('f', [], [('a', v)]), T('f', [['list', [v, L('1')]]]), T('g', [['dict', [[L("'k'"), v]]]])]
    return out


NAN_A = "struct.unpack('<d', bytes.fromhex('000000000000f87f'))[0]"     # two NaNs with different payloads
NAN_B = "struct.unpack('<d', bytes.fromhex('010000000000f87f'))[0]"


def long_sequence_family(ck):
    """long lists / tuples of atoms (around and beyond typical block sizes: 255, 256, 257, 1000 elements) that differ in ONE element:
    its type (3 / 3.0 / True), the low bits of a big int, the sign of zero, a NaN payload; homogeneous and mixed int/float
    surroundings; positional, keyword and nested"""
    alts = [['3', '3.0', 'True', 'np.int64(3)'], ['2**53', '2**53 + 1', '2**53 + 2', 'float(2**53)'], ['2**64', '2**64 + 1', 'float(2**64)'],
            ['0.0', '-0.0', '0', 'False'], [NAN_A, NAN_B], ['1e308', "float('inf')"], ["'3'", "b'3'"]]
    bases = [['1', '2', '5'], ['1.5', '2.5'], ['1', '2.5', '4']]
    out = []
    for n in (255, 256, 257, 1000):
        for kind in (('list', 'tuple') if n == 256 else ('list',)):
            for bi, base in enumerate(bases):
                if n != 256 and bi != 2:
                    continue            # homogeneous surroundings at one length only
                for ai, alt in enumerate(alts):
                    if n == 1000 and ai > 1:
                        continue
                    if ck.tier == 'quick' and (bi != 2 or kind == 'tuple') and ai > 3:
                        continue
                    first = n == 256 and bi == 2 and kind == 'list'
                    for pos in ((0, n - 1) if (first and ai < 2) else ((n * (ai + 1)) // 9,)):
                        for e in alt:
                            v = ['longseq', kind, n, base, [[pos, e]]]
                            out.append(T('f', [v]))
                            if first and pos != n - 1 and ai < 4:
                                out += [T('f', [], [('a', v)]), T('f', [['list', [v, L('1')]]]), T('g', [['dict', [[L("'k'"), v]]]])]
    return out


def same_name_family(ck):
    """the same __name__ / __qualname__ in two modules: plain functions, TaskGenerators, mappers and reducers handed to map / currymap /
    mapreduce / reduce at several steps, CompoundTask builders, Tasklet functions - and the tasks that consume them"""
    out = []
    for which in ('a', 'b'):
        vs = [['twin', which, 'task', 1], ['twin', which, 'tgtask', 1], ['twin', which, 'kwtask', 2], ['twin', which, 'compound', 1],
              ['twin', which, 'compound', 2], ['twin', which, 'tasklet', 0], ['twin', which, 'tgtasklet', 0]]
        for fn in ('score', 'tscore'):
            for ms in (1, 2, 3, 5):
                vs.append(['twin', which, 'map', [fn, ms]])
        for fn in ('pair', 'tpair'):
            for ms in (1, 2, 3):
                vs.append(['twin', which, 'currymap', [fn, ms]])
        for red in ('join', 'tjoin'):
            for mp in ('score', 'tscore'):
                for ms, rs in ((1, 2), (2, 2), (3, 4)):
                    vs.append(['twin', which, 'mapreduce', [red, mp, ms, rs]])
            vs.append(['twin', which, 'reduce', [red, 2]])      # (reduce = mapreduce with map_step 4: over 5 inputs every reduce_step builds the same tree)
        for v in vs:
            out += [v, T('f', [v]), T('f', [], [('a', v)])]
    return out


def has_memory_view(spec):
    """does the spec hold an array whose memory layout is fixed by the spec ('perm') - those are always part of the tie"""
    if isinstance(spec, list):
        if spec and spec[0] == 'perm':
            return True
        return any(has_memory_view(x) for x in spec)
    return False


def has_matrix(spec):
    """does the spec hold an array of >= 2 dimensions, each >= 2 (the only ones whose memory order can differ from C order)"""
    if isinstance(spec, list):
        if spec and spec[0] in ('array', 'rawarray') and isinstance(spec[2], list) and len(spec[2]) >= 2 and min(spec[2]) >= 2:
            return True
        return any(has_matrix(x) for x in spec)
    return False


def families(ck):
    fams = [('arrays', array_family(ck)), ('chains', chain_family(ck)), ('containers', mixed_family(ck)), ('exempt', exempt_family(ck)),
            ('subclasses', subclass_family(ck)), ('memory images', memory_image_family(ck)), ('long sequences', long_sequence_family(ck)),
            ('same names in two modules', same_name_family(ck))]
    out = []
    for name, specs in fams:
        ck.count('family:' + name, len(specs))
        out += specs
    return out


def run(ck):
    ck.prove()
    ck.assumptions = ['A1: SHA-1 is treated as collision-free (digests symbolic in the model); A2: the byte rendering of a chunk sequence is '
                      'uniquely decodable (pickle frames self-delimiting, digests of fixed length) - both explicit premises of the Coq theorems',
                      'known finding D1 (delimiter erasure) is tolerated ONLY when the model reproduces the collision and dstream separates it',
                      'NoHash(x) / CustomHash(x, h) are exempt by design: the identifier depends on b"nohash" / h(x) only']
    maxnodes = ck.n(3, 4)
    # the pool: enumerated structures + families, without exact duplicates
    specs, seen = [], set()
    for s in invocations(maxnodes) + families(ck):
        c = json.dumps(s)
        if c not in seen:
            seen.add(c)
            specs.append(s)
    nd = len(specs)
    directed_specs = []
    for name, a, b in DIRECTED:
        directed_specs += [a, b]
    allspecs = specs + directed_specs
    res = hashgen.run_workers(allspecs, [1], 'c08')[0]
    errors = [(i, r['error']) for i, r in enumerate(res) if r.get('error')]
    if errors:
        ck.broken.append('worker could not hash %d specs, e.g. %r' % (len(errors), [(allspecs[i], e) for i, e in errors[:2]]))
    canons = {}

    def cn(i):
        if i not in canons:
            canons[i] = json.dumps(canon(allspecs[i]))
        return canons[i]

    # ---- search 1: exhaustive pair comparison, hash-bucketed
    buckets = {}
    for i in range(nd):
        if res[i].get('error'):
            continue
        buckets.setdefault(res[i]['digest'], []).append(i)
        ck.distinct(cn(i), nontrivial=len(json.dumps(allspecs[i])) > 30)
    ck.count('enumerated_invocations', nd)
    ck.case_total += nd + 2 * len(DIRECTED)
    pairs = []
    for d, members in buckets.items():
        if len(members) > 1:
            ck.count('collision_groups')
            cand = list(itertools.combinations(members, 2))
            if len(cand) > BUCKET_PAIRS:
                # a huge bucket (only seen when something is broken): first-vs-all, neighbours and a sample of the rest
                keep = set((members[0], m) for m in members[1:]) | set(zip(members[1:], members[2:]))
                rest = [c for c in cand if c not in keep]
                keep |= set(ck.rng.sample(rest, max(0, min(len(rest), BUCKET_PAIRS - len(keep)))))
                ck.count('pairs_not_classified(bucket cap)', len(cand) - len(keep))
                cand = [c for c in cand if c in keep]
            for a, b in cand:
                if cn(a) == cn(b):
                    # the same invocation written in two ways (NoHash / CustomHash payloads, iteratetask vs indexing)
                    ck.count('same_invocation_pairs(exempt)')
                    continue
                pairs.append((a, b))
    # ---- search 2: the directed corpus
    for k, (name, a, b) in enumerate(DIRECTED):
        ia, ib = nd + 2 * k, nd + 2 * k + 1
        ck.distinct(('directed', name))
        if res[ia].get('error') or res[ib].get('error'):
            continue
        if res[ia]['digest'] == res[ib]['digest']:
            ck.count('directed_collision')
            pairs.append((ia, ib))
    ck.count('colliding_pairs', len(pairs))
    # classify every colliding pair in Coq: 1 = model reproduces it AND dstream separates it
    pc = ['(%s, %s)' % (res[a]['pv'], res[b]['pv']) for a, b in pairs]
    if pc:
        cls_known = ck.cases('collision_classifier', 'From JugV Require Import Model.Hash.', 'pv * pv',
                             'fun c => toks_eqb (stream (fst c)) (stream (snd c)) && negb (toks_eqb (dstream (fst c)) (dstream (snd c)))',
                             pc, shard=300, preamble='Local Open Scope positive_scope.')
        bad = set(cls_known or [])
        for j, (a, b) in enumerate(pairs):
            obj = {'kind': 'impl-violation', 'a': allspecs[a], 'b': allspecs[b], 'digest': res[a]['digest']}
            if j in bad:
                obj['what'] = 'two different invocations share an identifier (NOT a delimiter erasure)'
                ck.violation(obj)
            else:
                obj['what'] = 'two different invocations share an identifier (delimiter erasure)'
                obj['class'] = 'hash_delimiter_erasure'
                ck.violation(obj)      # matched by the known-findings classifier
                ck.count('known_delimiter_erasure_pairs')
        ck.sample({'colliding_pair': [allspecs[pairs[0][0]], allspecs[pairs[0][1]]]})
    ck.sample({'invocation': specs[len(specs) // 2]})
    ck.sample({'directed_pair': DIRECTED[0][0]})
    # ---- search 3: end to end - run one task, ask whether a different one "can load"
    e2e(ck)
    # ---- tie: stream correspondence on the pool (sampled in quick) + all directed
    idxs = [i for i in range(len(allspecs)) if not res[i].get('error')]
    # (every array whose memory order can differ from its logical order is in the tie: the worker realises them in C / Fortran /
    #  strided / offset layouts, and the 'perm' views keep the memory image the spec gives them)
    tie_idx = idxs if ck.tier == 'thorough' else ([i for i in idxs if i % 7 == 0 or i >= nd or has_memory_view(allspecs[i]) or has_matrix(allspecs[i])])
    ck.count('tie:arrays with a free memory order', sum(1 for i in tie_idx if has_memory_view(allspecs[i]) or has_matrix(allspecs[i])))
    cases = [res[i]['case'] for i in tie_idx]
    fails = ck.cases('hash_stream', 'From JugV Require Import Model.Hash.', 'pv * list tok',
                     'fun c => toks_eqb (hash_one_stream false (fst c)) (snd c)', cases, shard=300,
                     preamble='Local Open Scope positive_scope.')
    for j in (fails or []):
        ck.violation({'kind': 'correspondence', 'what': 'sha1 chunk sequence of the real code differs from the model stream',
                      'spec': allspecs[tie_idx[j]], 'coq_case': cases[j][:3000]})
    # ---- tie: every realised value without NoHash/CustomHash lies in the universe of the C08 theorems (wfb)
    uni_idx = [i for i in tie_idx if not has_raw(allspecs[i])]
    ucases = ['(%s, [%s])' % (res[i]['pv'], '; '.join(str(d) for d in res[i].get('objdt', []))) for i in uni_idx]
    ufails = ck.cases('universe', 'From JugV Require Import Model.Hash.', 'pv * list positive',
                      'fun c => wfb (fun d => existsb (Pos.eqb d) (snd c)) (fst c)', ucases, shard=300,
                      preamble='Local Open Scope positive_scope.')
    for j in (ufails or []):
        ck.violation({'kind': 'correspondence', 'what': 'a realised invocation lies outside the universe (wfb) of the C08 theorems',
                      'spec': allspecs[uni_idx[j]], 'coq_case': ucases[j][:3000]})


def e2e_probes():
    import collections
    import jug.mapreduce
    from .hashworker import TWINS as TW
    import numpy as np
    import jug
    import jug.task
    from jug import Task

    def f(*a, **k):
        return ('f', a, tuple(sorted(k.items())))
    f.__module__, f.__name__ = 'jf', 'f'

    return [
        ('delimiter erasure', lambda: Task(f, [1], 2), lambda: Task(f, [1, 2]), 'hash_delimiter_erasure'),
        ('list vs tuple', lambda: Task(f, [1]), lambda: Task(f, (1,)), None),
        ('positional vs keyword', lambda: Task(f, 1), lambda: Task(f, a=1), None),
        ('lambda constant', lambda: Task(f, Task(f, 0)[0]), lambda: Task(f, Task(f, 0)[1]), None),
        ('lambda tasklet', lambda: Task(f, jug.Tasklet(Task(f, 0), (lambda x: x['a']))), lambda: Task(f, jug.Tasklet(Task(f, 0), (lambda x: x['b']))), None),
        ('record fields', lambda: Task(f, np.zeros(2, dtype=[('x', '<i4'), ('y', '<f4')])),
         lambda: Task(f, np.zeros(2, dtype=[('y', '<i4'), ('x', '<f4')])), None),
        ('record field types', lambda: Task(f, np.zeros(2, dtype=[('x', '<i4'), ('y', '<f4')])),
         lambda: Task(f, np.zeros(2, dtype=[('x', '<f4'), ('y', '<i4')])), None),
        ('mapping type', lambda: Task(f, {'a': 1}), lambda: Task(f, collections.Counter(a=1)), None),
        ('OrderedDict order', lambda: Task(f, collections.OrderedDict([('a', 1), ('b', 2)])),
         lambda: Task(f, collections.OrderedDict([('b', 2), ('a', 1)])), None),
        ('default factory', lambda: Task(f, x=collections.defaultdict(int, a=1)), lambda: Task(f, x=collections.defaultdict(list, a=1)), None),
        ('list subclass', lambda: Task(f, [1, 2]), lambda: Task(f, collections.UserList([1, 2])), None),
        ('matrix vs its transpose', lambda: Task(f, np.arange(9.).reshape(3, 3)), lambda: Task(f, np.arange(9.).reshape(3, 3).T), None),
        ('C vs Fortran order over the same bytes', lambda: Task(f, np.arange(6).reshape(2, 3)), lambda: Task(f, np.arange(6).reshape((2, 3), order='F')), None),
        ('axis-permuted cube', lambda: Task(f, x=np.arange(8).reshape(2, 2, 2)), lambda: Task(f, x=np.arange(8).reshape(2, 2, 2).transpose(1, 2, 0)), None),
        ('long list, one element 3 vs 3.0', lambda: Task(f, [1.5] * 300 + [3]), lambda: Task(f, [1.5] * 300 + [3.0]), None),
        ('long tuple, low bits of a big int', lambda: Task(f, x=(0.5,) * 256 + (2 ** 53,)), lambda: Task(f, x=(0.5,) * 256 + (2 ** 53 + 1,)), None),
        ('same-named TaskGenerator mappers from two modules (map)', lambda: Task(f, jug.mapreduce.map(TW['a'].tscore, [1, 2, 3], map_step=2)),
         lambda: Task(f, jug.mapreduce.map(TW['b'].tscore, [1, 2, 3], map_step=2)), None),
        ('same-named TaskGenerator mappers from two modules (currymap)', lambda: Task(f, jug.mapreduce.currymap(TW['a'].tpair, [(1, 2), (3, 4)], map_step=2)),
         lambda: Task(f, jug.mapreduce.currymap(TW['b'].tpair, [(1, 2), (3, 4)], map_step=2)), None),
        ('same-named functions from two modules', lambda: Task(TW['a'].score, 1), lambda: Task(TW['b'].score, 1), None),
        ('byte order', lambda: Task(f, np.zeros(2, dtype='<i4')), lambda: Task(f, np.zeros(2, dtype='>i4')), None),
        ('tasklet chain, inner operation', lambda: Task(f, Task(f, 0)[0][1]), lambda: Task(f, Task(f, 0)[1][1]), None),
        ('tasklet chain, length', lambda: Task(f, Task(f, 0)[1][1]), lambda: Task(f, Task(f, 0)[1]), None),
        ('return_tuple halves', lambda: Task(f, jug.task.return_tuple(2)(lambda: Task(f, 0))()[0][0]),
         lambda: Task(f, jug.task.return_tuple(2)(lambda: Task(f, 0))()[1][0]), None),
    ]


def e2e(ck):
    for name, mk1, mk2, cls in e2e_probes():
        jugrun.fresh()
        t1 = mk1()
        for d in t1.dependencies():
            pass
        t2 = mk2()
        ck.distinct(('e2e', name))
        if t1.hash() == t2.hash():
            obj = {'kind': 'impl-violation', 'what': 'end-to-end: after running one invocation a different one is reported loadable (%s)' % name,
                   'pair': name}
            if cls:
                obj['class'] = cls
            ck.violation(obj)


def replay(obj):
    if 'a' in obj and 'b' in obj:
        res = hashgen.run_workers([obj['a'], obj['b']], [1], 'replay')[0]
        print('digests:', res[0].get('digest'), res[1].get('digest'))
        return 1 if res[0].get('digest') == res[1].get('digest') else 0
    if 'pair' in obj:
        for name, mk1, mk2, cls in e2e_probes():
            if name == obj['pair']:
                jugrun.fresh()
                h1, h2 = mk1().hash(), mk2().hash()
                print('identifiers of the two invocations (%s):' % name, h1, h2)
                return 1 if h1 == h2 else 0
    print('replay: unrecognised', obj)
    return 2
