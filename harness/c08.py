"""C08 - different task invocations never share an identifier.

The full statement is false of the code (known finding D1: hash_update writes no container
delimiters); Props/C08.v proves the refutation and the check tolerates exactly the collisions that
(a) the model reproduces (stream equal) and (b) a length chunk after each container marker
(dstream) separates.  Any other collision is a VIOLATION.

Tie: as C07 (recorded sha1 chunk sequence == model stream) on the enumerated structures.
Search: exhaustive pair comparison (hash-bucketed) over all invocation structures up to a node
bound, a directed corpus of the pairs the property names, and end-to-end can_load checks."""
import itertools
import json

from . import core
from . import hashgen
from . import jugrun

EVIDENCE = dict(
    level='proof',
    rule='cases = all task invocations f/g(positional..., a=, b=) over leaves {0,1,"a"} and nested tuples/lists/dicts up to the node bound '
         '(exhaustive) + a directed corpus of differing pairs; every pair of distinct invocations with equal identifier is classified in coqc; '
         'non-trivial = invocation with >= 2 nodes; distinct = distinct canonical specs',
    explanation='Coq: C08_refuted (the injectivity statement is false of the faithful model) + classification of every observed collision '
                'as delimiter-erasure (known finding) or not (violation); tie: real sha1 chunk sequence == model stream',
)

LEAFS = [['leaf', '0'], ['leaf', '1'], ['leaf', "'a'"]]


def values(n, memo={}):
    """all value specs with exactly n nodes: leaf | tuple | list | dict over keys 'a','b' (a dict counts 1 + its values)"""
    if n in memo:
        return memo[n]
    out = []
    if n == 1:
        out = list(LEAFS) + [['tuple', []], ['list', []], ['dict', []]]
    elif n > 1:
        for parts in compositions(n - 1):
            kids = [values(p) for p in parts]
            for combo in itertools.product(*kids):
                out.append(['tuple', list(combo)])
                out.append(['list', list(combo)])
            if len(parts) <= 2:
                for keys in (["'a'"], ["'b'"], ["'a'", "'b'"]):
                    if len(keys) == len(parts):
                        for combo in itertools.product(*kids):
                            out.append(['dict', [[['leaf', k], v] for k, v in zip(keys, combo)]])
    memo[n] = out
    return out


def compositions(n):
    """ordered tuples of positive ints summing to n (at most 3 parts)"""
    out = []
    for k in range(1, min(n, 3) + 1):
        for cuts in itertools.combinations(range(1, n), k - 1):
            b = (0,) + cuts + (n,)
            out.append(tuple(b[i + 1] - b[i] for i in range(k)))
    return out


def invocations(maxnodes):
    """f/g(pos..., a=?, b=?) with total argument nodes <= maxnodes"""
    out = []
    for total in range(0, maxnodes + 1):
        splits = [()] if total == 0 else compositions(total)
        for parts in splits:
            kids = [values(p) for p in parts]
            for combo in itertools.product(*kids):
                combo = list(combo)
                # choose how many trailing arguments are passed by keyword (0, 1 or 2)
                for nkw in range(0, min(2, len(combo)) + 1):
                    pos = combo[:len(combo) - nkw]
                    kwv = combo[len(combo) - nkw:]
                    for names in ((['a'], ['b']) if nkw == 1 else ((['a', 'b'],) if nkw == 2 else ([],))):
                        for fn in ('f', 'g'):
                            out.append(['task', fn, pos, [[k, v] for k, v in zip(names, kwv)]])
    return out


def canon(spec):
    """canonical form: equal Python invocations have equal canon()"""
    k = spec[0]
    if k == 'dict':
        return ['dict', sorted([[canon(a), canon(b)] for a, b in spec[1]], key=json.dumps)]
    if k in ('set', 'frozenset'):
        return [k, sorted([canon(x) for x in spec[1]], key=json.dumps)]
    if k in ('list', 'tuple'):
        return [k, [canon(x) for x in spec[1]]]
    if k == 'task':
        return ['task', spec[1], [canon(a) for a in spec[2]], sorted([[kw, canon(v)] for kw, v in spec[3]], key=json.dumps)]
    return spec


T = lambda fn, pos=(), kw=(): ['task', fn, list(pos), [list(x) for x in kw]]
L = lambda e: ['leaf', e]
ARR = lambda dt, shape, data: ['array', dt, shape, data]

# pairs the property names explicitly: each pair must have DIFFERENT identifiers
DIRECTED = [
    ('function name', T('f', [L('1')]), T('g', [L('1')])),
    ('argument value', T('f', [L('1')]), T('f', [L('2')])),
    ('argument type int/bool', T('f', [L('1')]), T('f', [L('True')])),
    ('argument type int/float', T('f', [L('1')]), T('f', [L('1.0')])),
    ('argument type str/bytes', T('f', [L("'a'")]), T('f', [L("b'a'")])),
    ('argument order', T('f', [L('1'), L('2')]), T('f', [L('2'), L('1')])),
    ('list vs tuple', T('f', [['list', [L('1')]]]), T('f', [['tuple', [L('1')]]])),
    ('set vs frozenset', T('f', [['set', [L('1')]]]), T('f', [['frozenset', [L('1')]]])),
    ('set vs list', T('f', [['set', [L('1')]]]), T('f', [['list', [L('1')]]])),
    ('nesting', T('f', [['list', [['list', [L('1')]]]]]), T('f', [['list', [L('1')]]])),
    ('empty list vs none', T('f', [['list', []]]), T('f', [])),
    ('reshaped array', T('f', [ARR('int32', [2, 3], [1, 2, 3, 4, 5, 6])]), T('f', [ARR('int32', [3, 2], [1, 2, 3, 4, 5, 6])])),
    ('flattened array', T('f', [ARR('int32', [2, 3], [1, 2, 3, 4, 5, 6])]), T('f', [ARR('int32', [6], [1, 2, 3, 4, 5, 6])])),
    ('re-typed array', T('f', [ARR('int8', [4], [1, 0, 0, 0])]), T('f', [ARR('int32', [1], [1])])),
    ('array vs list', T('f', [ARR('int64', [2], [1, 2])]), T('f', [['list', [L('1'), L('2')]]])),
    ('object array vs list', T('f', [['objarray', [2], [L('1'), L("'a'")]]]), T('f', [['list', [L('1'), L("'a'")]]])),
    ('object array elements', T('f', [['objarray', [2], [L('1'), L("'a'")]]]), T('f', [['objarray', [2], [L('1'), L("'b'")]]])),
    ('swapped keyword names', T('f', [], [('a', L('1')), ('b', L('2'))]), T('f', [], [('a', L('2')), ('b', L('1'))])),
    ('keyword name', T('f', [], [('a', L('1'))]), T('f', [], [('b', L('1'))])),
    ('positional vs keyword', T('f', [L('1')]), T('f', [], [('a', L('1'))])),
    ('lambda constants', ['lambda', T('g'), 'la'], ['lambda', T('g'), 'lb']),
    ('lambda attribute names', ['lambda', T('g'), 'lreal'], ['lambda', T('g'), 'limag']),
    ('lambda numeric constants', ['lambda', T('g'), 'l1'], ['lambda', T('g'), 'l2']),
    ('index i vs j', ['getitem', T('g'), L('0')], ['getitem', T('g'), L('1')]),
    ('index int vs str', ['getitem', T('g'), L('0')], ['getitem', T('g'), L("'0'")]),
    ('index vs slice', ['getitem', T('g'), L('1')], ['getitem', T('g'), L('slice(1, None, None)')]),
    ('task-valued index', ['getitem', T('g'), T('f', [L('0')])], ['getitem', T('g'), T('f', [L('1')])]),
    ('tasklet base', ['getitem', T('g'), L('0')], ['getitem', T('h'), L('0')]),
    ('tasklet vs task', T('f', [['getitem', T('g'), L('0')]]), T('f', [T('g')])),
    ('tasklet function', ['funtasklet', T('g'), 'f'], ['funtasklet', T('g'), 'm1']),
    ('tasklet of tasklet order', ['getitem', ['getitem', T('g'), L('0')], L('1')], ['getitem', ['getitem', T('g'), L('1')], L('0')]),
    ('mapped sequence step', ['mapseq', 'm1', ['1', '2', '3', '4'], 2], ['mapseq', 'm1', ['1', '2', '3', '4'], 4]),
    ('mapped sequence slice', ['mapslice', ['mapseq', 'm1', ['1', '2', '3', '4'], 2], 0, 2, 1], ['mapslice', ['mapseq', 'm1', ['1', '2', '3', '4'], 2], 0, 3, 1]),
    ('mapped sequence slice stride', ['mapslice', ['mapseq', 'm1', ['1', '2', '3', '4'], 2], 0, 4, 1], ['mapslice', ['mapseq', 'm1', ['1', '2', '3', '4'], 2], 0, 4, 2]),
    ('dependency value', T('f', [T('g', [L('1')])]), T('f', [T('g', [L('2')])])),
    ('dict key vs value', T('f', [['dict', [[L("'a'"), L("'b'")]]]]), T('f', [['dict', [[L("'b'"), L("'a'")]]]])),
    ('dict vs list of pairs', T('f', [['dict', [[L("'a'"), L('1')]]]]), T('f', [['list', [['tuple', [L("'a'"), L('1')]]]]])),
]


def run(ck):
    ck.prove()
    ck.assumptions = ['A1: SHA-1 is treated as collision-free (digests symbolic in the model)',
                      'known finding D1 (delimiter erasure) is tolerated ONLY when the model reproduces the collision and dstream separates it']
    maxnodes = ck.n(3, 4)
    invs = invocations(maxnodes)
    # thin out deterministically in quick mode to bound the run time, keeping all small ones
    specs, seen = [], set()
    for s in invs:
        c = json.dumps(canon(s))
        if c not in seen:
            seen.add(c)
            specs.append(s)
    nd = len(specs)
    directed_specs = []
    for name, a, b in DIRECTED:
        directed_specs += [a, b]
    allspecs = specs + directed_specs
    res = hashgen.run_workers(allspecs, [1], 'c08')[0]
    errors = [(i, r['error']) for i, r in enumerate(res) if r.get('error')]
    if errors:
        ck.broken.append('worker could not hash %d specs, e.g. %r' % (len(errors), errors[:2]))
    # ---- tie: stream correspondence on the enumerated structures (sampled in quick) + all directed
    idxs = [i for i in range(len(allspecs)) if not res[i].get('error')]
    tie_idx = idxs if ck.tier == 'thorough' else ([i for i in idxs if i % 7 == 0 or i >= nd])
    cases = [res[i]['case'] for i in tie_idx]
    fails = ck.cases('hash_stream', 'From JugV Require Import Model.Hash.', 'pv * list tok',
                     'fun c => toks_eqb (hash_one_stream false (fst c)) (snd c)', cases, shard=300,
                     preamble='Local Open Scope positive_scope.')
    for j in (fails or []):
        ck.violation({'kind': 'correspondence', 'what': 'sha1 chunk sequence of the real code differs from the model stream',
                      'spec': allspecs[tie_idx[j]], 'coq_case': cases[j][:3000]})
    # ---- search 1: exhaustive pair comparison, hash-bucketed
    buckets = {}
    for i in range(nd):
        if res[i].get('error'):
            continue
        buckets.setdefault(res[i]['digest'], []).append(i)
        ck.distinct(canon(allspecs[i]), nontrivial=len(json.dumps(allspecs[i])) > 30)
    ck.count('enumerated_invocations', nd)
    ck.case_total += nd + 2 * len(DIRECTED)
    pairs = []
    for d, members in buckets.items():
        if len(members) > 1:
            ck.count('collision_groups')
            for a, b in itertools.combinations(members, 2):
                pairs.append((a, b))
    # ---- search 2: the directed corpus
    for k, (name, a, b) in enumerate(DIRECTED):
        ia, ib = nd + 2 * k, nd + 2 * k + 1
        ck.distinct(('directed', name))
        if res[ia].get('error') or res[ib].get('error'):
            continue
        if res[ia]['digest'] == res[ib]['digest']:
            ck.count('directed_collision')
            pairs.append((ia, ib))
    ck.count('colliding_pairs', len(pairs))
    # classify every colliding pair in Coq: 1 = model reproduces it AND dstream separates it
    pc = ['(%s, %s)' % (res[a]['pv'], res[b]['pv']) for a, b in pairs]
    if pc:
        cls_known = ck.cases('collision_classifier', 'From JugV Require Import Model.Hash.', 'pv * pv',
                             'fun c => toks_eqb (stream (fst c)) (stream (snd c)) && negb (toks_eqb (dstream (fst c)) (dstream (snd c)))',
                             pc, shard=300, preamble='Local Open Scope positive_scope.')
        bad = set(cls_known or [])
        for j, (a, b) in enumerate(pairs):
            obj = {'kind': 'impl-violation', 'a': allspecs[a], 'b': allspecs[b], 'digest': res[a]['digest']}
            if j in bad:
                obj['what'] = 'two different invocations share an identifier (NOT a delimiter erasure)'
                ck.violation(obj)
            else:
                obj['what'] = 'two different invocations share an identifier (delimiter erasure)'
                obj['class'] = 'hash_delimiter_erasure'
                ck.violation(obj)      # matched by the known-findings classifier
                ck.count('known_delimiter_erasure_pairs')
        ck.sample({'colliding_pair': [allspecs[pairs[0][0]], allspecs[pairs[0][1]]]})
    ck.sample({'invocation': specs[len(specs) // 2]})
    ck.sample({'directed_pair': DIRECTED[0][0]})
    # ---- search 3: end to end - run one task, ask whether a different one "can load"
    e2e(ck)


def e2e(ck):
    import jug
    from jug import Task, value

    def f(*a, **k):
        return ('f', a, tuple(sorted(k.items())))
    f.__module__, f.__name__ = 'jf', 'f'

    probes = [
        ('delimiter erasure', lambda: Task(f, [1], 2), lambda: Task(f, [1, 2]), 'hash_delimiter_erasure'),
        ('list vs tuple', lambda: Task(f, [1]), lambda: Task(f, (1,)), None),
        ('positional vs keyword', lambda: Task(f, 1), lambda: Task(f, a=1), None),
        ('lambda constant', lambda: Task(f, Task(f, 0)[0]), lambda: Task(f, Task(f, 0)[1]), None),
        ('lambda tasklet', lambda: Task(f, jug.Tasklet(Task(f, 0), (lambda x: x['a']))), lambda: Task(f, jug.Tasklet(Task(f, 0), (lambda x: x['b']))), None),
    ]
    for name, mk1, mk2, cls in probes:
        jugrun.fresh()
        t1 = mk1()
        for d in t1.dependencies():
            pass
        t2 = mk2()
        ck.distinct(('e2e', name))
        if t1.hash() == t2.hash():
            obj = {'kind': 'impl-violation', 'what': 'end-to-end: after running one invocation a different one is reported loadable (%s)' % name,
                   'pair': name}
            if cls:
                obj['class'] = cls
            ck.violation(obj)


def replay(obj):
    if 'a' in obj and 'b' in obj:
        res = hashgen.run_workers([obj['a'], obj['b']], [1], 'replay')[0]
        print('digests:', res[0].get('digest'), res[1].get('digest'))
        return 1 if res[0].get('digest') == res[1].get('digest') else 0
    print('replay: unrecognised', obj)
    return 2
