"""Shared machinery of the checks: Coq build + assumption audit, case-file
evaluation inside coqc (vm_compute), evidence / replay / known-findings handling.

A check is a function  run(ck: Check) -> None  in harness/cXX.py which calls
  ck.prove()                      build Props/CXX.vo, audit Print Assumptions
  ck.cases(...)                   evaluate the model on recorded implementation behaviour
  ck.violation(...) / ck.known(...)
and the driver calls ck.finish().
"""
import fcntl
import hashlib
import json
import os
import random
import re
import subprocess
import sys
import time

VERIF = os.path.dirname(os.path.dirname(os.path.abspath(__file__)))
COQ = os.path.join(VERIF, 'coq')
REPO = os.environ.get('VERIF_REPO', '/repo')
CASEDIR = os.path.join(COQ, '_cases')
AUDITDIR = os.path.join(COQ, '_audit')
COQ_TIMEOUT = int(os.environ.get('VERIF_COQ_TIMEOUT', '900'))
NPROC = min(16, os.cpu_count() or 4)
# runs against another checkout (VERIF_REPO=<mutated worktree>) must not overwrite the evidence of /repo
_MUT = os.path.abspath(REPO) != '/repo'
EVIDENCE_DIR = os.path.join(VERIF, 'scratch', 'evidence') if _MUT else os.path.join(VERIF, 'evidence')
REPLAY_DIR = os.path.join(VERIF, 'scratch', 'replays') if _MUT else os.path.join(VERIF, 'replays')

FORBIDDEN = re.compile(
    r'\b(Admitted|admit|Axiom|Axioms|Parameter|Parameters|Conjecture|Conjectures|Admit Obligations)\b'
    r'|Unset\s+Guard|bypass_check|type-in-type|impredicative-set|Unset\s+Universe\s+Checking|Unset\s+Positivity')

# axioms a property theorem may depend on (DESIGN.md sec. 6): none.
ALLOWED_AXIOMS = ()
MAX_REPLAYS_PER_KIND = 3
MAX_REPLAYS = 12


def sh(cmd, timeout=None, cwd=None, env=None, input=None):
    p = subprocess.run(cmd, shell=isinstance(cmd, str), cwd=cwd, env=env, input=input,
                       stdout=subprocess.PIPE, stderr=subprocess.STDOUT, timeout=timeout, text=True)
    return p.returncode, p.stdout


class BuildLock:
    def __enter__(self):
        os.makedirs(COQ, exist_ok=True)
        self.f = open(os.path.join(COQ, '.build.lock'), 'w')
        fcntl.flock(self.f, fcntl.LOCK_EX)
        return self

    def __exit__(self, *a):
        fcntl.flock(self.f, fcntl.LOCK_UN)
        self.f.close()


def coq_sources():
    out = []
    for sub in ('Model', 'Gen', 'Proofs', 'Props'):
        d = os.path.join(COQ, sub)
        if os.path.isdir(d):
            for f in sorted(os.listdir(d)):
                if f.endswith('.v'):
                    out.append('%s/%s' % (sub, f))
    return out


PROJECT_HEADER = ('-Q . JugV\n'
                  '-arg -w -arg -deprecated-hint-without-locality,-deprecated-instance-without-locality,'
                  '-notation-overridden,-deprecated-syntactic-definition\n')


def ensure_makefile():
    """(Re)generate _CoqProject / Makefile when the set of source files changed."""
    want = PROJECT_HEADER + '\n'.join(coq_sources()) + '\n'
    proj = os.path.join(COQ, '_CoqProject')
    have = open(proj).read() if os.path.exists(proj) else ''
    if have != want or not os.path.exists(os.path.join(COQ, 'Makefile')):
        with open(proj, 'w') as f:
            f.write(want)
        rc, out = sh('coq_makefile -f _CoqProject -o Makefile', cwd=COQ, timeout=120)
        if rc != 0:
            raise RuntimeError('coq_makefile failed: ' + out)


def scan_forbidden():
    """grep the development for anything that would declare an axiom or disable a check."""
    hits = []
    for rel in coq_sources():
        txt = open(os.path.join(COQ, rel)).read()
        # strip comments (non-nested is enough: we never write those words in comments either)
        code = re.sub(r'\(\*.*?\*\)', ' ', txt, flags=re.S)
        for m in FORBIDDEN.finditer(code):
            hits.append('%s: %s' % (rel, m.group(0)))
    return hits


def regen():
    """Regenerate Gen/*.v from /repo (translator). Returns (ok, message)."""
    from . import translate
    return translate.regenerate_all()


def gen_deps(prop):
    """The Gen/*.v files Props/<prop>.v depends on (transitively, through `From JugV Require Import` lines)."""
    seen, todo, gens = set(), ['Props/%s.v' % prop], set()
    while todo:
        rel = todo.pop()
        if rel in seen:
            continue
        seen.add(rel)
        path = os.path.join(COQ, rel)
        if not os.path.exists(path):
            continue
        code = re.sub(r'\(\*.*?\*\)', ' ', open(path).read(), flags=re.S)
        for m in re.finditer(r'(?:From\s+JugV\s+)?Require\s+(?:Import|Export)?\s*([^.]*(?:\.[A-Za-z_][^.]*)*?)\.(?=\s)', code, flags=re.S):
            for name in m.group(1).split():
                name = name.replace('JugV.', '')
                parts = name.split('.')
                if len(parts) == 2 and parts[0] in ('Model', 'Gen', 'Proofs', 'Props'):
                    if parts[0] == 'Gen':
                        gens.add(parts[1] + '.v')
                    todo.append('%s/%s.v' % (parts[0], parts[1]))
    return gens


def make(targets, jobs=NPROC, timeout=COQ_TIMEOUT):
    with BuildLock():
        ensure_makefile()
        cmd = 'timeout %d make -j%d %s' % (timeout, jobs, ' '.join(targets))
        rc, out = sh(cmd, cwd=COQ, timeout=timeout + 30)
    return rc, out


def theorem_names(props_file):
    txt = open(props_file).read()
    code = re.sub(r'\(\*.*?\*\)', ' ', txt, flags=re.S)
    return re.findall(r'^\s*(?:Theorem|Lemma|Corollary|Example|Fact|Proposition)\s+([A-Za-z0-9_\']+)', code, flags=re.M)


def audit(prop):
    """Print Assumptions for every theorem of Props/<prop>.v, in a fresh coqc run.
    Returns list of dicts {name, closed, axioms:[...] , raw}."""
    os.makedirs(AUDITDIR, exist_ok=True)
    names = theorem_names(os.path.join(COQ, 'Props', prop + '.v'))
    src = ['From JugV Require Import Props.%s.' % prop]
    for n in names:
        src.append('Goal True. idtac "@@THM %s". exact I. Qed.' % n)
        src.append('Print Assumptions %s.' % n)
    src.append('Goal True. idtac "@@END". exact I. Qed.')
    path = os.path.join(AUDITDIR, 'Audit_%s_p%d.v' % (prop, os.getpid()))
    with open(path, 'w') as f:
        f.write('\n'.join(src) + '\n')
    rc, out = sh('timeout 300 coqc -Q %s JugV %s' % (COQ, path), cwd=AUDITDIR, timeout=330)
    res = []
    if rc != 0:
        return rc, out, res
    chunks = re.split(r'@@THM (\S+)\n', out)
    # chunks: [pre, name1, body1, name2, body2 ...]
    for i in range(1, len(chunks), 2):
        name = chunks[i]
        body = chunks[i + 1].split('@@END')[0].strip()
        closed = body.startswith('Closed under the global context')
        axioms = []
        if not closed:
            for line in body.splitlines():
                m = re.match(r'^([A-Za-z0-9_.\']+)\s*:', line)
                if m:
                    axioms.append(m.group(1))
        res.append({'name': name, 'closed': closed, 'axioms': axioms, 'raw': body[:400]})
    for ext in ('.vo', '.vok', '.vos', '.glob'):
        try:
            os.unlink(path[:-2] + ext)
        except OSError:
            pass
    return 0, out, res


def coq_literal_list(items, per_line=1):
    return '[' + ';\n '.join(items) + ']'


def run_case_files(files):
    """files: list of (path). Runs coqc on each in parallel; returns dict path -> (rc, output)."""
    procs = []
    results = {}
    pending = list(files)
    running = []
    while pending or running:
        while pending and len(running) < NPROC:
            p = pending.pop(0)
            pr = subprocess.Popen('ulimit -s unlimited 2>/dev/null; timeout %d coqc -Q %s JugV %s' % (COQ_TIMEOUT, COQ, p),
                                  shell=True, cwd=CASEDIR, stdout=subprocess.PIPE, stderr=subprocess.STDOUT, text=True)
            running.append((p, pr))
        still = []
        for p, pr in running:
            if pr.poll() is None:
                still.append((p, pr))
            else:
                results[p] = (pr.returncode, pr.stdout.read())
        running = still
        if running:
            time.sleep(0.05)
    return results


ANSWER = re.compile(r'=\s*\[(.*?)\]\s*:\s*list nat', re.S)


def parse_failing(out):
    """Accept exactly one answer shape:  = [i; j; ...] : list nat  (possibly line-wrapped)."""
    m = ANSWER.search(out)
    if not m:
        return None
    body = m.group(1).strip()
    if not body:
        return []
    try:
        return [int(x.strip().replace('%nat', '')) for x in body.split(';')]
    except ValueError:
        return None


class Check:
    def __init__(self, prop, tier, seed, parent=None, scale=1.0):
        self.prop = prop
        self.tier = tier
        self.seed = seed
        self.parent = parent        # set when this is the tie of a HYPOTHESIS of parent's theorem (see absorb)
        self.scale = scale          # budget factor for ck.n()
        self.rng = random.Random(seed)
        self.t0 = time.time()
        self.violations = []        # list of (replay_path, suffix)
        self.known_lines = []
        self.obligations = []       # list of dicts {name, kind, ok}
        self.samples = []
        self.counts = {}
        self.notes = []
        self.assumptions = []
        self.trusted_base = []
        self.case_total = 0
        self.case_distinct = set()
        self.dist = {}
        self.replay_n = 0
        self.broken = []            # names of theorems / correspondences that no longer check
        self.viol_by_what = {}
        self.suppressed = 0
        self.known_skipped = 0
        os.makedirs(EVIDENCE_DIR, exist_ok=True)
        os.makedirs(REPLAY_DIR, exist_ok=True)
        os.makedirs(CASEDIR, exist_ok=True)
        self.known_findings = [k for k in load_known() if k.get('property') == prop]
        import glob
        if os.environ.get('VERIF_REPLAY') != '1' and parent is None:
            for old in glob.glob(os.path.join(REPLAY_DIR, prop + '-*.json')):
                os.unlink(old)

    # ------------------------------------------------------------------ budget
    def n(self, quick, thorough):
        x = thorough if self.tier == 'thorough' else quick
        return x if self.scale == 1.0 else max(1, int(x * self.scale))

    # ------------------------------------------------------------------ hypotheses of the theorems
    def absorb(self, sub, text, wall):
        """`sub` ran the tie of property sub.prop, which is a HYPOTHESIS of this property's theorems (e.g. C01's
        theorems are about a store that is a faithful map = C06).  Its obligations, cases and violations become
        part of this check: a code change that breaks the hypothesis breaks this property's claim, and the failing
        input found for the hypothesis is the replay (marked via_hypothesis; `bin/check <this> --replay` dispatches)."""
        tag = 'hypothesis %s' % sub.prop
        for o in sub.obligations:
            o = dict(o)
            o['name'] = '%s: %s' % (tag, o['name'])
            self.obligations.append(o)
        self.case_total += sub.case_total
        self.case_distinct |= sub.case_distinct
        for k, v in sub.dist.items():
            self.dist['%s/%s' % (sub.prop, k)] = v
        self.dist['%s wall_s' % tag] = round(wall, 1)
        for b in sub.broken:
            self.broken.append('%s (%s): %s' % (tag, text, b))
        self.violations.extend(sub.violations)
        self.suppressed += sub.suppressed
        for k, v in sub.viol_by_what.items():
            self.viol_by_what['%s: %s' % (tag, k)] = v
        self.assumptions.append('%s - %s: its theorems are re-checked and its tie to the code is re-run here with a reduced budget '
                                '(%d cases, %d violations)' % (tag, text, sub.case_total, len(sub.violations) + sub.suppressed))
        if sub.known_skipped:
            self.assumptions.append('%s: %d observations matched a known finding of %s (reported by that property\'s own check)'
                              % (tag, sub.known_skipped, sub.prop))

    # ------------------------------------------------------------------ proofs
    def prove(self, extra_targets=()):
        """Regenerate Gen/*.v, build Props/<prop>.vo, audit it.  Records one obligation per
        theorem.  Returns True iff everything checks."""
        ok_all = True
        ok, msg = regen()
        if not ok:
            # a failed translation breaks the properties whose theorems depend on that generated file - not the others
            from . import translate
            mine = gen_deps(self.prop)
            bad = [m for g, m in translate.LAST_FAILED.items() if g in mine]
            other = [g for g in translate.LAST_FAILED if g not in mine]
            ok = not bad
            msg = '; '.join(bad) if bad else 'not needed by Props/%s.v and failing to translate: %s' % (self.prop, ', '.join(other))
        self.obligations.append({'name': 'translator(Gen/*.v from /repo)', 'kind': 'translator', 'ok': ok, 'msg': msg[-600:]})
        if not ok:
            self.broken.append('translator: ' + msg[-300:])
            ok_all = False
        hits = scan_forbidden()
        self.obligations.append({'name': 'no Admitted/Axiom/Parameter/disabled checks in coq/', 'kind': 'scan', 'ok': not hits, 'msg': '; '.join(hits)})
        if hits:
            self.broken.append('forbidden constructs: ' + '; '.join(hits))
            ok_all = False
        targets = ['Props/%s.vo' % self.prop] + list(extra_targets)
        rc, out = make(targets)
        names = theorem_names(os.path.join(COQ, 'Props', self.prop + '.v'))
        if rc != 0:
            # which theorem / file failed?
            m = re.search(r'File "([^"]+)", line (\d+)', out)
            where = '%s:%s' % (m.group(1), m.group(2)) if m else 'unknown location'
            err = out.strip().splitlines()[-12:]
            self.broken.append('coq build of Props/%s.vo failed at %s: %s' % (self.prop, where, ' | '.join(err)[-700:]))
            for n in names:
                self.obligations.append({'name': n, 'kind': 'theorem', 'ok': False, 'msg': 'build failed at ' + where})
            return False
        rc, out, res = audit(self.prop)
        if rc != 0 or len(res) != len(names):
            self.broken.append('assumption audit of Props/%s.v failed: %s' % (self.prop, out[-500:]))
            for n in names:
                self.obligations.append({'name': n, 'kind': 'theorem', 'ok': False, 'msg': 'audit failed'})
            return False
        if self.tier == 'thorough' and os.environ.get('VERIF_NO_COQCHK') != '1':
            ok_all = self.coqchk() and ok_all
        for r in res:
            bad = [a for a in r['axioms'] if a not in ALLOWED_AXIOMS]
            ok = r['closed'] or not bad
            self.obligations.append({'name': r['name'], 'kind': 'theorem', 'ok': ok,
                                     'assumptions': 'Closed under the global context' if r['closed'] else r['axioms']})
            if not ok:
                self.broken.append('theorem %s depends on axioms %s' % (r['name'], bad))
                ok_all = False
        return ok_all

    def coqchk(self):
        """thorough tier: re-check Props/<prop>.vo and everything it depends on with the independent checker
        and record the axioms it reports (must be none)."""
        with BuildLock():
            rc, out = sh('timeout 1500 coqchk -silent -o -Q . JugV JugV.Props.%s' % self.prop, cwd=COQ, timeout=1560)
        m = re.search(r'\* Axioms:(.*?)\n\s*\n\* Constants/Inductives relying on type-in-type:(.*?)\n\s*\n'
                      r'\* Constants/Inductives relying on unsafe \(co\)fixpoints:(.*?)\n\s*\n\* Inductives whose positivity is assumed:(.*?)\n', out, re.S)
        clean = rc == 0 and m is not None and all(g.strip() == '<none>' for g in m.groups())
        self.obligations.append({'name': 'coqchk -o Props/%s.vo (independent re-check; axioms, type-in-type, unsafe fixpoints, assumed positivity: none)' % self.prop,
                                 'kind': 'coqchk', 'ok': clean, 'msg': '' if clean else out[-600:]})
        if not clean:
            self.broken.append('coqchk of Props/%s.vo: %s' % (self.prop, out[-300:].replace('\n', ' | ')))
        return clean

    # ------------------------------------------------------------------ cases
    def cases(self, name, imports, case_type, chk, cases, shard=400, preamble=''):
        """Evaluate `chk : case_type -> bool` (a Gallina term over the model) on every case
        (Gallina literal strings) inside coqc with vm_compute.  Returns sorted list of
        failing case indices, or None when a shard could not be evaluated (broken
        correspondence)."""
        files = []
        shards = [cases[i:i + shard] for i in range(0, len(cases), shard)]
        for k, sh_cases in enumerate(shards):
            path = os.path.join(CASEDIR, 'Cases_%s_%s_%d_p%d.v' % (self.prop, name, k, os.getpid()))
            with open(path, 'w') as f:
                f.write('From Coq Require Import List ZArith Bool String.\nImport ListNotations.\n')
                f.write('From JugV Require Import Model.CaseLib.\n')
                f.write(imports + '\n')
                f.write(preamble + '\n')
                f.write('Definition the_cases : list (%s) :=\n %s.\n' % (case_type, coq_literal_list(sh_cases)))
                f.write('Eval vm_compute in (failing (%s) the_cases).\n' % chk)
            files.append(path)
        res = run_case_files(files)
        failing = []
        broken = False
        for k, path in enumerate(files):
            rc, out = res[path]
            ans = parse_failing(out) if rc == 0 else None
            if ans is None:
                broken = True
                self.broken.append('correspondence shard %s did not evaluate: %s' % (os.path.basename(path), out[-400:].replace('\n', ' | ')))
            else:
                failing.extend(k * shard + i for i in ans)
                for ext in ('.v', '.vo', '.vok', '.vos', '.glob'):
                    try:
                        os.unlink(path[:-2] + ext)
                    except OSError:
                        pass
        self.case_total += len(cases)
        self.obligations.append({'name': 'correspondence:%s (%d cases, %d shards)' % (name, len(cases), len(shards)),
                                 'kind': 'correspondence', 'ok': (not broken and not failing),
                                 'msg': ('failing cases %s' % failing[:20]) if failing else ''})
        if broken:
            return None
        return sorted(failing)

    def count(self, key, k=1):
        self.dist[key] = self.dist.get(key, 0) + k

    def distinct(self, obj, nontrivial=True):
        if nontrivial:
            self.case_distinct.add(hashlib.sha1(repr(obj).encode()).hexdigest())

    def sample(self, obj, limit=6):
        if len(self.samples) < limit:
            self.samples.append(obj)

    # ------------------------------------------------------------------ verdicts
    def write_replay(self, obj):
        obj = dict(obj)
        if self.parent is not None:     # the tie of a hypothesis: the replay belongs to the parent's property
            top = self.parent
            obj['via_hypothesis'] = self.prop
            obj['property'] = top.prop
        else:
            top = self
        top.replay_n += 1
        path = os.path.join(REPLAY_DIR, '%s-%d-%d.json' % (top.prop, top.seed, top.replay_n))
        obj.setdefault('property', self.prop)
        obj.setdefault('seed', self.seed)
        obj.setdefault('tier', self.tier)
        with open(path, 'w') as f:
            json.dump(obj, f, indent=1, default=repr)
        return path

    def violation(self, replay_obj, found_input=None):
        """Report a violation unless a known finding's classifier matches it.
        found_input: does the replay hold a concrete input/history on which THE PROPERTY fails on the real code
        (kind 'impl-violation')?  A replay that only shows model and code disagreeing (kind 'correspondence'), a failed
        sampled assumption or a broken proof is reported with the suffix no-failing-input-found."""
        if found_input is None:
            found_input = replay_obj.get('kind') == 'impl-violation'
        replay_obj = dict(replay_obj)
        replay_obj.setdefault('failing_input_found', bool(found_input))
        cls = replay_obj.get('class')
        for k in self.known_findings:
            if k.get('status') == 'known' and cls is not None and k.get('classifier') == cls:
                line = 'KNOWN-FINDING: property=%s %s' % (self.prop, k.get('summary', cls))
                if self.parent is not None:
                    self.known_skipped += 1
                    return None
                if line not in self.known_lines:
                    self.known_lines.append(line)
                return None
        what = replay_obj.get('what', replay_obj.get('kind', ''))
        self.viol_by_what[what] = self.viol_by_what.get(what, 0) + 1
        if self.viol_by_what[what] > MAX_REPLAYS_PER_KIND or len(self.violations) >= MAX_REPLAYS:
            self.suppressed += 1        # same kind of failure again: counted, not written out
            return None
        path = self.write_replay(replay_obj)
        self.violations.append((path, '' if found_input else ' no-failing-input-found'))
        return path

    def report_broken_without_input(self):
        """Called at the end: a proof or correspondence broke and no search produced a failing
        input -> still a violation, naming what no longer checks."""
        if self.broken and not self.violations:
            self.violation({'kind': 'proof-or-correspondence-broken', 'no_longer_checks': self.broken,
                            'how_to_run': 'bin/check %s --tier %s' % (self.prop, self.tier)}, found_input=False)

    def finish(self, level='proof', rule='', explanation='', checker_cmd=None):
        self.report_broken_without_input()
        wall = time.time() - self.t0
        nob = len(self.obligations)
        ndis = sum(1 for o in self.obligations if o['ok'])
        cov = {
            'obligations': nob,
            'discharged': ndis,
            'checker_cmd': checker_cmd or ('cd /verif/coq && make Props/%s.vo && coqc -Q . JugV _audit/Audit_%s.v  (+ coqc on generated _cases/*.v)' % (self.prop, self.prop)),
            'trusted_base': self.trusted_base or DEFAULT_TRUSTED_BASE,
            'obligation_list': self.obligations,
            'evaluations': self.case_total,
            'distinct_nontrivial': len(self.case_distinct),
            'rule': rule,
            'samples': self.samples or ['(no cases in this run)'],
            'distribution': self.dist,
            'explanation': explanation,
            'no_longer_checks': self.broken,
            'known_findings_reported': self.known_lines,
            'violations_by_kind': self.viol_by_what,
        }
        ev = {
            'property_id': self.prop,
            'tier': self.tier,
            'seed': self.seed,
            'level': level,
            'coverage': cov,
            'assumptions': self.assumptions,
            'wall_s': round(wall, 2),
            'violations': len(self.violations) + self.suppressed,
        }
        if os.environ.get('VERIF_REPLAY') != '1':
            with open(os.path.join(EVIDENCE_DIR, self.prop + '.json'), 'w') as f:
                json.dump(ev, f, indent=1, default=repr)
        for line in self.known_lines:
            print(line)
        for path, suffix in self.violations:
            print('VIOLATION property=%s replay=%s%s' % (self.prop, path, suffix))
        print('[%s %s] obligations %d/%d, cases %d (distinct non-trivial %d), violations %d, %.1fs'
              % (self.prop, self.tier, ndis, nob, self.case_total, len(self.case_distinct), len(self.violations), wall))
        sys.stdout.flush()
        return 1 if self.violations else 0


DEFAULT_TRUSTED_BASE = [
    'Coq 8.16.1 kernel incl. its VM (vm_compute); no native_compute; no extraction',
    'axioms: none (every property theorem is "Closed under the global context"; audited on every run)',
    'the hand-written Gallina model is tied to /repo by the correspondence cases evaluated in this run (differential testing: a tie, not a proof)',
    'harness: generators, interning, implementation drivers (harness/*.py); translator harness/translate.py for Gen/*.v',
    'Python interpreter, NumPy, pickle, zlib, hashlib, argparse, OS / file system: outside the model',
]


def load_known():
    p = os.path.join(VERIF, 'known_findings.json')
    if not os.path.exists(p):
        return []
    return json.load(open(p))


# ---------------------------------------------------------------- Gallina literal helpers
def zlit(i):
    return '(%d)%%Z' % i


def natlit(i):
    return '%d%%nat' % i


def boollit(b):
    return 'true' if b else 'false'


def listlit(xs):
    return '[' + '; '.join(xs) + ']'


def optlit(x):
    return 'None' if x is None else '(Some %s)' % x
