"""Many workers x barrier phases: trace validation of programs with barrier() / bvalue() (extension of the C14 and C01 ties).

A *bprogram spec* is {'fns': {...}, 'stmts': [['task', taskspec] | ['barrier'] | ['bvalue', j]]}; task specs are those of
harness/exectrace.py plus the argument kind ['bval', b] = the plain Python value the b-th bvalue() statement returned
(the usual use of bvalue: later tasks are built from the value).  The full sequential unfolding (what plain Python
gives when barrier() is a no-op and bvalue = value) is computed up front; it is the `bp_prog` of the Gallina
`bprogram`, and `bp_extra` lists for every task the tasks it waits for because of the barriers / bvalues in front of it.

Every worker thread runs the REAL `jug.subcommands.execute.ExecuteCommand.run` (the reload loop) on its own jugfile
module; the jugfile calls `build_here`, which executes the statements against the CURRENT store with the REAL
`barrier_mod.barrier()` / `bvalue()`.  Loading the jugfile is ONE scheduling step: its can_load / load calls are logged
as events of that worker but do not yield.  To run several `jug execute` "processes" as threads of one interpreter,
the process globals they use are made thread-local for the duration of a run (in the harness, not in /repo):
`jug.task.alltasks`, the hook table of `jug.hooks.register`; `signal.signal` is ignored outside the main thread;
`jug.options.set_jugdir` returns the proxy store."""
import collections.abc
import contextlib
import copy
import os
import signal
import sys
import threading
import types

from . import core
from .core import listlit
from . import jugrun
from . import exectrace as X
from . import patching

import jug
import jug.task
import importlib
barrier_mod = importlib.import_module('jug.barrier')      # `jug.barrier` the attribute is the function
import jug.options
import jug.hooks.register
import jug.subcommands.execute as execute_mod
from jug import Task

BIMPORTS = X.IMPORTS
_tl = threading.local()
if not hasattr(X, '_eb_current'):
    X._eb_current = {}
_current = X._eb_current          # 'rt': the active runtime, 'bspec': its program (shared even if this module is imported twice)


# ================================================================ thread-local views of process globals
class TLList(collections.abc.MutableSequence):
    """jug.task.alltasks as each `jug execute` process sees its own"""

    def __init__(self, main):
        self._main = main

    def _l(self):
        if threading.current_thread() is threading.main_thread():
            return self._main
        if not hasattr(_tl, 'alltasks'):
            _tl.alltasks = []
        return _tl.alltasks

    def __getitem__(self, i):
        return self._l()[i]

    def __setitem__(self, i, v):
        self._l()[i] = v

    def __delitem__(self, i):
        del self._l()[i]

    def __len__(self):
        return len(self._l())

    def insert(self, i, v):
        self._l().insert(i, v)

    def __repr__(self):
        return 'TLList(%r)' % (self._l(),)


class TLDict:
    """jug.hooks.register._hooks per thread"""

    def __init__(self, main):
        self._main = main

    def _d(self):
        if threading.current_thread() is threading.main_thread():
            return self._main
        if not hasattr(_tl, 'hooks'):
            _tl.hooks = {}
        return _tl.hooks

    def get(self, k, default=None):
        return self._d().get(k, default)

    def setdefault(self, k, default=None):
        return self._d().setdefault(k, default)

    def clear(self):
        self._d().clear()

    def items(self):
        return self._d().items()

    def update(self, o):
        self._d().update(o)

    def __getitem__(self, k):
        return self._d()[k]

    def __contains__(self, k):
        return k in self._d()


class TLSet:
    def __init__(self, main):
        self._main = main

    def _s(self):
        if threading.current_thread() is threading.main_thread():
            return self._main
        if not hasattr(_tl, 'registered'):
            _tl.registered = set()
        return _tl.registered

    def __contains__(self, k):
        return k in self._s()

    def add(self, k):
        self._s().add(k)

    def clear(self):
        self._s().clear()

    def update(self, o):
        self._s().update(o)

    def __iter__(self):
        return iter(self._s())


@contextlib.contextmanager
def process_globals_per_thread():
    reg = jug.hooks.register
    old = (jug.task.alltasks, reg._hooks, reg._registered, signal.signal, jug.options.set_jugdir, list(sys.path), set(sys.modules))
    real_signal = signal.signal

    def thread_signal(sig, handler):
        if threading.current_thread() is threading.main_thread():
            return real_signal(sig, handler)
        return None          # a thread cannot install a handler; the lock-step runs deliver stop requests themselves

    with contextlib.ExitStack() as stack:
        # every one of them also where jug holds it under another module's global (from X import name)
        stack.enter_context(patching.patch_everywhere(old[0], TLList(old[0]), home=jug.task, name='alltasks'))
        stack.enter_context(patching.patch_everywhere(old[1], TLDict(old[1]), home=reg, name='_hooks'))
        stack.enter_context(patching.patch_everywhere(old[2], TLSet(old[2]), home=reg, name='_registered'))
        stack.enter_context(patching.patch_everywhere(real_signal, thread_signal, home=signal, name='signal'))
        stack.enter_context(patching.patch_everywhere(old[4], lambda jugdir: Task.store, home=jug.options, name='set_jugdir'))
        try:
            yield
        finally:
            _restore_process(old)


def _restore_process(old):
    if True:
        sys.path[:] = old[5]
        for m in list(sys.modules):
            if m not in old[6] and m.startswith('jugv_bjf_'):
                del sys.modules[m]


# ================================================================ programs
def subst_bvals(a, bvals):
    """replace ['bval', b] by the plain value the b-th bvalue() returned"""
    k = a[0]
    if k == 'bval':
        return ['pyval', bvals[a[1]]]
    if k in ('list', 'tuple'):
        return [k, [subst_bvals(x, bvals) for x in a[1]]]
    if k == 'dict':
        return [k, [[kk, subst_bvals(x, bvals)] for kk, x in a[1]]]
    if k == 'getitem':
        return [k, subst_bvals(a[1], bvals), subst_bvals(a[2], bvals)]
    if k == 'fun':
        return [k, subst_bvals(a[1], bvals), a[2]]
    if k in ('custom', 'identity'):
        return [k, subst_bvals(a[1], bvals)]
    return a


def unfold(bspec):
    """-> (plain program spec of the full sequential unfolding, extra: {task idx: sorted [task idx]}, bvalue values)"""
    fns = bspec['fns']
    tasks, vals, bvals = [], [], []
    extra = {}
    last_barrier = None        # number of tasks defined before the last barrier
    waits = []                 # argument tasks of the bvalues so far

    def subst(a):
        return subst_bvals(a, bvals)

    def val_of(j):
        return vals[j]
    for st in bspec['stmts']:
        if st[0] == 'barrier':
            last_barrier = len(tasks)
        elif st[0] == 'bvalue':
            bvals.append(vals[st[1]])
            waits.append(st[1])
        else:
            ts = {'fn': st[1]['fn'], 'args': [subst(a) for a in st[1]['args']], 'kwargs': [[n, subst(a)] for n, a in st[1]['kwargs']]}
            i = len(tasks)
            tasks.append(ts)
            spec = {'fns': fns, 'tasks': tasks}
            vals.append(X.ref_task(spec, i, val_of))
            e = set(waits)
            if last_barrier:
                e |= set(range(last_barrier))
            if e:
                extra[i] = sorted(e)
    return {'fns': fns, 'tasks': tasks}, extra, bvals


class BProgGen(X.ProgGen):
    def __init__(self, rng, ntasks, nb, indep=0.0, **kw):
        X.ProgGen.__init__(self, rng, ntasks, clean=True, **kw)
        self.nb = nb
        self.indep = indep          # probability that a task takes no task argument at all (only barriers order it)
        self.stmts = []
        self.nbv = 0
        self.bv_kinds = []

    def gen_arg(self, i, depth=2):
        if self.nbv and self.rng.random() < 0.2:
            return ['bval', self.rng.randrange(self.nbv)]
        return X.ProgGen.gen_arg(self, i, depth)

    def generate(self):
        rng = self.rng
        places = sorted(rng.sample(range(1, max(2, self.n)), min(self.nb, max(1, self.n - 1)))) if self.n > 1 else []
        while len(self.tasks) < self.n:
            i = len(self.tasks)
            while places and places[0] == i:
                places.pop(0)
                if rng.random() < 0.55:
                    self.stmts.append(['barrier'])
                else:
                    self.stmts.append(['bvalue', rng.randrange(i) if rng.random() < 0.5 else i - 1])
                    self.nbv += 1
            k = self.pick_fn()
            if i > 0 and rng.random() < self.indep:
                args = [['val', X._gen_plain(rng, 1)] for _ in range(rng.choice([0, 1]))]
                if self.nbv and rng.random() < 0.3:
                    args.append(['bval', rng.randrange(self.nbv)])
                kwargs = []
            else:
                nargs = rng.choice([0, 1, 1, 2, 2]) if i > 0 else rng.choice([0, 1])
                args = [self.gen_arg(i) for _ in range(nargs)]
                names = sorted(rng.sample(X.KWNAMES[:3], rng.choice([0, 0, 1]))) if i > 0 else []
                kwargs = [[n, self.gen_arg(i)] for n in names]
            ts = {'fn': k, 'args': args, 'kwargs': kwargs}
            self.tasks.append(ts)
            self.stmts.append(['task', ts])
        return {'fns': dict(self.fns), 'stmts': self.stmts}


def gen_bprogram(rng, ntasks, nb, **kw):
    for attempt in range(20):
        bspec = BProgGen(rng, ntasks, nb, **kw).generate()
        spec, extra, bvals = unfold(bspec)
        b = X.Built(spec)
        if len(set(b.hashes)) == len(b.hashes):
            return bspec
        # make the tasks distinct: a unique plain first argument
        n = 0
        for st in bspec['stmts']:
            if st[0] == 'task':
                st[1]['args'].insert(0, ['val', ['i', 7000 + n]])
                n += 1
        spec, extra, bvals = unfold(bspec)
        b = X.Built(spec)
        if len(set(b.hashes)) == len(b.hashes):
            return bspec
    raise X.HarnessError('could not make task hashes distinct')


def small_bprogram(shape):
    """hand-written shapes: 'b3' = t0; t1; barrier; t2(t0)   'bv3' = t0; v = bvalue(t0); t1(v); t2(t1)   'bb4' = t0; barrier; t1; barrier; t2(t1); t3"""
    T = lambda fn, *args: ['task', {'fn': fn, 'args': list(args), 'kwargs': []}]
    V = lambda n: ['val', ['i', n]]
    if shape == 'b3':
        return {'fns': {'0': ['list', 1], '1': ['app'], '2': ['app']}, 'stmts': [T(0, V(0)), T(1, V(1)), ['barrier'], T(2, V(2), ['task', 0])]}
    if shape == 'bv3':
        return {'fns': {'0': ['list', 1], '1': ['app'], '2': ['app']}, 'stmts': [T(0, V(0)), ['bvalue', 0], T(1, V(1), ['bval', 0]), T(2, V(2), ['task', 1])]}
    if shape == 'bb4':
        return {'fns': {'0': ['app'], '1': ['tuple', 1], '2': ['app'], '3': ['app']},
                'stmts': [T(0, V(0)), ['barrier'], T(1, V(1)), ['barrier'], T(2, V(2), ['task', 1]), T(3, V(3))]}
    if shape == 'b2':
        return {'fns': {'0': ['app'], '1': ['app']}, 'stmts': [T(0, V(0)), ['barrier'], T(1, V(1))]}
    raise ValueError(shape)


def bprogram_coq(bspec, keep_going, keep_failed, atoms):
    spec, extra, _ = unfold(bspec)
    prog = X.program_coq(spec, keep_going, keep_failed, atoms)
    ex = listlit(['(%s, %s)' % (X.pos(i + 1), listlit([X.pos(d + 1) for d in ds])) for i, ds in sorted(extra.items())])
    return '(Build_bprogram %s %s)' % (prog, ex)


# ================================================================ the jugfile of a worker
def build_here(ns):
    """executed by the jugfile of a worker thread (through the real jug.jug.init): define the tasks of the program against the
    current store; barrier() / bvalue() are the real ones and raise BarrierError when closed"""
    rt = _current['rt']
    bspec = _current['bspec']
    w = X._me()
    if w is None:
        raise RuntimeError('build_here outside a worker')
    rt.point(w, 'build', None)
    w.noyield = True
    try:
        fns = {int(k): X.make_fn(int(k), kind) for k, kind in bspec['fns'].items()}
        shell = X.Built.__new__(X.Built)      # only its obj() method and task list are used
        shell.tasks = []
        bvals = []

        def shell_dispatch(a):
            return shell.obj(subst_bvals(a, bvals))
        for st in bspec['stmts']:
            if st[0] == 'barrier':
                barrier_mod.barrier()
            elif st[0] == 'bvalue':
                bvals.append(barrier_mod.bvalue(shell.tasks[st[1]]))
            else:
                ts = st[1]
                args = [shell_dispatch(a) for a in ts['args']]
                kwargs = {n: shell_dispatch(a) for n, a in ts['kwargs']}
                shell.tasks.append(Task(fns[ts['fn']], *args, **kwargs))
        ns['tasks'] = shell.tasks
    finally:
        w.noyield = False


JUGFILE = 'from harness import execbarrier as _eb\n_eb.build_here(globals())\n'


# ================================================================ running
def run_bscenario(sc):
    """like exectrace.run_scenario, for a scenario whose 'bprogram' has barriers; every worker runs the real ExecuteCommand.run"""
    bspec = sc['bprogram']
    spec, extra, bvals = unfold(bspec)
    sc2 = dict(sc)
    sc2['program'] = spec
    res = X.Result()
    with X.Backend(sc.get('backend', 'dict')) as backend, jugrun.scratch_dir('jugvb') as jfdir:
        rt = X.Runtime(sc2, backend)
        refs = X.ref_program(spec)
        pre = sorted(sc.get('prefill', []))
        backend.prefill([(rt.master.hashes[i], refs[i][1]) for i in pre])
        rt.main_store = backend.open()
        rt.stopfile = os.path.join(jfdir, 'stop-please')
        res.r0 = [(i + 1, X.canon(refs[i][1])) for i in pre]
        res.snapshots = []
        decisions = []

        def body(w):
            rt.install_hooks()                      # this thread's own hook table
            name = 'jugv_bjf_%d_%d' % (os.getpid(), w.wid)
            path = os.path.join(jfdir, name + '.py')
            with open(path, 'w') as f:
                f.write(JUGFILE)
            o = w.options
            opts = types.SimpleNamespace(
                jugfile=path, jugdir='unused', pdb=False, debug=False, will_cite=True, short=True, print_out=lambda *a, **k: None,
                execute_no_check_environment=True, execute_target=None, execute_nr_wait_cycles=o.execute_nr_wait_cycles,
                execute_wait_cycle_time=0, execute_keep_going=o.execute_keep_going, execute_keep_failed=o.execute_keep_failed,
                aggressive_unload=o.aggressive_unload)
            execute_mod.execute.run(options=opts)   # raises SystemExit(1) when a task failed
            return 0
        rt.worker_body = body
        _current['rt'] = rt
        _current['bspec'] = bspec
        try:
            with X.patched(rt), process_globals_per_thread():
                wid = 0
                for ph in sc['phases']:
                    if ph.get('pre'):
                        X.operator_action(rt, ph['pre'])
                    rt.phase_marks.append(len(rt.trace))
                    decisions.append(rt.run_phase(ph, wid))
                    wid += len(ph['workers'])
                    final, locks, foreign = X.observe_store(rt)
                    res.snapshots.append({'at': len(rt.trace), 'final': final, 'locks': locks, 'temp': backend.temp_files()})
                res.final, res.locks, res.foreign = X.observe_store(rt)
        finally:
            _current.clear()
    res.trace = rt.trace
    res.decisions = decisions
    res.notes = rt.notes
    res.findings = rt.findings
    res.fn_log = rt.fn_log
    res.phase_marks = rt.phase_marks
    res.refs = refs
    res.workers = [(w.wid, w.exit_code, w.dead, w.interrupted) for w in rt.workers]
    res.kinds = {w.wid: list(w.kinds) for w in rt.workers}
    res.alts = rt.alts
    res.ntasks = len(spec['tasks'])
    res.extra = extra
    res.values = None
    return res


def bcase_coq(sc, res):
    atoms = X.Interner()
    prog = bprogram_coq(sc['bprogram'], sc.get('keep_going', False), sc.get('keep_failed', False), atoms)
    r0 = listlit(['(%s, %s)' % (X.pos(t), X.canon_coq(c, atoms)) for t, c in res.r0])
    evs = []
    for e in res.trace:
        if len(e) > 2 and e[0] != 'EExit' and e[2] == 0:
            e = (e[0], e[1], 99999) + tuple(e[3:])
        evs.append(X.ev_coq(e, atoms))
    tr = '[' + ';\n   '.join(evs) + ']'
    fin = listlit(['(%s, %s)' % (X.pos(i + 1), core.optlit(None if c is None else X.canon_coq(c, atoms))) for i, c in enumerate(res.final)])
    return '(%s,\n  %s,\n  %s,\n  %s)' % (prog, r0, tr, fin)


def bdiag(prop, case_text, tag='x'):
    import re
    os.makedirs(core.CASEDIR, exist_ok=True)
    base = 'BDiag_%s_%s_%d' % (prop, tag, os.getpid())
    path = os.path.join(core.CASEDIR, base + '.v')
    with open(path, 'w') as f:
        f.write('From Coq Require Import List ZArith Bool String.\nImport ListNotations.\n')
        f.write('From JugV Require Import Model.CaseLib.\n' + BIMPORTS + '\n')
        f.write('Definition the_case : bexec_case :=\n %s.\n' % case_text)
        f.write('Eval vm_compute in (bexec_case_diag the_case).\n')
        f.write('Eval vm_compute in (bexec_case_ok the_case, bfinal_is_sequential the_case).\n')
    try:
        rc, out = core.sh('ulimit -s unlimited 2>/dev/null; timeout 300 coqc -Q %s JugV %s' % (core.COQ, path), cwd=core.CASEDIR, timeout=330)
    finally:
        for ext in ('.v', '.vo', '.vok', '.vos', '.glob'):
            try:
                os.unlink(os.path.join(core.CASEDIR, base + ext))
            except OSError:
                pass
        try:
            os.unlink(os.path.join(core.CASEDIR, '.' + base + '.aux'))
        except OSError:
            pass
    m = re.search(r'=\s*(Some\s+(\d+)(?:%nat)?|None)\s*:\s*option nat', out)
    m2 = re.search(r'=\s*\((true|false),\s*(true|false)\)\s*:\s*bool \* bool', out)
    if rc != 0 or not m or not m2:
        return {'error': out[-500:]}
    return {'reject': int(m.group(2)) if m.group(2) is not None else None, 'ok': m2.group(1) == 'true', 'seq': m2.group(2) == 'true'}


# ================================================================ direct oracles
def oracle_barrier(sc, res):
    out = []
    tr = res.trace
    pre = set(t for t, _ in res.r0)
    stored = set(pre)
    for i, e in enumerate(tr):
        if e[0] == 'EDump':
            stored.add(e[2])
        elif e[0] == 'EStart':
            waits = [d + 1 for d in res.extra.get(e[2] - 1, [])]
            miss = sorted(d for d in waits if d not in stored)
            if miss:
                out.append({'what': 'a task defined after a barrier / bvalue started while a task it waits for has no result', 'task': e[2],
                            'worker': e[1], 'missing': miss, 'at': i})
    clean = all(code == 0 and not dead and not intr for (_, code, dead, intr) in res.workers)
    if clean:
        out += X.oracle_complete(res)
        out += X.oracle_c02(tr, clean_complete=True, ntasks=res.ntasks, prefilled=set(t - 1 for t in pre))
    out += X.oracle_sound(res)
    # a worker that left with work undone lost the lock of each such task to somebody else or saw something missing since its last
    # own dump (the reload loop gives up after passes in which IT executed nothing; "since its last action" is too strong for the
    # real loop: the re-check after a failed lock() may already see the result, and the barrier is looked at before the lock attempts)
    stored = set(pre)
    missing_seen, lost = {}, {}
    for i, e in enumerate(tr):
        if e[0] == 'EDump':
            stored.add(e[2])
            missing_seen[e[1]] = []
        if e[0] == 'ECanLoad' and not e[3]:
            missing_seen.setdefault(e[1], []).append(e[2])
        if e[0] == 'ELock' and not e[3]:
            lost.setdefault(e[1], set()).add(e[2])
        if e[0] == 'EExit' and e[2] == 0:
            undone = [t for t in range(1, res.ntasks + 1) if t not in stored and t not in lost.get(e[1], set())]
            if undone and not missing_seen.get(e[1]):
                out.append({'what': 'a worker gave up with tasks undone without having seen anything missing since its last own dump',
                            'worker': e[1], 'undone': undone, 'at': i})
    for (w, code, dead, intr) in res.workers:
        if not dead and not intr and code != 0:
            out.append({'what': 'a worker of a clean run exits with a non-zero status', 'worker': w, 'code': code})
    if res.locks:
        out.append({'what': 'a lock is left after a clean run', 'locks': res.locks})
    return out


ORACLES = (oracle_barrier,)


def closed_prefill(sc):
    spec, extra, _ = unfold(sc['bprogram'])
    pre = set(sc.get('prefill', []))
    return all(X.task_deps_spec(spec['tasks'][i]) <= pre for i in pre)


# ================================================================ batch
def replay_obj(sc, res, extra):
    sc2 = copy.deepcopy(sc)
    if res is not None:
        for ph, d in zip(sc2['phases'], res.decisions):
            ph['decisions'] = d
    o = {'scenario': sc2, 'kind2': 'exec-barrier'}
    o.update(extra)
    if res is not None:
        o['trace'] = [X.ev_show(e) for e in res.trace][:400]
        o['waits_for'] = {str(k + 1): [d + 1 for d in v] for k, v in res.extra.items()}
    return o


class BBatch:
    def __init__(self, ck, name='exec_barrier'):
        self.ck = ck
        self.name = name
        self.items = []
        self.found = []
        self.errors = 0
        self.chunk = 0

    def run(self, sc):
        ck = self.ck
        try:
            res = run_bscenario(sc)
        except X.HarnessError as e:
            self.errors += 1
            ck.count('exec-barrier: harness-error')
            if self.errors <= 2:
                ck.broken.append('exec-barrier harness error: %s' % str(e)[:300])
            return None
        for f in list(res.findings) + oracle_barrier(sc, res):
            self.found.append((sc, res, f))
        self.items.append((sc, res, bcase_coq(sc, res)))
        nb = sum(1 for st in sc['bprogram']['stmts'] if st[0] != 'task')
        ck.count('exec-barrier: runs')
        ck.count('exec-barrier: backend %s' % sc.get('backend', 'dict'))
        ck.count('exec-barrier: %d workers' % sum(len(ph['workers']) for ph in sc['phases']))
        ck.count('exec-barrier: %d barrier/bvalue statements' % nb)
        ck.count('exec-barrier: events', len(res.trace))
        if any('sleep' in ks for ks in res.kinds.values()):
            ck.count('exec-barrier: runs in which a worker slept between reloads / in the wait loop')
        ck.count('exec-barrier: initial store %s' % ('empty' if not sc.get('prefill') else 'dependency-closed' if closed_prefill(sc) else 'with holes (an upstream result missing)'))
        ck.count('exec-barrier: reloads (jugfile loads beyond the first, all workers)',
                 sum(max(0, ks.count('build') - 1) for ks in res.kinds.values()))
        return res

    def flush(self):
        ck = self.ck
        if self.items:
            cases = [c for _, _, c in self.items]
            shard = min(60, max(8, (len(cases) + 15) // 16))
            name = self.name if self.chunk == 0 else '%s%d' % (self.name, self.chunk)
            self.chunk += 1
            failing = ck.cases(name, BIMPORTS, 'bexec_case', 'bexec_case_ok', cases, shard=shard)
            for idx in (failing or [])[:4]:
                sc, res, text = self.items[idx]
                d = bdiag(ck.prop, text, tag=str(idx))
                if d.get('reject') is not None:
                    i = d['reject']
                    e = res.trace[i]
                    wid = e[1] if len(e) > 1 else None
                    recent = [(j, X.ev_show(x)) for j, x in enumerate(res.trace[:i + 1]) if len(x) > 1 and x[1] == wid][-12:]
                    ck.violation(replay_obj(sc, res, {'kind': 'correspondence', 'what': 'exec-barrier protocol-violation: ' + e[0],
                                                      'rejected_index': i, 'rejected_event': X.ev_show(e), 'worker_recent': recent}))
                elif 'error' not in d:
                    ck.violation(replay_obj(sc, res, {'kind': 'correspondence', 'what': 'exec-barrier final-store-differs-from-model',
                                                      'final': [None if c is None else X.canon_show(c) for c in res.final]}))
                else:
                    ck.broken.append('bexec_case_diag did not evaluate: ' + d['error'].replace('\n', ' | '))
            seqf = ck.cases(name + '_seq', BIMPORTS, 'bexec_case', 'bfinal_is_sequential', cases, shard=shard)
            for idx in (seqf or [])[:3]:
                sc, res, text = self.items[idx]
                ck.violation(replay_obj(sc, res, {'kind': 'correspondence', 'what': 'exec-barrier final-store-not-sequential'}))
            self.items = []
        per = {}
        for sc, res, f in self.found:
            per[f['what']] = per.get(f['what'], 0) + 1
            if per[f['what']] <= 2:
                ck.violation(replay_obj(sc, res, {'kind': 'impl-violation', 'what': 'exec-barrier: ' + f['what'], 'finding': f}))
        self.found = []


def scenarios(ck, n):
    rng = ck.rng
    for shape in ('b2', 'b3', 'bv3', 'bb4'):
        yield {'bprogram': small_bprogram(shape), 'backend': 'dict', 'prefill': [], 'keep_going': False, 'keep_failed': False,
               'phases': [{'workers': [{'nr_wait': 3}, {'nr_wait': 3}], 'policy': {'base': 'rr'}}]}
    for i in range(n):
        nt = rng.randint(2, 8)
        bspec = gen_bprogram(rng, nt, rng.randint(1, 3), rich=rng.choice([0.2, 0.5]), chainy=rng.choice([0.3, 0.6]), indep=rng.choice([0.0, 0.0, 0.6, 0.9])) if rng.random() < 0.8 else \
            small_bprogram(rng.choice(['b2', 'b3', 'bv3', 'bb4']))
        spec, extra, _ = unfold(bspec)
        nt = len(spec['tasks'])
        nw = rng.randint(2, 4)
        r = rng.random()
        if r < 0.45:
            pre = []
        elif r < 0.55:
            pre = X.closed_subset(rng, spec, 0.5)
        elif r < 0.7:
            pre = sorted(rng.sample(range(nt), rng.randint(1, nt)))      # NOT dependency-closed: an upstream result is missing
        else:
            # a store in which the phases up to some barrier / bvalue were completed (or everything was) and one or two results got lost
            marks = [k for k, st in enumerate(bspec['stmts']) if st[0] != 'task']
            upto = nt
            if marks and rng.random() < 0.75:
                upto = max(1, sum(1 for st in bspec['stmts'][:rng.choice(marks)] if st[0] == 'task'))
            holes = set(rng.sample(range(upto), rng.randint(1, min(2, upto))))
            pre = [i for i in range(upto) if i not in holes]
        pol = X.gen_policy(rng, nw)
        if rng.random() < 0.6:
            # whoever executes one of the tasks in front of a barrier / bvalue is parked inside it while the others go on
            waited = set()
            for i, ts in enumerate(spec['tasks']):
                waited |= X.task_deps_spec(ts) | set(extra.get(i, []))
            cands = [i for i in sorted(waited) if i not in pre] or [i for i in range(nt) if i not in pre] or [0]
            # prefer a task in front of the first barrier / bvalue that is still closed: that is what the others are waiting at
            ntask = 0
            for st in bspec['stmts']:
                if st[0] == 'task':
                    ntask += 1
                elif any(i not in pre for i in range(ntask)):
                    front = [c for c in cands if c < ntask]
                    if front and rng.random() < 0.75:
                        cands = front
                    break
            if len(cands) > 1 and rng.random() < 0.6:
                cands = cands[:-1]          # not the one defined last: the others are the ones a sloppy barrier would overlook
            pol = {'seed': rng.randrange(1 << 30), 'base': rng.choice(['random', 'rr']), 'flavour': 'stalled-task',
                   'stall_task': [[rng.choice(['ret', 'ret', 'dump', 'start', 'unlock']), rng.choice(cands) + 1, rng.choice([60, 200, 600])]]}
        yield {'bprogram': bspec, 'backend': X.pick_backend(rng, (5, 2, 1, 2)), 'prefill': pre, 'keep_going': False, 'keep_failed': False,
               'phases': [{'workers': [{'nr_wait': rng.choice([1, 2, 3, 5]), 'unload': rng.random() < 0.3} for _ in range(nw)],
                           'policy': pol}]}


def enumerate_small(ck, b, shape, max_preempt, max_runs):
    """every schedule (optionally: with a bounded number of preemptions) of 2 workers on a small barrier program"""
    sc0 = {'bprogram': small_bprogram(shape), 'backend': 'dict', 'prefill': [], 'keep_going': False, 'keep_failed': False, 'coarse': True,
           'phases': [{'workers': [{'nr_wait': 1}, {'nr_wait': 1}], 'policy': {}}]}
    stack = [[]]
    runs = 0
    done = True
    while stack:
        if runs >= max_runs:
            done = False
            break
        prefix = stack.pop()
        sc = copy.deepcopy(sc0)
        sc['phases'][0]['policy'] = {'base': 'stay', 'flavour': 'enumerated'}
        sc['phases'][0]['decisions'] = [[w, 'go'] for w in prefix]
        res = b.run(sc)
        runs += 1
        if res is None:
            continue
        seq = [d[0] for d in res.decisions[0]]
        alts = res.alts[0]
        for i in range(len(seq) - 1, len(prefix) - 1, -1):
            for a in alts[i]:
                if a != seq[i]:
                    cand = seq[:i] + [a]
                    if max_preempt is None or X.count_preemptions(cand, alts) <= max_preempt:
                        stack.append(cand)
    ck.count('exec-barrier: enumerated %s x 2 workers, %s: %d schedules%s' % (
        shape, 'all interleavings' if max_preempt is None else '<= %d preemptions' % max_preempt, runs, '' if done else ' (budget reached)'))


def tie(ck):
    """the additional tie section of C14: many workers x barrier phases"""
    b = BBatch(ck)
    for sc in scenarios(ck, ck.n(110, 2500)):
        res = b.run(sc)
        if res is not None and len(ck.samples) < 6 and len(res.trace) > 40 and not getattr(ck, '_eb_sampled', False):
            ck._eb_sampled = True
            ck.sample({'exec-barrier program': sc['bprogram'], 'backend': sc['backend'], 'events': [X.ev_show(e) for e in res.trace[:40]]})
    if ck.tier == 'thorough':
        enumerate_small(ck, b, 'b2', None, 6000)
        enumerate_small(ck, b, 'b3', 2, 4000)
        enumerate_small(ck, b, 'bv3', 2, 4000)
    else:
        enumerate_small(ck, b, 'b2', 2, 100)
    X.require_coverage(ck, ['exec-barrier: runs in which a worker slept between reloads / in the wait loop',
                            'exec-barrier: reloads (jugfile loads beyond the first, all workers)'], 'many workers x barrier phases')
    b.flush()


def replay(obj):
    sc = obj['scenario']
    res = run_bscenario(sc)
    found = list(res.findings) + oracle_barrier(sc, res)
    d = bdiag(obj.get('property', 'C14'), bcase_coq(sc, res), tag='replay')
    print('trace (%d events):' % len(res.trace))
    for i, e in enumerate(res.trace):
        print('  %3d %s' % (i, X.ev_show(e)))
    print('final store:', [None if c is None else X.canon_show(c) for c in res.final])
    print('expected (recorded):', obj.get('what'), obj.get('rejected_event', ''), obj.get('finding', ''))
    bad = False
    if 'error' in d:
        print('observed: the Coq query did not evaluate: %s' % d['error'])
        bad = True
    elif d['reject'] is not None:
        print('observed: the model rejects event %d: %s' % (d['reject'], X.ev_show(res.trace[d['reject']])))
        bad = True
    else:
        print('observed: all events accepted; final store agrees with the model: %s; sequential: %s' % (d['ok'], d['seq']))
        bad = not (d['ok'] and d['seq'])
    for f in found:
        print('observed: direct oracle: %s' % str(f)[:600])
        bad = True
    if not bad:
        print('observed: no violation on this tree')
    return 1 if bad else 0


if __name__ == '__main__':
    for shape in ('b2', 'b3', 'bv3', 'bb4'):
        sc = {'bprogram': small_bprogram(shape), 'backend': 'dict', 'prefill': [], 'keep_going': False, 'keep_failed': False,
              'phases': [{'workers': [{'nr_wait': 3}, {'nr_wait': 3}], 'policy': {'base': 'rr'}}]}
        res = run_bscenario(sc)
        if shape == 'b3':
            for i, e in enumerate(res.trace):
                print('  %3d %s' % (i, X.ev_show(e)))
        print(shape, len(res.trace), 'events; final', [None if c is None else X.canon_show(c) for c in res.final], 'extra', res.extra,
              'coq', bdiag('C14', bcase_coq(sc, res), 'sanity'), 'oracles', oracle_barrier(sc, res))
