"""C06 - the store is a faithful key-value map for every picklable value and history.

Proof: Props/C06.v (Model/Store.v, Proofs/StoreFacts.v): every backend's bookkeeping refines a finite
map for ALL operation sequences; the framing of encode.py / file_store round-trips given the byte codecs.
Tie: random operation sequences are run against the REAL store objects (file_store with and without
compress_numpy, with pack operations - complete ones and ones killed after the new pack file is in place
but before all the result files it replaces are unlinked, which leaves keys both in the pack and as
files -, dict_store with and without backing file, redis_store on the in-process fake server); every observed result, and for file stores the final packed/raw/encoded split,
is compared with the model inside coqc.  The on-disk form of every value of the universe is compared
with Model.Store.file_frame / stream_frame.
Search (independent of Coq): the same runs are compared with a plain Python dict.
Sampled assumption: the codec hypotheses of the framing theorems are tested on the value universe."""
import base64
import os
import threading
import decimal
import fractions
import hashlib
import io
import pickle
import random
import struct
import zlib

from . import core
from .core import zlit, natlit, boollit, listlit, optlit
from . import jugrun
from . import fakeredis
from . import storefaults

import numpy as np
import jug.backends.file_store as fsmod
import jug.backends.encode as encmod
from jug.backends.file_store import file_store
from jug.backends.dict_store import dict_store
from jug.backends.redis_store import redis_store

EVIDENCE = dict(
    level='proof',
    rule='case = one operation sequence (<= 30 operations over 4 keys) on one store configuration, with the result of every '
         'operation as observed on the real store; non-trivial when it contains a dump followed by at least one observing '
         'operation (load/can_load/list/remove/remove_many/cleanup/pack/killed pack/reopen); dumps that do not complete '
         '(the encoding raises; still in progress on another store object) are part of the histories; distinct = distinct (configuration, operations) '
         'tuples; a third of the random sequences on reopenable configurations are made of sessions (close+reopen '
         'boundaries) that each issue ONE kind of state-changing operation; besides the random sequences, one round-trip sequence (dump, load, pack, reopen, load, list, remove) per '
         '(value of the universe, configuration; the removal is remove / remove_many / cleanup in turn; on the packing '
         'configuration the pack is complete or killed before its first unlink).  Frame cases = (value, compress_numpy) pairs.',
    explanation='Coq refinement theorems (file/dict/redis bookkeeping vs. a finite map, all operation sequences) + framing '
                'round-trip under codec hypotheses; differential evaluation of the model against the real stores; '
                'direct comparison of the real stores with a Python dict; sampled codec hypotheses',
)

NPY_MAGIC = b'\x93NUMPY'


class Derived(np.ndarray):
    """an ndarray subclass: type(v) != np.ndarray, so it is pickled, never np.save'd"""
    pass


class Tagged(np.ndarray):
    """an ndarray subclass that carries an attribute (the InfoArray of the NumPy documentation, made picklable):
    written as a bare array it would lose both its type and the attribute"""

    def __new__(cls, input_array, info=None):
        obj = np.asarray(input_array).view(cls)
        obj.info = info
        return obj

    def __array_finalize__(self, obj):
        if obj is None:
            return
        self.info = getattr(obj, 'info', None)

    def __reduce__(self):
        r = super().__reduce__()
        return (r[0], r[1], r[2] + (self.info,))

    def __setstate__(self, state):
        self.info = state[-1]
        super().__setstate__(state[:-1])


class Stub:
    """Task-like object for cleanup(active)"""
    def __init__(self, h):
        self.h = h

    def hash(self):
        return self.h


KEYS = [b'ab' + b'0' * 37 + b'1', b'ab' + b'0' * 37 + b'2', b'cd' + b'1' * 38, b'ef' + b'9' * 38]
STRAY_KEY_ID = 99            # a listed key that is none of ours


# ------------------------------------------------------------------------------------------------
# value universe, content+type equality
# ------------------------------------------------------------------------------------------------
def _dg(b):
    return hashlib.sha1(b).hexdigest()


def canon(v):
    """Canonical, hashable description of a value: content AND type / dtype / shape; insensitive to the
    memory layout of arrays and to object identity; floats by bit pattern (nan, -0.0)."""
    t = type(v)
    if v is None:
        return ('None',)
    if t is bool:
        return ('bool', v)
    if t is int:
        return ('int', v)
    if t is float:
        return ('float', struct.pack('>d', v).hex())
    if t is complex:
        return ('complex', struct.pack('>dd', v.real, v.imag).hex())
    if t is str:
        return ('str', len(v), _dg(v.encode('utf-8', 'surrogatepass')))
    if t in (bytes, bytearray):
        return (t.__name__, len(v), _dg(bytes(v)))
    if t in (list, tuple):
        return (t.__name__, tuple(canon(x) for x in v))
    if t in (set, frozenset):
        return (t.__name__, tuple(sorted((canon(x) for x in v), key=repr)))
    if t is dict:
        return ('dict', tuple(sorted(((canon(k), canon(x)) for k, x in v.items()), key=repr)))
    if isinstance(v, np.ndarray):
        extra = ()
        data = v
        if isinstance(v, np.ma.MaskedArray):
            # the data under the mask, the mask itself, the fill value
            data = np.asarray(v.data)
            extra = ('masked', _dg(np.ma.getmaskarray(v).tobytes(order='C')), canon(v.fill_value), bool(v.hardmask))
        elif t is not np.ndarray:
            # a subclass: whatever it carries besides the buffer (attributes of the instance)
            extra = tuple(sorted((k, canon(x)) for k, x in getattr(v, '__dict__', {}).items()))
        if data.dtype.hasobject:
            content = tuple(canon(x) for x in np.asarray(data).ravel(order='C').tolist())
        else:
            content = _dg(np.asarray(data).tobytes(order='C'))
        return ('ndarray', t.__module__ + '.' + t.__qualname__, v.dtype.str, repr(v.dtype), tuple(v.shape), content) + extra
    if isinstance(v, np.generic):
        return ('npscalar', t.__module__ + '.' + t.__qualname__, v.dtype.str, _dg(v.tobytes()))
    return ('obj', t.__module__ + '.' + t.__qualname__, repr(v))


def _find_bytes_with_encoded_size(target, rnd):
    """incompressible bytes whose encode() is exactly `target` bytes long (pack threshold boundary)"""
    base = bytes(rnd.getrandbits(8) for _ in range(target))
    for n in range(max(1, target - 80), target):
        if len(encmod.encode(base[:n])) == target:
            return base[:n]
    return None


def build_universe(thorough=False):
    """[(name, value, weight)] - deterministic; index = interned id; id 0 is None."""
    rnd = random.Random(606)
    U = []

    def add(name, v, w=1.0):
        U.append((name, v, w))

    add('None', None, 3)
    add('True', True)
    add('False', False)
    add('0', 0)
    add('1', 1)
    add('-1', -1)
    add('2**64', 2 ** 64)
    add('-2**200', -2 ** 200)
    add('10**30', 10 ** 30)
    add('0.0', 0.0)
    add('-0.0', -0.0)
    add('1.5', 1.5)
    add('nan', float('nan'))
    add('inf', float('inf'))
    add('-inf', float('-inf'))
    add('5e-324', 5e-324)
    add('complex(1,-0.0)', complex(1, -0.0))
    add("''", '')
    add("'a'", 'a')
    add('unicode', 'é漢字\U0001f600')
    add("'x'*600", 'x' * 600)
    add('randstr700', ''.join(chr(rnd.randint(33, 0x2fff)) for _ in range(700)))
    add("b''", b'')
    add("b'\\x00'", b'\x00')
    add('npy-magic-bytes', NPY_MAGIC + b'\x01\x00v\x00')
    add("b'P'", b'P')
    add("b'N'", b'N')
    add('randbytes600', bytes(rnd.getrandbits(8) for _ in range(600)))
    limit = fsmod.MAX_FILESIZE_IN_PACK
    for tgt in (limit - 1, limit, limit + 1):
        b = _find_bytes_with_encoded_size(tgt, rnd)
        if b is not None:
            add('bytes-encoded-size-%d' % tgt, b, 1.5)
    add('1MB-bytes-compressible', b'ab' * 500000, 0.12)
    add('1MB-bytes-random', rnd.randbytes(1000000), 0.12)
    add('1MB-str', 'jug' * 340000, 0.08)
    # single payloads far beyond any buffer / block size a codec layer may use (pickle hands each of them to the
    # stream in ONE read / readinto): inside containers, so that they take the pickle branch
    MB = 1 << 20
    add('dict-with-17MiB-bytes', {'meta': (1, 'x'), 'blob': (b'jug-payload-\x00\xff' * (17 * MB // 14 + 1))[:17 * MB + 3]}, 0.04)
    big_arr = np.zeros(3 * MB, dtype=np.int64)
    big_arr[::4099] = np.arange(len(big_arr[::4099]))
    add('list-with-24MiB-array', [big_arr, 'tail'], 0.04)
    if thorough:
        add('list-with-40MiB-random-bytes', [rnd.randbytes(40 * MB), 7], 0.02)
        add('bytearray-17MiB', bytearray((b'0123456789abcde\n' * (17 * MB // 16 + 1))[:17 * MB + 1]), 0.02)
        add('33MiB-str', 'résultat ' * (33 * MB // 10), 0.02)
        add('arr-object-with-20MiB-bytes', np.array([b'\x01\x02' * (10 * MB), None, 3], dtype=object), 0.02)
        add('tuple-of-two-18MiB-bytes', (b'a' * (18 * MB), b'b' * (18 * MB + 5)), 0.02)
    add('bytearray', bytearray(b'abc'))
    # containers
    add('[]', [], 2)
    add('()', ())
    add('{}', {})
    add('set()', set())
    add('frozenset()', frozenset())
    add('[[]]', [[]])
    add('[(),{},[[]]]', [(), {}, [[]]])
    add("{'a':[]}", {'a': []})
    add('((),)', ((),))
    add('[None]', [None])
    add('dict-mixed', {'k': None, 1: (1, 2), (3, 4): [5.5, 'x']})
    add('list(range(232))', list(range(232)))
    add('{1:2,a:b}', {1: 2, 'a': 'b'})
    deep = []
    for _ in range(60):
        deep = [deep]
    add('deep-list-60', deep)
    add('(nan,)', (float('nan'),))
    add('set-of-ints', {1, 2, 3})
    add('frozenset-of-str', frozenset(['p', 'q']))
    add('big-dict', {i: str(i) * 3 for i in range(300)})
    add('Fraction(1,3)', fractions.Fraction(1, 3))
    add('range(5)', range(5))
    add('Decimal', decimal.Decimal('1.10'))
    add('slice', slice(1, None, 3))
    add('dict-with-array', {'res': np.arange(5), 'o': np.array([None, 'x'], dtype=object)})
    add('list-of-arrays', [np.zeros((0, 2)), np.float32(2.5)])
    # arrays: every dtype kind
    A = 2.0
    add('arr-bool', np.array([True, False, True]), A)
    add('arr-int8', np.array([-128, 0, 127], dtype=np.int8), A)
    add('arr-uint16', np.array([0, 65535], dtype=np.uint16), A)
    add('arr-int32-2d', (np.arange(100) % 17).reshape((10, 10)).astype(np.int32), A)
    add('arr-int64', np.arange(7, dtype=np.int64), A)
    add('arr-int64-big', np.arange(100, dtype=np.int64), A)
    add('arr-bigendian-i4', np.array([1, 2, 3], dtype='>i4'), A)
    add('arr-float16', np.array([0.1, -2.5], dtype=np.float16), A)
    add('arr-float32', np.array([1.5, np.inf], dtype=np.float32), A)
    add('arr-float64-nan', np.array([np.nan, -0.0, 1e300]), A)
    add('arr-complex64', np.array([1 + 2j, -0.0j], dtype=np.complex64), A)
    add('arr-complex128', np.array([[1 + 2j], [3 - 4j]]), A)
    add('arr-S3', np.array([b'abc', b'', b'x'], dtype='S3'), A)
    add('arr-U2', np.array(['éa', '', 'zz'], dtype='U2'), A)
    add('arr-datetime64', np.array(['2020-01-01', 'NaT', '1999-12-31'], dtype='M8[D]'), A)
    add('arr-timedelta64', np.array([1, -5, 0], dtype='m8[s]'), A)
    add('arr-void4', np.array([b'\x01\x02\x03\x04', b'\x00\x00\x00\x00'], dtype='V4'), A)
    add('arr-struct', np.array([(1, 2.5), (-3, float('nan'))], dtype=[('a', '<i4'), ('b', '<f8')]), A)
    add('arr-struct-subarray', np.zeros(3, dtype=[('p', '<f4', (2,)), ('q', 'S2')]), A)
    add('arr-struct-objfield', np.array([([1, 2], 3), (None, 4)], dtype=[('a', 'O'), ('b', '<i4')]), A)
    # object dtype
    add('arr-object', np.array([1, None, 'x'], dtype=object), 3)
    o2 = np.empty((2, 2), dtype=object)
    o2[0, 0], o2[0, 1], o2[1, 0], o2[1, 1] = [1, 2], {'a': ()}, 2.5, None
    add('arr-object-2d', o2, 3)
    add('arr-object-empty', np.array([], dtype=object), A)
    add('arr-object-0d', np.array(None, dtype=object), A)
    on = np.empty(2, dtype=object)
    on[0], on[1] = np.arange(3), 'tail'
    add('arr-object-nested-array', on, A)
    add('arr-object-fortran', np.asfortranarray(o2), A)
    # shapes and layouts
    add('arr-0d-float', np.array(3.5), A)
    add('arr-0d-int', np.array(7), A)
    add('arr-0d-zero', np.array(0), A)                 # falsy values: `if value:` / `is not None` shortcuts
    add('arr-0d-false', np.array(False), A)
    add('arr-empty-1d', np.zeros((0,)), A)
    add('arr-empty-0x3', np.zeros((0, 3), dtype=np.int16), A)
    add('arr-empty-2x0x3', np.zeros((2, 0, 3)), A)
    base = np.arange(24, dtype=np.float64).reshape((4, 6))
    add('arr-fortran', np.asfortranarray(base), A)
    add('arr-fortran-big', np.asfortranarray(np.arange(200.).reshape((10, 20))), A)
    add('arr-view-step2', np.arange(20)[::2], A)
    add('arr-view-T', base.T, A)
    add('arr-view-cols', base[:, ::2], A)
    add('arr-view-reversed', np.arange(9, dtype=np.int32)[::-1], A)
    add('arr-view-broadcast', np.broadcast_to(np.array([1, 2, 3]), (4, 3)), A)
    add('arr-3d-transposed', np.arange(24).reshape((2, 3, 4)).transpose((2, 0, 1)), A)
    add('arr-1MB', np.arange(131072, dtype=np.int64), 0.12)
    # instances of ndarray SUBCLASSES: never the raw .npy / np.save form (that would turn them into bare arrays)
    add('arr-derived', np.arange(4).view(Derived), A)
    add('arr-derived-2d-fortran', np.asfortranarray(base).view(Derived), A)
    add('arr-derived-empty', np.zeros((0, 2)).view(Derived), A)
    add('arr-derived-0d', np.array(2.5).view(Derived), A)
    add('arr-derived-object', np.array([1, None, 'x'], dtype=object).view(Derived), A)
    add('arr-tagged', Tagged(np.arange(6, dtype=np.int32).reshape((2, 3)), info={'unit': 'nm', 'scale': (1, 2.5)}), A)
    add('arr-tagged-float', Tagged(np.array([0.5, -1.5]), info='calibrated'), A)
    add('arr-matrix', np.matrix([[1, 2], [3, 4]]), A)
    add('arr-matrix-float-row', np.matrix([[0.5, 1.5, -2.0]]), A)
    add('arr-recarray', np.rec.array([(1, 2.5), (-3, 0.0)], dtype=[('a', '<i4'), ('b', '<f8')]), A)
    add('arr-recarray-empty', np.rec.array(np.zeros(0, dtype=[('x', '<i2'), ('y', 'S2')])), A)
    add('arr-masked', np.ma.MaskedArray(np.arange(5.), mask=[False, True, False, False, True]), A)
    add('arr-masked-nomask', np.ma.MaskedArray(np.arange(4, dtype=np.int64)), A)
    add('arr-masked-2d-fill', np.ma.MaskedArray(np.arange(6).reshape((2, 3)), mask=[[1, 0, 0], [0, 0, 1]], fill_value=-7), A)
    add('arr-chararray', np.char.array(['ab', 'c', '']), A)
    add('list-with-subclasses', [np.matrix([[1]]), Tagged(np.arange(2), info=3)])
    # NumPy scalars
    add('np.int64(7)', np.int64(7))
    add('np.uint8(255)', np.uint8(255))
    add('np.float32(1.5)', np.float32(1.5))
    add('np.float16(0.1)', np.float16(0.1))
    add('np.float64(nan)', np.float64('nan'))
    add('np.bool_(True)', np.bool_(True))
    add('np.bool_(False)', np.bool_(False))
    add('np.float64(0.0)', np.float64(0.0))
    add('np.int64(0)', np.int64(0))
    add('np.complex64', np.complex64(1 + 2j))
    add('np.str_', np.str_('x'))
    add('np.bytes_', np.bytes_(b'y'))
    add('np.datetime64', np.datetime64('2020-01-01'))
    return U


class Universe:
    def __init__(self, thorough=False):
        self.entries = []           # dicts: name, value, weight, canon, isarr, isnone, size_enc, size_raw
        self.ids = {}
        limit = fsmod.MAX_FILESIZE_IN_PACK
        for name, v, w in build_universe(thorough):
            c = canon(v)
            if c in self.ids:
                continue
            isarr = type(v) == np.ndarray
            size_enc = len(encmod.encode(v))
            size_raw = None
            if isarr:
                b = io.BytesIO()
                np.lib.format.write_array(b, v)
                size_raw = len(b.getvalue())
            self.ids[c] = len(self.entries)
            self.entries.append(dict(name=name, value=v, weight=w, canon=c, isarr=isarr, isnone=v is None,
                                     size_enc=size_enc, size_raw=size_raw,
                                     small_enc=size_enc <= limit, small_raw=(size_raw is not None and size_raw <= limit)))
        assert self.entries[0]['isnone']
        self.weights = [e['weight'] for e in self.entries]
        self.by_name = {e['name']: i for i, e in enumerate(self.entries)}

    def id_of(self, v):
        try:
            return self.ids.get(canon(v), -1)
        except Exception:
            return -2

    def pick(self, rng):
        return rng.choices(range(len(self.entries)), weights=self.weights, k=1)[0]

    def table_lit(self, used):
        return listlit(['(%s, (%s, %s, %s))' % (zlit(i), boollit(self.entries[i]['isarr']),
                                                  boollit(self.entries[i]['small_raw']), boollit(self.entries[i]['small_enc']))
                        for i in sorted(used)])


_UNIVERSE = {}


def universe(thorough=False):
    if thorough not in _UNIVERSE:
        _UNIVERSE[thorough] = Universe(thorough)
    return _UNIVERSE[thorough]


# ------------------------------------------------------------------------------------------------
# configurations and drivers of the real stores
# ------------------------------------------------------------------------------------------------
CONFIGS = [
    # name, backend, options
    ('file', 'file', dict(compress=False, pack=False)),
    ('file+compress_numpy', 'file', dict(compress=True, pack=False)),
    ('file+pack', 'file', dict(compress=None, pack=True)),          # compress alternates with the sequence index
    ('dict', 'dict', dict(backed=False)),
    ('dict+file', 'dict', dict(backed=True)),
    ('redis-fake', 'redis', dict()),
]


class Driver:
    """One real store on a scratch location; reopen() = close() + a new object on the same location."""

    def __init__(self, backend, opts, scratch):
        self.backend = backend
        self.opts = opts
        self.scratch = scratch
        self.server = None
        if backend == 'redis':
            self.server = fakeredis.FakeServer()
            fakeredis.install(self.server)
        self.store = self._open()

    def jugdir(self):
        return self.scratch + '/jugdata'

    def _open(self):
        if self.backend == 'file':
            return file_store(self.jugdir(), compress_numpy=self.opts['compress'])
        if self.backend == 'dict':
            return dict_store(self.scratch + '/dict_store.pkl') if self.opts['backed'] else dict_store()
        return redis_store('redis://localhost/')

    def reopen(self):
        st = self.store
        self.store = None
        try:
            st.close()
        finally:
            if self.backend == 'dict':
                st.backend = None           # keep dict_store.__del__ from writing again
        self.store = self._open()

    def begin_dump(self, key, value):
        """another worker (its own store object) starts dump(value, key) and is held inside the encoder: the
        temporary file exists, nothing is published"""
        other = self._open()
        gate = storefaults.Gate(value)
        res = {}

        def work():
            try:
                other.dump(gate, key)
            except BaseException as e:
                res['err'] = e
        t = threading.Thread(target=work, daemon=True)
        t.start()
        if not gate.entered.wait(30) and t.is_alive():
            raise RuntimeError('C06 harness: the gated dump never reached the encoder')
        self.pending = (t, gate, res)

    def end_dump(self):
        t, gate, res = self.pending
        self.pending = None
        gate.release.set()
        t.join(60)
        return res.get('err')

    def finish(self):
        if getattr(self, 'pending', None):
            self.end_dump()
        st = self.store
        self.store = None
        if st is not None:
            if self.backend == 'dict':
                st.backend = None
            try:
                st.close()
            except Exception:
                pass
        if self.backend == 'redis':
            fakeredis.uninstall()

    def coq_config(self):
        if self.backend == 'file':
            return '(CFile %s)' % boollit(self.opts['compress'])
        if self.backend == 'dict':
            return '(CDict %s)' % boollit(self.opts['backed'])
        return 'CRedis'

    def shape(self):
        """final bookkeeping of a file store: (packed key ids, raw-file key ids, encoded-file key ids)"""
        if self.backend != 'file':
            return None
        # read from the documented directory layout, not through private methods of file_store (the pack on disk is the
        # store object's copy of it: every change of the copy is followed by a save)
        jd = self.jugdir()
        packed = sorted(key_id(k) for k in storefaults.pack_on_disk(jd).keys())
        raw, encd = [], []
        for k in storefaults.keys_on_disk(jd):
            with open(storefaults.result_path(jd, k), 'rb') as f:
                head = f.read(len(NPY_MAGIC))
            (raw if head == NPY_MAGIC else encd).append(key_id(k))
        return (packed, sorted(raw), sorted(encd))


def key_id(k):
    if isinstance(k, str):
        k = k.encode('utf-8')
    try:
        return KEYS.index(k) + 1
    except ValueError:
        return STRAY_KEY_ID


ERR_CODES = {'ValueError': 1, 'error': 2, 'TypeError': 3, 'OSError': 4, 'UnpicklingError': 5, 'EOFError': 6,
             'KeyError': 7, 'FileNotFoundError': 8, 'AttributeError': 10, 'UnicodeDecodeError': 11}


def err_code(e):
    return ERR_CODES.get(type(e).__name__, 9)


def apply_op(drv, op, U):
    """Run one operation on the real store.  Returns the canonical observation:
    ('unit',) | ('val', id) | ('missing',) | ('bool', b) | ('keys', sorted ids) | ('count', n) | ('err', code, text)"""
    st = drv.store
    kind = op[0]
    try:
        if kind == 'dump':
            st.dump(U.entries[op[2]]['value'], KEYS[op[1] - 1])
            return ('unit',)
        if kind == 'load':
            try:
                v = st.load(KEYS[op[1] - 1])
            except (FileNotFoundError, KeyError):
                return ('missing',)
            return ('val', U.id_of(v))
        if kind == 'can_load':
            return ('bool', bool(st.can_load(KEYS[op[1] - 1])))
        if kind == 'remove':
            return ('bool', bool(st.remove(KEYS[op[1] - 1])))
        if kind == 'remove_many':
            return ('keys', sorted(key_id(k) for k in st.remove_many([KEYS[i - 1] for i in op[1]])))
        if kind == 'list':
            return ('keys', sorted(key_id(k) for k in st.list()))
        if kind == 'cleanup':
            # file_store.cleanup also sweeps (and counts) the stray files of tempfiles/ that dumps which did not
            # complete left behind; the model's count is about results: count them apart
            stray = 0
            if drv.backend == 'file' and os.path.isdir(storefaults.tempdir_of(drv.jugdir())):
                stray = len(os.listdir(storefaults.tempdir_of(drv.jugdir())))
            return ('count', int(st.cleanup([Stub(KEYS[i - 1]) for i in op[1]])) - stray)
        if kind == 'pack':
            return ('count', int(st.update_pack()))
        if kind == 'reopen':
            drv.reopen()
            return ('unit',)
        if kind == 'dump_fail':
            # dump of a value whose encoding raises: the exception must come out and nothing may change
            kb = KEYS[op[1] - 1]
            packed_before = drv.backend == 'file' and kb in storefaults.pack_on_disk(drv.jugdir())
            raised = False
            try:
                st.dump(storefaults.failing_value(op[2], op[3]), kb)
            except BaseException as e:
                if type(e).__name__ != op[2] or (storefaults.raised_in_harness(e, core.VERIF)
                                                 and 'injected while encoding' not in str(e)):
                    raise
                raised = True
            if not raised:
                return ('unit',)
            how = 'nothing'
            if packed_before and kb not in storefaults.pack_on_disk(drv.jugdir()):
                # recorded observation (DESIGN.md, C05/C06): dump() drops the packed copy of the key BEFORE it writes
                how = 'kept' if os.path.exists(storefaults.result_path(drv.jugdir(), kb)) else 'dropped'
            return ('raised', op[2], how)
        if kind == 'dump_begin':
            drv.begin_dump(KEYS[op[1] - 1], U.entries[op[2]]['value'])
            return ('unit',)
        if kind == 'dump_end':
            e = drv.end_dump()
            if e is not None:
                return ('err', err_code(e), '%s: %s' % (type(e).__name__, str(e)[:120]))
            return ('unit',)
        if kind == 'pack_crash':
            # `jug pack` dies at its (n+1)-th unlink of a result file; the next process opens the directory
            if drv.backend == 'file':
                storefaults.killed_pack(st, drv.jugdir(), op[1])
                drv.store = drv._open()
            return ('unit',)
    except Exception as e:          # anything unexpected FROM JUG is an observation, not a crash of the check
        if storefaults.raised_in_harness(e, core.VERIF):
            raise                   # a harness bug / a jug internal the harness must not rely on: never an observation
        return ('err', err_code(e), '%s: %s' % (type(e).__name__, str(e)[:120]))
    raise ValueError('unknown op %r' % (op,))


def oracle_step(d, op):
    """The property's own oracle: a plain dict key id -> value id.  Returns what the property demands of
    this operation's result, or None when the property does not speak about it."""
    kind = op[0]
    if kind == 'dump':
        d[op[1]] = op[2]
        return ('unit',)
    if kind == 'load':
        return ('val', d[op[1]]) if op[1] in d else None        # loading a key that is not there: unspecified
    if kind == 'can_load':
        return ('bool', op[1] in d)
    if kind == 'remove':
        return ('bool', d.pop(op[1], None) is not None)
    if kind == 'remove_many':
        gone = sorted(set(k for k in op[1] if k in d))
        for k in gone:
            del d[k]
        return ('keys', gone)
    if kind == 'list':
        return ('keys', sorted(d))
    if kind == 'cleanup':
        for k in [k for k in d if k not in op[1]]:
            del d[k]
        return 'noerr'
    if kind in ('pack', 'reopen', 'pack_crash', 'dump_begin'):
        return 'noerr'
    if kind == 'dump_fail':
        return ('raised',)
    if kind == 'dump_end':
        return ('unit',)            # the caller stores the value of the matching dump_begin
    raise ValueError(kind)


def satisfies(expected, obs, keys_as_set=False):
    if expected is None or expected == 'noerr':
        return obs[0] != 'err'
    if keys_as_set and expected[0] == 'keys' and obs[0] == 'keys':
        return sorted(set(obs[1])) == list(expected[1])
    return list(expected) == list(obs[:len(expected)])


def run_sequence(backend, opts, ops, U):
    """Runs `ops` on a fresh real store.  Returns (observations, executed ops, shape, coq config,
    first oracle failure or None)."""
    obs_all = []
    fail = None
    with jugrun.scratch_dir('jugv_c06_') as scratch:
        drv = Driver(backend, opts, scratch)
        try:
            cfg = drv.coq_config()
            d = {}
            done = []
            crashed = False
            begun = None
            for i, op in enumerate(ops):
                want = oracle_step(d, op)
                obs = apply_op(drv, op, U)
                if op[0] == 'dump_begin':
                    begun = (op[1], op[2])
                elif op[0] == 'dump_end' and begun is not None:
                    d[begun[0]] = begun[1]          # the other worker's result is published now
                    begun = None
                elif op[0] == 'dump_fail' and obs[0] == 'raised':
                    if obs[2] == 'dropped':
                        d.pop(op[1], None)
                    elif obs[2] == 'kept':
                        obs = obs + (d.get(op[1], -1),)
                obs_all.append(obs)
                done.append(op)
                crashed = crashed or op[0] == 'pack_crash'
                # after a killed pack list() may name a key twice (once from the pack, once from the file): same set
                if fail is None and not satisfies(want, obs, keys_as_set=crashed and op[0] == 'list'):
                    fail = dict(step=i, op=op, expected=('no exception' if want in (None, 'noerr') else list(want)), observed=list(obs))
                if obs[0] == 'err':
                    break                       # the store may be half-way through an operation: stop here
            shape = None
            if not (obs_all and obs_all[-1][0] == 'err'):
                try:
                    shape = drv.shape()
                except (AttributeError, TypeError, NameError):
                    raise                        # the harness, not the store
                except Exception:
                    shape = None
        finally:
            drv.finish()
    return obs_all, done, shape, cfg, fail


# ------------------------------------------------------------------------------------------------
# generators, rendering
# ------------------------------------------------------------------------------------------------
FAIL_EXC = ('ValueError', 'OSError', 'TypeError', 'KeyboardInterrupt')


def gate_value(rng, U):
    """a value for a dump in progress: not an exact ndarray (the gate makes it take the pickle branch)"""
    while True:
        v = U.pick(rng)
        if not U.entries[v]['isarr'] and U.entries[v]['size_enc'] < (1 << 20):
            return v


def gen_ops(rng, U, pack, reopen, concurrent=False):
    n = rng.randint(4, 25)
    ops = []
    nk = len(KEYS)
    for _ in range(n):
        r = rng.random()
        if r < 0.04:
            # a dump that does not complete: the encoding of the value raises
            ops.append(('dump_fail', rng.randint(1, nk), rng.choice(FAIL_EXC), rng.choice(['list', 'oarr'])))
        elif r < 0.075 and concurrent:
            # another worker's dump is in progress while this store object observes and works (no cleanup / pack in
            # the window: they are not meant to run concurrently with a writer)
            ops.append(('dump_begin', rng.randint(1, nk), gate_value(rng, U)))
            for _w in range(rng.randint(1, 4)):
                r2 = rng.random()
                ops.append(('list',) if r2 < 0.35 else (rng.choice(['can_load', 'load']), rng.randint(1, nk)) if r2 < 0.75
                           else ('dump', rng.randint(1, nk), U.pick(rng)) if r2 < 0.9 else ('remove', rng.randint(1, nk)))
            ops.append(('dump_end',))
        elif r < 0.34:
            ops.append(('dump', rng.randint(1, nk), U.pick(rng)))
        elif r < 0.50:
            ops.append(('load', rng.randint(1, nk)))
        elif r < 0.58:
            ops.append(('can_load', rng.randint(1, nk)))
        elif r < 0.66:
            ops.append(('remove', rng.randint(1, nk)))
        elif r < 0.71:
            ops.append(('remove_many', [rng.randint(1, nk) for _ in range(rng.randint(0, 3))]))
        elif r < 0.79:
            ops.append(('list',))
        elif r < 0.84:
            ops.append(('cleanup', sorted(rng.sample(range(1, nk + 1), rng.randint(0, nk)))))
        elif r < 0.92:
            if pack and r >= 0.89:
                ops.append(('pack_crash', rng.choice([0, 0, 1, 2])))
            else:
                ops.append(('pack',) if pack else ('dump', rng.randint(1, nk), U.pick(rng)))
        else:
            ops.append(('reopen',) if reopen else ('load', rng.randint(1, nk)))
    return ops


SESSION_KINDS = ('dump', 'remove', 'remove_many', 'cleanup', 'none', 'pack', 'pack_crash')


def session_mutation(rng, U, kind, live=None):
    nk = len(KEYS)
    if kind == 'dump':
        return ('dump', rng.randint(1, nk), U.pick(rng))
    if kind == 'remove':
        return ('remove', rng.choice(sorted(live)) if live and rng.random() < 0.8 else rng.randint(1, nk))
    if kind == 'remove_many':
        return ('remove_many', [rng.randint(1, nk) for _ in range(rng.randint(1, 3))])
    if kind == 'cleanup':
        return ('cleanup', sorted(rng.sample(range(1, nk + 1), rng.randint(0, nk - 1))))
    if kind == 'pack':
        return ('pack',)
    if kind == 'pack_crash':
        return ('pack_crash', rng.choice([0, 0, 1, 2]))
    raise ValueError(kind)


def gen_session_ops(rng, U, pack):
    """A history made of SESSIONS (the operations between two close+reopen): after a first session that fills
    the store, every session issues exactly ONE kind of state-changing operation (only dumps, only remove, only
    remove_many, only cleanup, only pack, a killed pack, or nothing at all), once or twice, possibly between
    observations; the next session starts by observing everything.  What a store object persists when it is
    closed must not depend on which operation changed it."""
    nk = len(KEYS)
    kinds = [k for k in SESSION_KINDS if pack or not k.startswith('pack')]
    ops = []
    for k in rng.sample(range(1, nk + 1), rng.randint(2, nk)):
        ops.append(('dump', k, U.pick(rng)))
    for _ in range(rng.randint(1, 3)):
        ops.append(('reopen',))
        kind = rng.choice(kinds)
        for _ in range(0 if kind == 'none' else rng.choice([1, 1, 2])):
            if rng.random() < 0.3:
                ops.append(rng.choice([('list',), ('load', rng.randint(1, nk)), ('can_load', rng.randint(1, nk))]))
            ops.append(session_mutation(rng, U, kind, live=range(1, nk + 1)))
        ops.append(('reopen',))
        ops.append(('list',))
        for k in rng.sample(range(1, nk + 1), rng.randint(2, nk)):
            ops.append((rng.choice(['load', 'can_load']), k))
    return ops


def poslit(i):
    return '%d%%positive' % i


def op_lit(op):
    k = op[0]
    if k == 'dump':
        return '(SDump %s %s)' % (poslit(op[1]), zlit(op[2]))
    if k == 'load':
        return '(SLoad %s)' % poslit(op[1])
    if k == 'can_load':
        return '(SCanLoad %s)' % poslit(op[1])
    if k == 'remove':
        return '(SRemove %s)' % poslit(op[1])
    if k == 'remove_many':
        return '(SRemoveMany %s)' % listlit([poslit(i) for i in op[1]])
    if k == 'list':
        return 'SList'
    if k == 'cleanup':
        return '(SCleanup %s)' % listlit([poslit(i) for i in op[1]])
    if k == 'pack':
        return 'SPack'
    if k == 'reopen':
        return 'SReopen'
    if k == 'pack_crash':
        return '(SPackCrash %s)' % natlit(op[1])
    raise ValueError(k)


def obs_lit(o):
    k = o[0]
    if k == 'unit':
        return 'RUnit'
    if k == 'val':
        return '(RVal %s)' % zlit(o[1])
    if k == 'missing':
        return 'RMissing'
    if k == 'bool':
        return '(RBool %s)' % boollit(o[1])
    if k == 'keys':
        return '(RKeys %s)' % listlit([poslit(i) for i in o[1]])
    if k == 'count':
        return '(RCount %s)' % natlit(o[1])
    if k == 'err':
        return '(RErr %s)' % zlit(o[1])
    raise ValueError(k)


def shape_lit(sh):
    if sh is None:
        return 'None'
    return '(Some (%s, %s, %s))' % tuple(listlit([poslit(i) for i in part]) for part in sh)


def model_view(ops, obs):
    """What the model is told.  A dump whose encoding raised is no operation at all (exception: the key was in the
    pack - the packed copy was dropped first: an SRemove, or, when its file also existed, a re-dump of the same
    value); a dump in progress on another store object is an SDump at the point where it finishes."""
    mops, mobs = [], []
    begun = None
    for op, o in zip(ops, obs):
        k = op[0]
        if k == 'dump_begin':
            begun = (op[1], op[2])
        elif k == 'dump_end':
            mops.append(('dump',) + (begun or (1, 0)))
            mobs.append(o)
            begun = None
        elif k == 'dump_fail':
            if o[0] != 'raised':
                mops.append(('load', op[1]))          # not an admissible answer: the case fails in coqc as well
                mobs.append(('err', 9, 'dump of an unencodable value returned'))
            elif o[2] == 'dropped':
                mops.append(('remove', op[1]))
                mobs.append(('bool', True))
            elif o[2] == 'kept':
                mops.append(('dump', op[1], o[3]))
                mobs.append(('unit',))
        else:
            mops.append(op)
            mobs.append(o)
    return mops, mobs


def case_lit(cfg, U, ops, obs, shape):
    ops, obs = model_view(ops, obs)
    used = set(op[2] for op in ops if op[0] == 'dump')
    return '(%s, %s, %s, %s, %s)' % (cfg, U.table_lit(used), listlit([op_lit(o) for o in ops]),
                                     listlit([obs_lit(o) for o in obs]), shape_lit(shape))


def describe_ops(ops, U):
    out = []
    for op in ops:
        if op[0] in ('dump', 'dump_begin'):
            out.append([op[0], op[1], U.entries[op[2]]['name']])
        else:
            out.append([op[0]] + [list(x) if isinstance(x, (list, tuple)) else x for x in op[1:]])
    return out


def parse_ops(desc, U):
    ops = []
    for o in desc:
        if o[0] in ('dump', 'dump_begin'):
            ops.append((o[0], int(o[1]), U.by_name[o[2]]))
        elif o[0] == 'dump_fail':
            ops.append(('dump_fail', int(o[1]), o[2], o[3]))
        elif o[0] in ('remove_many', 'cleanup'):
            ops.append((o[0], [int(i) for i in o[1]]))
        elif o[0] in ('load', 'can_load', 'remove', 'pack_crash'):
            ops.append((o[0], int(o[1])))
        else:
            ops.append((o[0],))
    return ops


# regression corpus: minimised sequences that failed on the unrepaired tree (D8-D11) or exercise corner
# cases named in the property; run first in every tier.   (config name, compress for file+pack, ops)
CORPUS = [
    ('file', None, [['dump', 1, 'arr-object'], ['load', 1]]),                                   # D8 raw .npy
    ('file+compress_numpy', None, [['dump', 1, 'arr-object'], ['load', 1]]),                    # D8 encode path
    ('redis-fake', None, [['dump', 1, 'arr-object-2d'], ['load', 1]]),                          # D8 encode path
    ('file+pack', False, [['dump', 1, 'arr-int64'], ['pack'], ['load', 1], ['reopen'], ['load', 1]]),   # D9
    ('dict', None, [['dump', 1, '1'], ['remove', 1], ['remove', 1]]),                           # D10
    ('dict', None, [['dump', 1, '1'], ['dump', 2, '[]'], ['remove_many', [2, 1, 2, 3]], ['list']]),     # D10 via base.remove_many
    ('dict+file', None, [['dump', 1, '[]'], ['reopen'], ['load', 1], ['list']]),                # D11
    ('file+pack', False, [['dump', 1, '1'], ['pack'], ['dump', 1, '[]'], ['list'], ['pack'], ['reopen'], ['load', 1], ['list']]),
    ('file+pack', True, [['dump', 1, 'None'], ['dump', 2, 'arr-object'], ['pack'], ['load', 1], ['can_load', 1], ['reopen'],
                         ['load', 2], ['remove', 1], ['remove', 1], ['reopen'], ['list']]),
    ('file+pack', False, [['dump', 1, 'bytes-encoded-size-512'], ['dump', 2, 'bytes-encoded-size-513'], ['pack'], ['list'],
                          ['cleanup', [2]], ['reopen'], ['list'], ['load', 1]]),
    ('file+pack', False, [['dump', 1, '1'], ['dump', 2, '0'], ['pack'], ['remove_many', [1, 1, 3]], ['reopen'], ['list'],
                          ['cleanup', []], ['reopen'], ['list']]),
    ('redis-fake', None, [['dump', 1, 'None'], ['can_load', 1], ['load', 1], ['list'], ['remove', 1], ['remove', 1], ['load', 1]]),
    ('file', None, [['list'], ['can_load', 1], ['load', 1], ['remove', 1], ['cleanup', []], ['pack'], ['reopen'], ['list']]),
    # `jug pack` killed before / while unlinking: keys in the pack AND files, then every way of removing them
    ('file+pack', False, [['dump', 1, '1'], ['dump', 2, '[]'], ['pack_crash', 0], ['list'], ['load', 1], ['remove', 1], ['can_load', 1],
                          ['load', 1], ['reopen'], ['can_load', 1], ['list'], ['remove', 1]]),
    ('file+pack', False, [['dump', 1, '1'], ['dump', 2, '0'], ['dump', 3, 'None'], ['pack_crash', 1], ['remove_many', [2, 3, 2, 4]],
                          ['list'], ['can_load', 2], ['can_load', 3], ['reopen'], ['list'], ['load', 1]]),
    ('file+pack', True, [['dump', 1, 'arr-int64'], ['dump', 3, 'arr-object'], ['dump', 4, 'randbytes600'], ['pack_crash', 0],
                         ['cleanup', [3]], ['list'], ['can_load', 1], ['load', 3], ['reopen'], ['list'], ['can_load', 1]]),
    ('file+pack', False, [['dump', 1, '1'], ['dump', 2, '[]'], ['pack_crash', 0], ['dump', 1, "'a'"], ['load', 1], ['pack_crash', 5],
                          ['load', 1], ['list'], ['pack'], ['list'], ['remove', 2], ['reopen'], ['list']]),
    ('file+pack', False, [['dump', 1, 'arr-int64'], ['pack_crash', 0], ['pack_crash', 0], ['remove', 1], ['remove', 1], ['reopen'],
                          ['can_load', 1], ['list']]),
]


def config_by_name(name):
    for c in CONFIGS:
        if c[0] == name:
            return c
    raise KeyError(name)


# ------------------------------------------------------------------------------------------------
# sampled codec hypotheses, frames
# ------------------------------------------------------------------------------------------------
def frame_of_file_bytes(b):
    if b == b'':
        return 0
    if b.startswith(NPY_MAGIC):
        return 1
    try:
        p = zlib.decompress(b)[:1]
    except zlib.error:
        return 9
    return {b'P': 2, b'N': 3}.get(p, 8)


def sample_codec_hypotheses(ck, U):
    """The hypotheses of C06_*_framing_roundtrip, tested on the universe (a test of an assumption)."""
    bad = []
    n = 0
    for e in U.entries:
        v = e['value']
        name = e['name']
        pk = pickle.dumps(v, protocol=pickle.HIGHEST_PROTOCOL)
        if canon(pickle.loads(pk)) != e['canon']:
            bad.append('unpickle(pickle v) <> v for %s' % name)
        payloads = [pk]
        if e['isarr']:
            s = io.BytesIO()
            np.save(s, v)
            payloads.append(s.getvalue())
            if canon(np.load(io.BytesIO(s.getvalue()), allow_pickle=True)) != e['canon']:
                bad.append('np.load(np.save a) <> a for %s' % name)
            s2 = io.BytesIO()
            np.lib.format.write_array(s2, v)
            if canon(np.lib.format.read_array(io.BytesIO(s2.getvalue()), allow_pickle=True)) != e['canon']:
                bad.append('read_array(write_array a) <> a for %s' % name)
        for b in payloads:
            out = io.BytesIO()
            cs = encmod.compress_stream(out)
            cs.write(b'P')
            cs.write(b)
            cs.flush()
            z = out.getvalue()
            ds = encmod.decompress_stream(io.BytesIO(z))
            got = ds.read(1) + ds.read(len(b) + 16)
            if got != b'P' + b or zlib.decompress(z) != b'P' + b:
                bad.append('inflate(deflate b) <> b for a payload of %s' % name)
            try:
                np.lib.format.read_array(io.BytesIO(z), allow_pickle=True)
                bad.append('a zlib stream was accepted as .npy (%s)' % name)
            except ValueError:
                pass
            b64 = base64.b64encode(z)
            if base64.b64decode(b64) != z or not b64:
                bad.append('base64 round trip failed (%s)' % name)
            n += 1
    if encmod.decompress_stream(io.BytesIO(b'')).read(1) != b'':
        bad.append('inflate(empty) <> empty')
    try:
        np.lib.format.read_array(io.BytesIO(b''), allow_pickle=True)
        bad.append('the empty file was accepted as .npy')
    except ValueError:
        pass
    ck.obligations.append({'name': 'sampled assumption: codec hypotheses of the framing theorems on the value universe '
                                   '(%d values, %d payloads; a test, not a proof)' % (len(U.entries), n),
                           'kind': 'sampled-assumption', 'ok': not bad, 'msg': '; '.join(bad[:8])})
    for b in bad[:3]:
        ck.violation({'kind': 'assumption-failed', 'what': 'codec hypothesis does not hold on a sampled value', 'detail': b})
    return not bad


def frame_cases(ck, U):
    cases, meta = [], []
    for compress in (False, True):
        cfgname = 'file+compress_numpy' if compress else 'file'
        with jugrun.scratch_dir('jugv_c06f_') as scratch:
            st = file_store(scratch + '/jd', compress_numpy=compress)
            for i, e in enumerate(U.entries):
                k = KEYS[i % len(KEYS)]
                try:
                    st.dump(e['value'], k)
                    with open(storefaults.result_path(scratch + '/jd', k), 'rb') as f:
                        fb = f.read()
                    back = U.id_of(file_store(scratch + '/jd', compress_numpy=compress).load(k))
                except Exception as ex:
                    if storefaults.raised_in_harness(ex, core.VERIF):
                        raise
                    fb, back = None, -3
                if back != i:
                    # re-run as a two-step sequence on a fresh store: the standard, replayable report
                    ops = [('dump', 1, i), ('load', 1), ('reopen',), ('load', 1)]
                    obs, done, shape, cfg, fail = run_sequence('file', dict(compress=compress, pack=False), ops, U)
                    if fail is not None:
                        ck.violation({'config': cfgname, 'compress_numpy': compress, 'ops': describe_ops(done, U),
                                      'observed': [list(o) for o in obs], 'final_shape': shape, 'kind': 'impl-violation',
                                      'what': what_of('file', fail), 'first_failure': fail})
                if fb is None:
                    continue
                ff = frame_of_file_bytes(fb)
                sf = frame_of_file_bytes(encmod.encode(e['value']))
                # size prediction (it feeds the model's pack threshold): raw image for an exact ndarray written raw,
                # encode() otherwise; a raw file for a value that is not an exact ndarray has no prediction - the
                # frame comparison below reports it
                want = e['size_raw'] if ff == 1 else e['size_enc']
                if want is not None and len(fb) != want:
                    ck.violation({'kind': 'correspondence', 'what': 'harness size oracle differs from the file written',
                                  'value': e['name'], 'compress_numpy': compress, 'file_size': len(fb), 'predicted': want})
                cases.append('(%s, %s, %s, %s, %s)' % (boollit(compress), boollit(e['isnone']), boollit(e['isarr']),
                                                       natlit(ff), natlit(sf)))
                meta.append({'value': e['name'], 'compress_numpy': compress, 'file_frame': ff, 'stream_frame': sf})
                ck.count('frame:%s' % {0: 'empty', 1: 'raw-npy', 2: 'zlib-P', 3: 'zlib-N'}.get(ff, 'other'))
                if isinstance(e['value'], np.ndarray) and not e['isarr']:
                    ck.count('frame of an ndarray-subclass instance:%s' % {1: 'raw-npy', 2: 'zlib-P', 3: 'zlib-N'}.get(ff, 'other'))
    fails = ck.cases('frames', 'From JugV Require Import Model.Store.', 'bool * bool * bool * nat * nat',
                     'frame_case_ok', cases)
    for i in (fails or []):
        ck.violation({'kind': 'correspondence', 'what': 'on-disk frame of a value differs from Model.Store.file_frame/stream_frame',
                      'case': meta[i], 'coq_case': cases[i]})


# ------------------------------------------------------------------------------------------------
# the check
# ------------------------------------------------------------------------------------------------
def what_of(backend, fail):
    op = fail['op'][0]
    o = fail['observed']
    if o[0] == 'err':
        return '%s store: %s raises' % (backend, op)
    return '%s store: %s gives a wrong answer' % (backend, op)


def run(ck):
    ck.prove()
    ck.trusted_base = core.DEFAULT_TRUSTED_BASE + [
        'C06: the byte codecs (pickle, np.save/np.load, zlib through jug\'s stream adapters, base64) are hypotheses of the framing '
        'theorems; they are sampled on the value universe in every run',
        'C06: harness/fakeredis.py stands in for a redis server (command-atomic dictionary)',
        'C06: value identity = harness canon(): content + type/dtype/shape, floats by bit pattern, arrays layout-insensitive',
    ]
    ck.assumptions = [
        'unpickle(pickle v) = v; npload(npsave a) = a; inflate(deflate b) = b; inflate(empty) = empty; a zlib stream or an empty '
        'file is rejected by read_array with ValueError; base64 round-trips and maps non-empty to non-empty',
        'one store object at a time (plus close/reopen); keys are bytes as produced by Task.hash()',
        'dict_store without a backing file is never reopened (a new dict_store() is empty by construction)',
        'redis_store.load of a key that is not live returns None instead of raising (modelled as such; the property speaks of can_load)',
    ]
    U = universe(ck.tier == 'thorough')
    sample_codec_hypotheses(ck, U)
    frame_cases(ck, U)

    nseq = ck.n(400, 8000)
    jobs = []           # (config name, backend, opts, ops)
    for name, comp, desc in CORPUS:
        _, backend, opts = config_by_name(name)
        opts = dict(opts)
        if opts.get('compress', 0) is None:
            opts['compress'] = bool(comp)
        jobs.append((name, backend, opts, parse_ops(desc, U), True))
    # every value of the universe through every configuration once: dump, read back, pack, reopen, read back
    for vi in range(len(U.entries)):
        for name, backend, opts0 in CONFIGS:
            for comp in ((False, True) if opts0.get('compress', 0) is None else (None,)):
                opts = dict(opts0)
                if comp is not None:
                    opts['compress'] = comp
                ops = [('dump', 1, vi), ('load', 1), ('can_load', 1)]
                if opts.get('pack'):
                    # compress_numpy off: a complete pack; on: a pack killed before its first unlink
                    ops += [('pack_crash', 0) if comp else ('pack',), ('load', 1), ('can_load', 1), ('list',)]
                if name != 'dict':
                    ops += [('reopen',), ('load', 1)]
                ops += [('list',), [('remove', 1), ('remove_many', [1, 2]), ('cleanup', [2])][vi % 3], ('can_load', 1)]
                jobs.append((name, backend, opts, ops, True))
    # every reopenable configuration x every kind of single-mutation session, once (see gen_session_ops)
    ids3 = [U.by_name[n] for n in ('1', '[]', 'arr-int64')]
    for name, backend, opts0 in CONFIGS:
        if name == 'dict':
            continue
        for comp in ((False, True) if opts0.get('compress', 0) is None else (None,)):
            opts = dict(opts0)
            if comp is not None:
                opts['compress'] = comp
            for kind in SESSION_KINDS:
                if kind.startswith('pack') and not opts.get('pack'):
                    continue
                mut = {'dump': [('dump', 2, ids3[0]), ('dump', 4, ids3[1])], 'remove': [('remove', 2)],
                       'remove_many': [('remove_many', [3, 1])], 'cleanup': [('cleanup', [1, 4])], 'none': [],
                       'pack': [('pack',)], 'pack_crash': [('pack_crash', 1)]}[kind]
                ops = ([('dump', 1, ids3[0]), ('dump', 2, ids3[1]), ('dump', 3, ids3[2]), ('reopen',)] + mut
                       + [('reopen',), ('list',), ('can_load', 1), ('can_load', 2), ('load', 3), ('can_load', 4)])
                jobs.append((name, backend, opts, ops, True))
    # a dump that does not complete - the encoding raises (every configuration x exception x branch), or it is still
    # in progress on another store object (configurations that several workers can share) - leaves no trace
    for name, backend, opts0 in CONFIGS:
        for comp in ((False, True) if opts0.get('compress', 0) is None else (None,)):
            opts = dict(opts0)
            if comp is not None:
                opts['compress'] = comp
            for j, exc in enumerate(FAIL_EXC):
                for shape_ in ('list', 'oarr'):
                    ops = [('dump', 1, ids3[0]), ('dump', 2, ids3[2]), ('dump_fail', 1, exc, shape_), ('dump_fail', 3, exc, shape_),
                           ('list',), ('can_load', 1), ('load', 1), ('can_load', 3)]
                    if opts.get('pack'):
                        ops += [('pack',), ('list',), ('dump_fail', 4, exc, shape_), ('dump_fail', 2, exc, shape_), ('list',), ('can_load', 2)]
                    if name != 'dict':
                        ops += [('reopen',), ('list',), ('load', 1)]
                    ops += [('cleanup', [1, 3]), ('list',), ('can_load', 2)]
                    jobs.append((name, backend, opts, ops, True))
            if name in ('file', 'file+compress_numpy', 'redis-fake'):
                for key in (2, 1):
                    ops = [('dump', 1, ids3[0]), ('dump_begin', key, ids3[1]), ('list',), ('can_load', 2), ('load', 1), ('dump', 3, ids3[2]),
                           ('remove', 1), ('list',), ('reopen',), ('list',), ('can_load', key), ('dump_end',), ('list',), ('load', key),
                           ('reopen',), ('list',), ('load', key), ('cleanup', [key]), ('list',)]
                    jobs.append((name, backend, opts, ops, True))
    nfixed = len(jobs)
    for i in range(nseq):
        name, backend, opts = CONFIGS[i % len(CONFIGS)]
        opts = dict(opts)
        if opts.get('compress', 0) is None:
            opts['compress'] = bool((i // len(CONFIGS)) % 2)
        reopen = name != 'dict'
        if reopen and (i // len(CONFIGS)) % 3 == 2:
            ops = gen_session_ops(ck.rng, U, pack=bool(opts.get('pack')))
            ck.count('histories made of single-mutation sessions')
        else:
            ops = gen_ops(ck.rng, U, pack=bool(opts.get('pack')), reopen=reopen,
                          concurrent=name in ('file', 'file+compress_numpy', 'redis-fake'))
        jobs.append((name, backend, opts, ops, False))

    cases, meta = [], []
    for name, backend, opts, ops, from_corpus in jobs:
        obs, done, shape, cfg, fail = run_sequence(backend, opts, ops, U)
        rep = {'config': name, 'compress_numpy': opts.get('compress'), 'ops': describe_ops(done, U),
               'observed': [list(o) for o in obs], 'final_shape': shape}
        if fail is not None:
            ck.violation(dict(rep, kind='impl-violation', what=what_of(backend, fail), first_failure=fail))
        cases.append(case_lit(cfg, U, done, obs, shape))
        meta.append(rep)
        ck.count('config:' + name)
        for op, o in zip(done, obs):
            ck.count('op:' + op[0])
            if op[0] == 'load':
                ck.count('load:' + o[0])
            if op[0] == 'dump_fail' and o[0] == 'raised':
                ck.count('dump whose encoding raises %s: %s' % (op[2], {'nothing': 'nothing changed', 'dropped':
                         'the key was in the pack and lost its value (recorded observation)', 'kept': 'the key was in the pack and a file: file kept'}[o[2]]))
            if op[0] == 'dump':
                e = U.entries[op[2]]
                ck.count('value:' + ('None' if e['isnone'] else 'ndarray' if e['isarr'] else
                                     'ndarray-subclass' if isinstance(e['value'], np.ndarray) else 'other')
                         + (':small' if (e['small_raw'] if (e['isarr'] and not opts.get('compress', True)) else e['small_enc']) else ':large'))
        if name != 'dict':
            # sessions that are closed at both ends: which kinds of state-changing operation do they contain
            idx = [j for j, op in enumerate(done) if op[0] == 'reopen']
            for a_, b_ in zip(idx, idx[1:]):
                kinds = sorted(set(op[0] for op in done[a_ + 1:b_] if op[0] in ('dump', 'remove', 'remove_many', 'cleanup', 'pack', 'pack_crash')))
                ck.count('session between two reopens (%s):%s' % (
                    backend, 'no mutation' if not kinds else ('only ' + kinds[0]) if len(kinds) == 1 else 'mixed'))
        if shape is not None and shape[0]:
            ck.count('final:has-packed-keys')
        if backend == 'file' and any(op[0] == 'pack_crash' for op in done):
            ck.count('history with a killed pack')
            after = False
            for op in done:
                if op[0] == 'pack_crash':
                    after = True
                elif after and op[0] in ('remove', 'remove_many', 'cleanup', 'dump', 'pack'):
                    ck.count('op after a killed pack:' + op[0])
        first_dump = next((i for i, op in enumerate(done) if op[0] == 'dump'), None)
        ck.distinct((name, opts.get('compress'), tuple(map(repr, done))), first_dump is not None and first_dump < len(done) - 1)
    for idx in (nfixed, nfixed + 2, (nfixed + len(jobs)) // 2, len(jobs) - 1):
        if idx < len(meta):
            ck.sample({'kind': 'sequence', **meta[idx]})

    fails = ck.cases('store_ops', 'From JugV Require Import Model.Store.',
                     'sconfig * list (valid * (bool * bool * bool)) * list sop * list sres * option (list key * list key * list key)',
                     'case_ok', cases)
    for i in (fails or []):
        ck.violation(dict(meta[i], kind='correspondence', what='store operations: model and real store disagree (%s)' % meta[i]['config'],
                          coq_case=cases[i][:4000]))


def replay(obj):
    """Re-execute a recorded C06 sequence against the stores of /repo and the dict oracle."""
    if 'ops' not in obj or 'config' not in obj:
        print('replay: not a sequence replay:', {k: obj[k] for k in obj if k in ('kind', 'what', 'detail', 'no_longer_checks', 'case')})
        return 2
    U = universe(obj.get('tier') == 'thorough' or any(o[0] == 'dump' and o[2] not in universe().by_name for o in obj['ops']))
    name, backend, opts = config_by_name(obj['config'])
    opts = dict(opts)
    if 'compress' in opts:
        opts['compress'] = bool(obj.get('compress_numpy'))
    ops = parse_ops(obj['ops'], U)
    obs, done, shape, cfg, fail = run_sequence(backend, opts, ops, U)
    for op, o in zip(describe_ops(done, U), obs):
        print('  %-60s -> %s' % (op, list(o)))
    print('final shape (packed, raw files, encoded files):', shape)
    if fail is not None:
        print('expected', fail['expected'], 'observed', fail['observed'], 'at step', fail['step'], fail['op'])
        return 1
    print('observed = expected (dict oracle) on every step')
    return 0
