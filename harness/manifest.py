"""Generates MANIFEST.json from the per-property metadata below (python -m harness.manifest)."""
import json
import os

from . import core

BASELINE = ("cd /repo && /venv/bin/python -m pytest -ra -q -p no:cacheprovider --timeout=900 "
            "--continue-on-collection-errors")

# property -> (technique, level text, level note, design ref)
CLAIMED = {}
NOT_APPLICABLE = {}


def claim(prop, technique, text, note, ref):
    CLAIMED[prop] = (technique, text, note, ref)


claim('C17', 'Coq proof (induction on fuel/lists, Z arithmetic with lia/nia) + differential evaluation of the model in coqc',
      'Theorems for all list lengths, map_step >= 1, reduce_step >= 2, associative reducers, all integer indices and all slices '
      '(Props/C17.v); the block/tree/slice model is tied to jug.mapreduce by evaluating it on the inputs the real code ran on.',
      'Kernel + vm_compute; CPython slice.indices/range semantics formalised by hand (sampled against CPython every run); '
      'model hand-written, tied by differential cases; task functions deterministic; reducer associative.',
      'DESIGN.md sec. 3 C17')

ALL = ['C%02d' % i for i in range(1, 21)]


def build():
    checks = []
    for p in ALL:
        if p not in CLAIMED:
            continue
        tech, text, note, ref = CLAIMED[p]
        checks.append({
            'property_id': p,
            'quick_cmd': 'bin/check %s --tier quick' % p,
            'thorough_cmd': 'bin/check %s --tier thorough' % p,
            'evidence_file': '/verif/evidence/%s.json' % p,
            'replay_cmd_template': 'bin/check %s --replay {path}' % p,
            'engine': 'coq+harness',
            'level_claimed': {'category': 'proof', 'text': text, 'design_ref': ref},
            'level_note': note,
            'technique': tech,
        })
    na = [{'property_id': p, 'reason': NOT_APPLICABLE.get(p, 'check not built yet (work in progress; DESIGN.md sec. 3 describes the planned proof)')}
          for p in ALL if p not in CLAIMED]
    man = {
        'version': 1,
        'setup_cmd': 'bin/setup',
        'hooks': {
            'guard': 'JUG_VERIF',
            'enable': 'no in-tree hooks: observation is by proxy stores, os-level interposition and wrapped task functions; '
                      'bin/check exports JUG_VERIF=1 for uniformity',
            'baseline_off_cmd': BASELINE,
            'source_commits': [],
            'add_only': True,
        },
        'engines': [{
            'name': 'coq+harness',
            'path': '/verif/coq (Coq 8.16 development), /verif/harness (Python drivers, translator, case writer)',
            'serves_properties': [c['property_id'] for c in checks],
            'kind_free_text': 'machine-checked Coq proofs about hand-written Gallina models; model tied to /repo by '
                              'differential evaluation / trace validation inside coqc (vm_compute) and by an ast translator for constants',
        }],
        'checks': checks,
        'not_applicable': na,
        'notes': 'See DESIGN.md. known_findings.json lists recorded findings and fixed defects.',
    }
    return man


if __name__ == '__main__':
    man = build()
    with open(os.path.join(core.VERIF, 'MANIFEST.json'), 'w') as f:
        json.dump(man, f, indent=1)
    print('claimed:', [c['property_id'] for c in man['checks']])
