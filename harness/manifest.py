"""Generates MANIFEST.json from the per-property metadata below (python -m harness.manifest)."""
import json
import os

from . import core

BASELINE = ("cd /repo && /venv/bin/python -m pytest -ra -q -p no:cacheprovider --timeout=900 "
            "--continue-on-collection-errors")

# property -> (technique, level text, level note, design ref)
CLAIMED = {}
NOT_APPLICABLE = {}


def claim(prop, technique, text, note, ref):
    CLAIMED[prop] = (technique, text, note, ref)


claim('C17', 'Coq proof (induction on fuel/lists, Z arithmetic with lia/nia) + differential evaluation of the model in coqc',
      'Theorems for all list lengths, map_step >= 1, reduce_step >= 2, associative reducers, all integer indices and all slices '
      '(Props/C17.v); the block/tree/slice model is tied to jug.mapreduce by evaluating it on the inputs the real code ran on.',
      'Kernel + vm_compute; CPython slice.indices/range semantics formalised by hand (sampled against CPython every run); '
      'model hand-written, tied by differential cases; task functions deterministic; reducer associative.',
      'DESIGN.md sec. 3 C17')

claim('C07', 'Coq proof (nested induction over the value universe, uniqueness of sorted permutations) + recorded sha1 chunk stream == model stream + cross-process digest comparison',
      'Theorem: for ANY hash function and digest order the chunk sequence fed to the hash is invariant under permuting set/frozenset/dict '
      'iteration order at any depth and under array layout (Props/C07.v); the executable stream is proved equal to that sequence when children '
      'are listed in digest order.  Tie: every chunk the real code feeds to sha1 is recorded in separate interpreters with different '
      'PYTHONHASHSEED and compared with the model stream in coqc.',
      'Kernel + vm_compute; SHA-1 and pickle outside the model (digests symbolic; dict keys with distinct digests is a premise); '
      'harness: value generator/realiser, recorder, interning.',
      'DESIGN.md sec. 3 C07')
claim('C08', 'Coq refutation witness (vm_compute + inversion) + in-Coq classification of every observed collision + exhaustive bucketed pair search',
      'The injectivity statement is FALSE of the faithful model and of the code (Theorem C08_refuted; known finding D1, not repairable '
      'without changing every identifier).  The check enumerates all invocations up to a node bound plus the pairs the property names, and '
      'accepts a collision only if Coq evaluates: model stream equal AND delimited stream different; anything else is a violation.',
      'Kernel + vm_compute; A1 (SHA-1 collision-free) for the search; the general injectivity of the delimited stream is not yet proved '
      '(partial: classification is per observed pair).',
      'DESIGN.md sec. 3 C08')

ALL = ['C%02d' % i for i in range(1, 21)]


def build():
    checks = []
    for p in ALL:
        if p not in CLAIMED:
            continue
        tech, text, note, ref = CLAIMED[p]
        checks.append({
            'property_id': p,
            'quick_cmd': 'bin/check %s --tier quick' % p,
            'thorough_cmd': 'bin/check %s --tier thorough' % p,
            'evidence_file': '/verif/evidence/%s.json' % p,
            'replay_cmd_template': 'bin/check %s --replay {path}' % p,
            'engine': 'coq+harness',
            'level_claimed': {'category': 'proof', 'text': text, 'design_ref': ref},
            'level_note': note,
            'technique': tech,
        })
    na = [{'property_id': p, 'reason': NOT_APPLICABLE.get(p, 'check not built yet (work in progress; DESIGN.md sec. 3 describes the planned proof)')}
          for p in ALL if p not in CLAIMED]
    man = {
        'version': 1,
        'setup_cmd': 'bin/setup',
        'hooks': {
            'guard': 'JUG_VERIF',
            'enable': 'no in-tree hooks: observation is by proxy stores, os-level interposition and wrapped task functions; '
                      'bin/check exports JUG_VERIF=1 for uniformity',
            'baseline_off_cmd': BASELINE,
            'source_commits': [],
            'add_only': True,
        },
        'engines': [{
            'name': 'coq+harness',
            'path': '/verif/coq (Coq 8.16 development), /verif/harness (Python drivers, translator, case writer)',
            'serves_properties': [c['property_id'] for c in checks],
            'kind_free_text': 'machine-checked Coq proofs about hand-written Gallina models; model tied to /repo by '
                              'differential evaluation / trace validation inside coqc (vm_compute) and by an ast translator for constants',
        }],
        'checks': checks,
        'not_applicable': na,
        'notes': 'See DESIGN.md. known_findings.json lists recorded findings and fixed defects.',
    }
    return man


if __name__ == '__main__':
    man = build()
    with open(os.path.join(core.VERIF, 'MANIFEST.json'), 'w') as f:
        json.dump(man, f, indent=1)
    print('claimed:', [c['property_id'] for c in man['checks']])
