"""Generates MANIFEST.json from the per-property metadata below (python -m harness.manifest)."""
import json
import os

from . import core

BASELINE = ("cd /repo && /venv/bin/python -m pytest -ra -q -p no:cacheprovider --timeout=900 "
            "--continue-on-collection-errors")

# property -> (technique, level text, level note, design ref)
CLAIMED = {}
NOT_APPLICABLE = {}


def claim(prop, technique, text, note, ref):
    CLAIMED[prop] = (technique, text, note, ref)


claim('C17', 'Coq proof (induction on fuel/lists, Z arithmetic with lia/nia) + differential evaluation of the model in coqc',
      'Theorems for all list lengths, map_step >= 1, reduce_step >= 2, associative reducers, all integer indices and all slices '
      '(Props/C17.v); the block/tree/slice model is tied to jug.mapreduce by evaluating it on the inputs the real code ran on.  Search beyond integers: plain and TaskGenerator-wrapped functions at every map step incl. 1 (D26); ==-equal values of different types with type-sensitive mappers; map over mapped sequences with differing steps followed by every index / slices / a third map; same-named mappers from two generated modules in one store; None / falsy mapped values and reducer results with associative reducers for which they are not neutral (first / last also tied to the model with the selecting reducer).',
      'Kernel + vm_compute; CPython slice.indices/range semantics formalised by hand (sampled against CPython every run); '
      'model hand-written, tied by differential cases; task functions deterministic; reducer associative.',
      'DESIGN.md sec. 3 C17')

claim('C07', 'Coq proof (nested induction over the value universe, uniqueness of sorted permutations) + recorded sha1 chunk stream == model stream + cross-process digest comparison + identifiers of generated jugfiles / a generated project re-loaded through its whole life in fresh interpreters with varied environments',
      'Theorem: for ANY hash function and digest order the chunk sequence fed to the hash is invariant under permuting set/frozenset/dict '
      'iteration order at any depth and under array layout (Props/C07.v); the executable stream is proved equal to that sequence when children '
      'are listed in digest order.  Tie: every chunk the real code feeds to sha1 is recorded in separate interpreters with different '
      'PYTHONHASHSEED and compared with the model stream in coqc.  Loading: generated jugfiles are loaded with the real jug.init ten ways per interpreter (relative / absolute / ./ / redundant components / other working directories) and a generated project (CompoundTask(Generator), tasklets, timed_path and cached_glob on relative paths, CustomHash / NoHash / NoLoad, TaskGenerator mappers in map / mapreduce / currymap, identity) is snapshotted before anything ran, with only the tasks inside the compounds stored, after everything ran, after cleanup, and after the directory was renamed / copied / reached through a symlink, by interpreters differing in PYTHONHASHSEED, environment variables, umask, argv, pid: Task.hash(), __jug_hash__() and hash_one() of every jugfile object must agree with each other and with the first snapshot.  Identifier-independence of what was hashed before in the interpreter is checked against a pristine forked child; known finding D24 (subclass instances pickled whole) is tolerated only under its chunk-tree classifier; generations: long-lived interpreters that load, free and re-load jugfile code (same module name, task generators coming and going, barriers) must compute the identifiers a fresh interpreter computes for the same generation.',
      'Kernel + vm_compute; SHA-1 and pickle outside the model (digests symbolic; dict keys with distinct digests is a premise); '
      'harness: value generator/realiser, recorder, interning; the real hostname and the clock cannot be varied by the check (only $HOSTNAME and the moment of the run).',
      'DESIGN.md sec. 3 C07')
claim('C08', 'Coq refutation witness + Coq proof that the length-delimited chunk stream is an injective prefix code (nested induction over the value universe) and that the real stream is its erasure + in-Coq classification of every observed collision + exhaustive bucketed pair search over structures and families of confusable invocations',
      'The injectivity statement is FALSE of the faithful model and of the code (Theorem C08_refuted; known finding D1, not repairable '
      'without changing every identifier).  Proved around it (Props/C08.v), on the task-invocation universe wfb (no CustomHash/NoHash, '
      'pickles distinct from the container markers, array branch agrees with the dtype, __jug_hash__ objects feed labelled fields): the '
      'stream with one length chunk after each container marker is a prefix code and injective up to array layout '
      '(C08_dstream_prefix_free, C08_dstream_injective; converse C08_equiv_same_stream); the stream the code really feeds is that code '
      'with the length chunks erased (C08_stream_erases); hence two invocations can share an identifier ONLY if they disagree on '
      'container extents (C08_partial; C08_partial_identifiers for the digests with items.sort(), C08_delimited_identifier_injective for '
      'the delimited digests, under A1/A2).  The check hashes all invocations up to a node bound, families of confusable invocations '
      '(one buffer through ~all plain / structured / sub-array / byte-order dtypes and shapes, tasklet chains to depth 3 incl. '
      'return_tuple / iteratetask and their consumers, all six container kinds, NoHash / CustomHash wrappers - exempt by design) and '
      'the pairs the property names, buckets them by identifier, and accepts a collision of two different invocations only if Coq '
      'evaluates: model stream equal AND delimited stream different; anything else is a violation with the colliding pair as replay; family "same names in two modules": functions, TaskGenerators, mappers / reducers of map / currymap / mapreduce / reduce, CompoundTask builders and Tasklet functions with equal __qualname__ in two generated modules have pairwise different identifiers (model: stripped mapper = hash_one(generator), CompoundTask = Task(builder, args)).',
      'Kernel + vm_compute; A1 (SHA-1 injective) and A2 (concatenated chunk bytes uniquely decodable) are explicit premises of the '
      'digest-level theorems and shown jointly satisfiable (C08_nonvacuous); the token-level theorems need neither.  The theorems speak of '
      'values whose set/dict children are listed in digest order (how the check lists them; the sort-inclusive delimited sequence is not '
      'modelled); membership of every realised value in wfb is sampled every run.  Full injectivity stays refuted (D1).',
      'DESIGN.md sec. 3 C08')

claim('C06', 'Coq refinement proof (file/dict/redis bookkeeping refine a finite map for all operation sequences; framing round-trip under codec hypotheses) + differential evaluation of the model in coqc on operation sequences run on the real stores',
      'Theorems (Props/C06.v): for EVERY operation sequence (dump/load/can_load/remove/remove_many/list/cleanup/pack/reopen) the file store '
      '(with/without compress_numpy, packed or not, also after a `jug pack` killed half-way: keys both packed and loose), the dict store (with/without backing file) and the redis store return what a finite map '
      'returns and load = last write; list is exact and duplicate-free; remove is truthful; pack and reopen are the identity; the P/N/empty/raw-npy '
      'framing decodes to what was encoded given the byte codecs.  Tie: random operation sequences on 6 real store configurations, every '
      'observed result and the final packed/raw/encoded split compared with the model in coqc; dumps that FAIL (encoding raises) and dumps IN PROGRESS on another store object must not create keys (list / can_load / pack / cleanup answers compared while the temp file exists); falsy values (None, 0, \'\', b\'\', [], {}, 0-d zero arrays, NumPy zero scalars) with can_load / list compared right after pack and killed pack; payloads over 16 MiB.',
      'Kernel + vm_compute; pickle/np.save/zlib/base64 are hypotheses of the framing theorems (sampled every run); fake redis server; '
      'value identity = content+type/dtype/shape as canonicalised by the harness; one store object at a time except for the in-progress dumps (a second object blocked inside its dump).',
      'DESIGN.md sec. 3 C06')
claim('C10', 'Coq proof (set equations of cleanup per mode and backend for ANY store content) + differential evaluation of the model in coqc against the real `jug cleanup` command',
      'Theorems (Props/C10.v): for every store content (active and foreign results, packed/unpacked/both, held and failed locks, temp files) '
      'and every active set: default and --keep-locks leave exactly results /\\ active; --keep-locks leaves all locks; --locks-only removes all '
      'locks and nothing else; --failed-only removes exactly the failed locks; on file (packed or not), dict and redis; link to the execution protocol (Proofs/ExecCleanupFacts.v): on any store representing a protocol state `--locks-only` / `--failed-only` produce a store representing the state after the protocol\'s ERemoveLocks / EReleaseFailed events (recovery of C13, retry of C11), and every mode given the jugfile\'s tasks leaves exactly the results the workers stored.  Tie: generated '
      'store contents x 4 modes x 4 backends through the real CleanupCommand; list()/listlocks()/failed marks compared with the model; jugfiles that create tasks indirectly (CachedFunction, mapreduce.map, iteratetask, barrier) with the active set = what the generator knows the jugfile defines (a difference to task.alltasks is a violation); before the command a random subset of lock files (failed and held) of the file stores is read (atime moved, mtime untouched) and which locks are failed is taken from the mtime marker on disk, not from is_failed() - both must agree; another process storing / packing / removing between the command\'s open and its cleanup (redis: full equations + model; file stores: no needed result lost, nothing resurrected - the stale in-memory pack of file_store is recorded in DESIGN.md Appendix C).',
      'Kernel + vm_compute; model of os.walk filtering/pack pruning hand-written and tied by differential cases; fake redis; '
      'no concurrent modification during the command.',
      'DESIGN.md sec. 3 C10')
claim('C19', 'Coq proof (invariants of the keep-alive state machine over all event sequences, parametric in the timing constants) instantiated on constants the translator extracts from the source + differential evaluation of the model against the real monitor loop on a simulated clock',
      'Theorems (Props/C19.v): if rounds*(period+drift)+startup < expiry a live holder\'s lock is never reported failed, for every task duration; a '
      'dead holder\'s lock is no longer refreshed after one round and is reported failed from death+round+expiry on, after which cleanup '
      '--failed-only removes it and get() succeeds; the monitor ends on release/fail, on holder death and on lock removal; the helper is launched on '
      'the lock file for every holder cwd and relative or absolute jugdir; fail() = stop-then-mark is sticky against a refreshing helper.  The side '
      'condition is proved for the constants regenerated from file_keepalive_monitor.py / file_keepalive_based_lock.py on every run.',
      'Kernel + vm_compute; translator harness/translate_c19.py (fail-closed ast extractor); integer-second shared clock, no PID reuse, '
      'bounded per-round drift and start-up delay are explicit premises; real time/process liveness is outside the model.',
      'DESIGN.md sec. 3 C19')
claim('C20', 'Coq proof (layered lookup = cmdline ?? coerce(config) ?? default for every option table meeting a decidable side condition) + side condition decided on the option table the translator regenerates from the source + differential evaluation against jug.options.parse + search on the real `jug <subcommand>` entry point (the string every command hands to backends.select is the same)',
      'Theorems (Props/C20.v): for every option table whose options are all None when absent from the command line, every command line, '
      'configuration file and default layer: lookup k = cmdline k ?? coerce(default k)(config k) ?? default k; the side condition holds for the '
      'table generated from options.py and subcommands/*.py (finite, forallb by vm_compute); the jugfile is argv[0] followed by the extra '
      'arguments; the jugdir expansion depends on (jugfile, date) only, for every subcommand.  Tie: real options.parse on generated command '
      'lines x configuration files for every subcommand; and options.parse(args) with NO options file (what the `jug` command does), run in fresh interpreters (32 quick / 300 thorough; the first case of each is the first parse of its process) whose HOME is a scratch directory holding every subset (systematic) and random subsets of the candidate rc files ~/.config/jug/jugrc, ~/.config/jugrc, ~/.jug/configrc (absent / file / directory = exists but unopenable) with overlapping and disjoint settings; every resolved attribute, the expanded jugdir, sys.argv and the error class are compared with Model.Options.run_home table c rc_candidates home (candidate list generated from the source by AST, proved equal to the documented list) and with the Python restatement in which the configuration file is the FIRST existing candidate only (C20_lower_priority_rc_file_never_matters, C20_lower_priority_rc_file_ignored, C20_discovered_file_is_first_existing).',
      'Kernel + vm_compute; translator harness/translate_c20.py (fail-closed ast extractor of add_argument/parse_defaults); argparse itself and '
      'option-name abbreviations are outside the model; printable-ASCII strings; "configuration file" means the first existing candidate only (docs/source/configuration.rst); an existing but unopenable candidate means no configuration at all (the code\'s choice; tied to the model only); a source whose rc search is not the recognised first-existing loop fails the translator, the search for a failing input still runs with the leniently extracted candidate list; os.path.expanduser/exists/open and configparser syntax are outside the model.',
      'DESIGN.md sec. 3 C20')

claim('C04', 'Coq proof (per-primitive refinement of every lock program to an atomic lock specification, invariant over all interleavings, '
      'trace lemmas by induction) instantiated on the lock markers the translator extracts from the source + trace validation of the model '
      'against the real lock classes under a lock-step scheduler + linearizability search on the observed histories + reopen of every persistent backend between any two primitives + connection faults on the redis backend (every command of every client lost before / after the server applied it)',
      'Theorems (Props/C04.v), for any number of clients, all operation histories, all well-formed schedules at primitive granularity, on the '
      'file, keep-alive file, redis (SETNX) and dict lock programs: exclusion; exactly one winner of a race for a free lock, the first get to '
      'return; a failed lock answers get False / is_locked True / is_failed True until a release begins and the store holds the failed marker at '
      'every primitive boundary; other names untouched and each name an independent lock; re-acquirable after release; every operation '
      'linearizable at its last primitive; time passing between any two primitives changes nothing (C04_time_does_not_unlock); on the keep-alive backend '
      'fail() = stop the helper, then mark, is sticky against a concurrently refreshing helper (the swapped order is refuted).  The ORIGINAL redis GETSET '
      'program is refuted in Coq (D14, fixed in /repo 949240e).  Tie: every '
      'primitive (os.path.exists/os.open/unlink/utime/stat, fake-redis commands, dict_lock methods), response and returned value of the real '
      'locks under exhaustive (curated 2-4 client plans) and random schedules equals the model\'s, evaluated in coqc; a reopen of the store (dict_store close() + new object on its backing file, new file / keep-alive store object, new redis connections) is a step of the model that leaves every lock as it is (C04_reopen_keeps_lock_state) and of the real histories; under lost redis connections an operation whose command is lost raises and gives no answer - checked against the model as the fault-free run of the derived history (not applied: operation left out; applied write with lost reply: operation kept, answer not compared - tie_check_lost), incl. final store and all later answers; direct oracle: never two get() that returned True without release in between, failed markers never lost, a leaked lock only after a get() that raised.',
      'Kernel + vm_compute; translators harness/translate_c04.py, translate_c19.py (fail-closed); connection faults are not a step of the Coq model: the reduction "lost before = not sent, lost after = sent and reply ignored" relies on the command-atomic fake server and is part of the harness; no fault injection on the file/dict backends; atomicity of O_EXCL create/unlink/utime/stat, of '
      'redis commands and of dict_lock methods, well-formed use of the API (release/fail by the holder or on a failed lock) and a frozen clock '
      '>= 1801 s are explicit premises; harness: lock-step scheduler, os-level interposer, fake redis server.',
      'DESIGN.md sec. 3 C04')
claim('C05', 'Coq proof (invariant of a file-system model with volatile/durable views over ALL accepted traces, crash points, crash relations and reader interleavings) + trace validation of real file_store runs in coqc + fault enumeration on the real code + a second process acting while a dump is in flight',
      'Theorems (Props/C05.v): for every trace accepted by write_protocol, at every crash point, after a process kill and in every '
      'post-power-loss image each final name is absent or a complete encoding; a reader reads what it opened; the content is the old one '
      'or the renamed temporary; other results are bit-identical; results vanish only by an entitled unlink; a result moved into the pack '
      'stays available in every view; redis dump is one SET.  Tie: os-level traces of real dump/re-dump/pack/remove/cleanup (pickles 0 B-5 MB, '
      'raw and compressed arrays) must be accepted, reproduce the real listing, and every update_pack unlink must be covered by the durable pack; '
      'every kill / power-loss image and every reader instant of those runs is checked with a fresh file_store, which must also be able to WRITE again '
      '(re-dump, pack, remove: residue never blocks a later write); redis values whose encoding crosses 4/32 MiB with a reader before every command; exceptions travelling through dump() mid-write (transient pickling failures, OSError / ValueError / KeyboardInterrupt on the raw .npy and the pickle branch: D25); tempfiles/ on another filesystem (every rename out of it fails with EXDEV: the operation raises, no final name is opened / truncated / written); an fsync of a file failing once with EIO under Linux semantics (data written before the failure is never durable, whatever a later fsync returns).  Found and fixed: jug pack could '
      'lose results on power loss (6a45d89).',
      'Kernel + vm_compute; the Fs crash model is the hypothesis (fsync of a directory makes it and its entries durable; un-fsynced data is garbage; '
      'later directory operations independently lost); fin/complete/unlink entitlement/covers decided by the harness (strict decoder, API arguments); '
      'interposer cross-checked against strace, crash simulator against the model; fake redis; dump of a packed key drops the old value first (observation).',
      'DESIGN.md sec. 3 C05')

claim('C09', 'Coq proof (memoised DFS = reverse reachability by induction on fuel/position with a sound-memo invariant; shell work-list by a termination measure; store effect, closedness, following execute) + differential evaluation of the model in coqc against the real `jug invalidate`, shell invalidate() and `jug execute` + independent syntactic-closure / value oracle',
      'Theorems (Props/C09.v) for every well-formed task graph (acyclic, in ANY creation order - a dependency may be created after its consumer; duplicate calls allowed), every target matcher and every store state: the command hands to '
      'remove_many exactly {t | t matches or depends transitively on a match}; the shell\'s invalidate(s) visits exactly s and its dependents (any graph); '
      'command and shell remove the same set for the same target; exactly those keys lose their result, all others are untouched; dependency-closedness '
      'is preserved; a following execute runs exactly the tasks without result, each once - also with the N-worker execution protocol of C01/C02 in place of the sequential execute: every quiet run of any number of workers calls no function of a task that kept its result and each invalidated function exactly once if it gets stored again (Proofs/ExecInvalidateFacts.v).  Tie: generated jugfiles (edges via args, kwargs, containers, '
      'tasklets, task-valued indices, mapped sequences/slices/elements, CustomHash, identity) x bare/dotted/regex targets x full/partial/non-closed/packed/'
      'empty stores x file/packed/dict/fake-redis: the set of keys handed to remove_many/remove by the command and by every shell invalidate() (the exact-list theorems stay; the tie is on the set), keys after, printed table, '
      'keys dumped by the next execute; oracle re-evaluates the program after the target\'s functions changed; incl. jugfiles that select their backend themselves with jug.set_jugdir (the --jugdir argument names another location; run through jug.jug.main; effects observed on the store the tasks use) and tasks whose result is None.',
      'Kernel + vm_compute; graph = what Task.dependencies() yields (link to syntactic dependencies: C03/C16, checked dynamically here); matcher is an oracle; '
      'per-backend remove_many refinement from C06; fake redis; no concurrent modification; wf_dag checked per observed graph.',
      'DESIGN.md sec. 3 C09')
claim('C15', 'Coq proof (classification = specification by case analysis; counters partition the tasks; cached = uncached by induction over the history with a cache-soundness invariant; check loop) + differential evaluation of the model in coqc against the real `jug status`, `jug status --cache` (sqlite file on disk) and `jug check` + independent Python oracle of the specification',
      'Theorems (Props/C15.v) for every task graph, store state (dependency-closed or not) and lock state: a task is counted complete iff stored, else waiting iff a direct '
      'dependency is not stored, else failed/active/ready by its lock; exactly one column; cells, per-name sums and the Total row add up to the tasks; for every '
      'history in which results only grow (locks arbitrary) every cached call prints what the uncached command prints (sticky finished/ready entries stay true); '
      'check = 0 iff every task is complete, on every store state; in every reachable state of the N-worker execution protocol (Model/Exec.v) the column says what workers can do: complete - never started again, waiting - a dependency is missing and no worker can start it, failed - nobody can acquire the lock, active - a worker is between get and release on it (or died there), ready - any idle worker can lock, re-check and call the function right now (Proofs/ExecStatusFacts.v); the cached mode accepts exactly the jugfiles whose dependencies are created before their consumers (its documented precondition) and refuses the others.  Tie: generated jugfiles x 2-4-state monotone histories x held/failed locks x file/packed/dict/'
      'fake-redis: every table cell, Total row, exit status, and the full sqlite cache content after every call; incl. stored results that are None / falsy, states packed by the real `jug pack` and by update_pack(), the file_keepalive backend, and jugfiles that select their store with jug.set_jugdir: plain status and check on the store the tasks use; the cached call is compared with the model reading the --jugdir store (known finding D27, classifier cache_ignores_jugfile_store, C15_cached_refuted_jugfile_store / C15_cached_same_store).',
      'Kernel + vm_compute; graph = what Task.dependencies() yields; wf_dag checked per observed graph; results not removed and jugfile unchanged between cached calls '
      '(hypotheses of the property); fake redis; sqlite3 and the table/cache parsers trusted; no concurrent modification during a command.',
      'DESIGN.md sec. 3 C15')
claim('C16', 'Coq proof (nested induction over the argument universe; frame / blame / stability of resolution; slice arithmetic via C17) + differential evaluation of the model in coqc on exhaustive small and random argument structures + real jug execute/invalidate runs',
      'Theorems for ALL argument structures and stores (Props/C16.v): value() of base[idx] / Tasklet(base, f) / iteratetask / return_tuple / CustomHash / NoHash / containers '
      'is the operation applied to the values at any nesting, indices being arbitrary arguments (tasks, tasklets); an object value() hands over as it is (instances of list/tuple/dict subclasses - namedtuple, OrderedDict, defaultdict ...) reaches the function unchanged whatever the store holds, while the tasks inside it that the walk declares are dependencies: its consumer waits for them and is invalidated with them (C16_opaque_unchanged / _declared_waits / _declared_invalidated); sets/frozensets are looked into by neither; a consumer\'s outcome is a function of its own argument terms only, and two consumers of a free function can share a result only if their own arguments resolve alike (C16_consumer_depends_on_own_arguments / C16_shared_result_needs_equal_inputs); a mapped sequence is the concatenation of its blocks, '
      'a slice (any range, slices of slices) is Python\'s list slice of the whole value; resolution reads the store only at declared dependencies, a missing result met during '
      'resolution is a declared dependency (can_run => never dies in load), outcomes are stable under store extension; Task.dependencies\' walk declares exactly the tasks '
      'occurring underneath (bases, indices, blocks, CustomHash, containers); hence a consumer depends on, and is invalidated with (C09), every task underneath.  '
      'Tie: every argument tree of <= 3/4 nodes and random deep compositions as real jug objects, value() outcome and dependencies() compared with the model in coqc; '
      'direct oracles (reference evaluation, reads within dependencies, can_run, store keys) and real `jug execute`/`jug invalidate` on a dict store; consumer-hash section: for sibling views over one root task (same last operation, different path above) and random pairs inside a hash-safe fragment (int/str/None/slice and task-valued indices, iteratetask, return_tuple, Tasklet, identity, CustomHash of those, mapped sequences/slices/elements), Task.hash() of consumers built with one function is equal iff the derived expressions are the same; after a real `jug execute` every consumer has its OWN stored result = f(reference value of its own argument) and the store holds one entry per distinct consumer; slice indices are compared by what they denote for every length (a missing step is 1; a missing start is 0 only for a positive step): t[::-1] and t[0::-1] must have different consumer hashes and results of their own, t[:3] and t[0:3:1] may share; multi-step histories in one process: every kind of view is evaluated, the underlying tasks are recomputed with other results / removed / added through the store, Task.unload() or Task.load() is applied to the base tasks only, and the same view objects (and their consumers, run in-process) must give the operation applied to the CURRENT results; both evaluations are compared with the model against their own store (value() is a function of the store).',
      'Kernel + vm_compute; results are plain Python values (indexing into str/bytes, bool indices, return_tuple over dict/str are outside the model and only tested directly); '
      'a defaultdict result that invents missing entries makes a second evaluation of a view differ by Python\'s own semantics (such double evaluations are not compared); NoHash (equal hashes by design) and the hash limitations D1/D24 (containers, subclass instances) are outside the consumer-hash section and belong to C07/C08; container-subclass instances are seen by the model as their base kind when plain and as `AOpaque declared v` when they hold tasks; their Python type is checked by the direct oracles; mapped-sequence theorems assume what jug.mapreduce.map builds (blocks = break_up of the values, map_step >= 1; C17); exception kinds not distinguished; '
      'harness: spec generator/realiser, reference evaluator, interning.',
      'DESIGN.md sec. 3 C16')

claim('C14', 'Coq proof (trace invariant of the loader for all staged programs and stores; termination measure + simulation of the reload loop by the sequential evaluation; closed barrier => incomplete loaded task) + differential evaluation of the model in coqc against jug.init / check / execute on generated jugfiles at every subset of earlier results',
      'Theorems (Props/C14.v) over Model/Loader.v, for all programs (continuations after bvalue are arbitrary functions of the value; barriers inside compound builders) and all stores: a barrier() returns only if every task defined before it is stored, bvalue(a) returns only the stored value and the load continues as k v, nothing runs after a BarrierError and the namespace is flagged iff there was one; the reload loop of execute needs at most (number of barrier/bvalue calls of the sequential evaluation)+1 loads and ends with no barrier closed, check = 0 and every stored value equal to the sequential one; a closed barrier implies an unstored loaded task and check = 1 on ANY store (after the D18 repair); `jug sleep-until` exits only when a fresh load is complete (C14_sleep_until_exits_only_when_complete); for ANY NUMBER OF WORKERS barrier()/bvalue() are extra scheduling dependencies and the protocol theorems of C01/C02 apply (C14_many_workers_*: nothing behind a barrier starts early, values sequential, complete at quiescence).  Tie: generated jugfiles with markers after every barrier, real jug.init + CheckCommand at every subset of earlier results (also with non-sequential values), real jug execute on dict and file stores; alltasks by real hash, markers, flag, exit code, final store and number of loads compared with the model; deep dependency chains under a lowered recursion limit; failing tasks and locks across phases with the exit-status oracle; several lock-step workers running the real reload loop validated against Model/Exec.v with barrier edges (harness/execbarrier.py).',
      'Kernel + vm_compute; the loader theorems are about one worker, the many-workers theorems about the protocol with barrier edges (the reading of barriers as edges is a theorem for jugfiles without CompoundTask - C14_loading_is_waiting_for_barrier_edges, Proofs/LoaderExtraFacts.v: on any store holding sequential values the loader puts into alltasks exactly the tasks all of whose barrier/bvalue edges are stored - and is validated by the traces); premises: sequential evaluation succeeds, one value per identifier (tested per case), start store agrees with it, Python scoping; task identifiers are real hashes predicted with jug.task.Task.hash on stub functions; values integers mod 3 and pairs.',
      'DESIGN.md sec. 3 C14')
claim('C18', 'Coq proof (compound = builder in place + one task with the probe hash; collapse; value through the reload-loop theorem; cleanup preserves what is loaded) + differential evaluation of the model in coqc against CompoundTaskGenerator / execute / cleanup / status on generated builders',
      'Theorems (Props/C18.v) over Model/Loader.v for all builders (arbitrary staged programs: nested compounds, barriers/bvalue inside, tuple/constant results) and all stores: with no result under its hash a compound loads exactly as its builder written in place followed by one task that stores the value of the builder\'s result under that hash; after execute every compound\'s stored value is the sequential value of its builder\'s result; with a result it loads as ONE task and nothing of the builder, execute runs nothing, and cleanup (keep the hashes of loaded tasks) keeps the compound key with its value, drops every inner result, and leaves the load and check unchanged.  Tie: generated builders x start stores {empty, some/all inner, collapsed, only compounds, everything, random, non-sequential values} x random load/phase/execute/cleanup/status sequences on dict and file stores; alltasks by real hash, executed tasks, whole store and counts compared after every step.  For every loaded task, a collapsed compound included, Task.dependencies() is the set of tasks under its arguments (for the collapsed compound: the arguments of the call), checked against Model.Loader (atids_list (targs t)) at every `deps` step; `jug invalidate --target` and the shell invalidate() are part of the histories: what they remove equals Loader.invalidate; in particular the stored value of a collapsed compound goes when a task it was built from is invalidated (C18_collapsed_compound_keeps_its_arguments, C18_invalidate_reaches_collapsed_compound), and the following execute expands and recomputes it.',
      'Kernel + vm_compute; one worker; premises: C14_reload_loop hypotheses for the value theorem, Python scoping for cleanup; probe hash = Task(builder, args).hash() predicted with stub functions; values integers mod 3 and pairs; kwargs/list/dict results and raising builders not modelled.',
      'DESIGN.md sec. 3 C18')

_EXEC_TIE = 'Tie (trace validation): the real jug.jug.execution_loop runs in lock-step worker threads (1-9 workers, late joiners, early leavers, generated schedules incl. all interleavings for tiny cases) over proxy stores/locks on dict, file, packed file and fake-redis backends, programs with free constructor task functions over rich argument structures; every recorded trace must be accepted by Model/Exec.v `run` and end in the store the model predicts (coqc, vm_compute); direct oracles on the real runs in Python.'
_EXEC_NOTE = 'Kernel + vm_compute; hypotheses: task functions deterministic and reading only their dependencies (`framed`, proved for the generated programs), acyclic task graph closed under dependencies (`wf_prog`, checked per case); store and lock operations atomic at the API level (primitive-level atomicity: C04/C05) - these and the other hypotheses that are properties of this list are NOT assumed silently: the check re-checks their theorems and re-runs their ties to the code with a reduced budget (harness HYPOTHESES: C01<-C06,C08,C14; C02<-C04,C06; C03<-C16; C11<-C04; C12<-C05; C13<-C05,C04; DESIGN.md sec. 1.6) and reports a failure there as a violation of this property (replay marked via_hypothesis); harness: program generator/realiser, lock-step scheduler, proxy stores, fake redis, interning. The ExecuteCommand wrapper (signal handler installation, barrier reload loop, exit status accumulation) is covered by C14 and by subprocess runs in the thorough tier only.'
claim('C01', 'Coq proof (safety invariant of the N-worker execution protocol preserved by every step; uniqueness of sound stores; completeness at quiescence by a ghost-clock invariant) + trace validation of real multi-worker runs in coqc + sequential-evaluation oracle',
      'Theorems (Props/C01.v) over Model/Exec.v for any number of workers, every DAG and every interleaving: every value ever stored IS the value of '
      'sequential evaluation (also mid-way and with failures, stops, crashes); when every worker has left without stop request or crash exactly the tasks that '
      'neither raise nor depend on a raising one are stored (all of them in a run without failures); a stored task is never started again and its value never '
      'changes, so a second execute does nothing; the generated programs meet the hypotheses.  ' + _EXEC_TIE, _EXEC_NOTE, 'DESIGN.md sec. 3 C01')
claim('C02', 'Coq proof (lock-ownership invariant => mutual exclusion; re-check under the lock => no start once stored; ghost call counter => exactly once) + trace validation of real multi-worker runs in coqc + invocation-log oracle',
      'Theorems (Props/C02.v) for any number of workers and every interleaving: two workers are never inside the function of the same task; once a result '
      'is stored the start event is not enabled, the call counter never moves and the value is never overwritten, whatever follows; absent failures, stops and '
      'crashes every function is called at most once, exactly once if it ends up stored - also across repeated executes; the lock calls of any run, replayed on the atomic lock specification that C04 proves of every backend, get exactly the observed answers and end in the protocol\'s lock table (Proofs/ExecLockFacts.v).  ' + _EXEC_TIE, _EXEC_NOTE, 'DESIGN.md sec. 3 C02')
claim('C03', 'Coq proof (start guard + dependency-closedness of sound stores; frame/blame theorems of argument resolution; completeness of the dependency walk) + trace validation of real multi-worker runs in coqc + differential evaluation of value()/dependencies() (C16 tie)',
      'Theorems (Props/C03.v): when the function of a task is started every direct and indirect dependency has its result; what is returned and stored is the '
      'function applied to the stored results, for programs literally the free function applied to value() of each argument expression; the code\'s dependency walk '
      'declares exactly the tasks occurring under the arguments (positional, keyword, containers, tasklet bases and indices, mapped sequences and slices, '
      'CustomHash); resolution reads the store at those tasks only and never hits a missing result once they are stored.  ' + _EXEC_TIE, _EXEC_NOTE, 'DESIGN.md sec. 3 C03')
claim('C11', 'Coq proof (doomed tasks are never stored and their dependents never started; completeness at quiescence under --keep-going; exit status and lock after a failure) + trace validation of real runs with raising task functions in coqc',
      'Theorems (Props/C11.v): after a task function raised nothing is ever stored for it or for any task depending on it and no dependent is ever started, in '
      'any continuation; with --keep-going, once every worker has left, exactly the tasks not depending on a failed one are stored; the exit status of a worker not '
      'asked to stop is non-zero iff a task function raised in it; the lock of the failed task is released, or with --keep-failed left marked failed, and a failed '
      'lock stays failed and cannot be acquired until failed locks are cleaned up; the failed marker is the `fail` of the atomic lock specification that C04 proves of every backend (Proofs/ExecLockFacts.v).  ' + _EXEC_TIE + '  Raising functions x keep_going x keep_failed, real cleanup --failed-only; the real command line (`jug execute` subprocesses on a file store and on dict_store:FILE): a task raising any of 10 exception classes (incl. TypeError and subclasses) x keep_going x keep_failed x barrier: exit status non-zero iff the process saw a failure, store, locks; the real-CLI section also covers failures next to a bvalue()/barrier() that can still open (multi-pass reload loop).', _EXEC_NOTE, 'DESIGN.md sec. 3 C11')
claim('C12', 'Coq proof (a stop request is enabled in every protocol state and its own unlock + exit are then enabled whatever the others do; a stopped worker never dumps, starts or locks again and can only release its lock; exits hold no lock; restart + completeness) + trace validation of real interrupted runs in coqc',
      'Theorems (Props/C12.v): a stop request can arrive while choosing, waiting, holding a lock, inside a task function, between function and dump, after the dump, '
      'and changes no result and no lock; from then on the worker stores nothing, starts nothing, locks nothing - all it can do is release the lock it holds; a worker '
      'that has left holds no lock; once nobody holds a lock, later workers complete the computation with the sequential values.  ' + _EXEC_TIE +
      '  SystemExit/KeyboardInterrupt raised at every scheduling point of small programs, the real exit_checks hooks; a stop request arriving inside store.dump(); real SIGTERM / SIGINT (single and repeated) to real `jug execute` processes on file, file_keepalive and dict_store:FILE stores, inside a task function (quick) and in the wait loop (thorough), incl. stop requests delivered to the worker\'s whole process group on file_keepalive (keep-alive monitor dead before the worker unwinds); end state read by a fresh process.',
      _EXEC_NOTE + '  Signal delivery inside lock.get() itself is outside the model (and outside the property).', 'DESIGN.md sec. 3 C12')
claim('C13', 'Coq proof (a crash - or any number of crashes at once - changes nothing but the crashed workers; cleanup --locks-only is then enabled and restores the premises of the restart theorem; recovery end to end from any reachable state; dead workers are silent; results are write-once and sound; stale-lock removal; restart + completeness) + trace validation of real crashed-and-recovered runs in coqc',
      'Theorems (Props/C13.v): a crash at any point leaves every result, every lock and every other worker as they were (residue: the locks it held); the dead worker '
      'never acts again; everything stored stays stored, unchanged and sequential, and is never re-run; stale locks can be removed as soon as every holder is dead, '
      'which frees every lock and touches nothing else; a fresh execute then completes the whole computation.  ' + _EXEC_TIE +
      '  Workers stopped for ever at every scheduling point + real remove_locks + recovery workers; kills inside store.dump(); real SIGKILL (inside a task function and inside file_store.dump) + the real `jug cleanup --locks-only` + recovery execute, also for a jugfile that selects its own store with jug.set_jugdir().',
      _EXEC_NOTE + '  Atomicity of a dump under kill / power loss is C05.', 'DESIGN.md sec. 3 C13')

ALL = ['C%02d' % i for i in range(1, 21)]


def build():
    checks = []
    for p in ALL:
        if p not in CLAIMED:
            continue
        tech, text, note, ref = CLAIMED[p]
        checks.append({
            'property_id': p,
            'quick_cmd': 'bin/check %s --tier quick' % p,
            'thorough_cmd': 'bin/check %s --tier thorough' % p,
            'evidence_file': '/verif/evidence/%s.json' % p,
            'replay_cmd_template': 'bin/check %s --replay {path}' % p,
            'engine': 'coq+harness',
            'level_claimed': {'category': 'proof', 'text': text, 'design_ref': ref},
            'level_note': note,
            'technique': tech,
        })
    na = [{'property_id': p, 'reason': NOT_APPLICABLE.get(p, 'check not built yet (work in progress; DESIGN.md sec. 3 describes the planned proof)')}
          for p in ALL if p not in CLAIMED]
    man = {
        'version': 1,
        'setup_cmd': 'bin/setup',
        'hooks': {
            'guard': 'JUG_VERIF',
            'enable': 'no in-tree hooks: observation is by proxy stores, os-level interposition and wrapped task functions; '
                      'bin/check exports JUG_VERIF=1 for uniformity',
            'baseline_off_cmd': BASELINE,
            'source_commits': [],
            'add_only': True,
        },
        'engines': [{
            'name': 'coq+harness',
            'path': '/verif/coq (Coq 8.16 development), /verif/harness (Python drivers, translator, case writer)',
            'serves_properties': [c['property_id'] for c in checks],
            'kind_free_text': 'machine-checked Coq proofs about hand-written Gallina models; model tied to /repo by '
                              'differential evaluation / trace validation inside coqc (vm_compute) and by an ast translator for constants',
        }],
        'checks': checks,
        'not_applicable': na,
        'notes': 'See DESIGN.md. known_findings.json lists recorded findings and fixed defects.',
    }
    return man


if __name__ == '__main__':
    man = build()
    with open(os.path.join(core.VERIF, 'MANIFEST.json'), 'w') as f:
        json.dump(man, f, indent=1)
    print('claimed:', [c['property_id'] for c in man['checks']])
