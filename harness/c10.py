"""C10 - `jug cleanup` deletes exactly the unneeded results; lock-only variants touch only locks.

Proof: Props/C10.v over Model/Cleanup.v (file store with/without pack, dict store, redis store;
four modes; every store content and every active set).
Tie: generated store contents (results of the current jugfile, of an older version of it and of
foreign jugfiles; unpacked / packed / both; held and failed locks; stray temp files; unrelated
keys) x 4 modes x 4 backends are built with the REAL store and lock objects, the REAL command is
run (CLI `jug.jug.main`, `cmdapi.run` with parsed options, or `CleanupCommand.run` with a plain
options object; for the file stores the jug directory is NAMED in every way a user can name it:
absolute, relative, ./x, a/../x, doubled slash, trailing slash, /abs/./x, and the default
'%(jugfile)s.jugdata' derived from `jug cleanup jugfile.py` / `./jugfile.py` / an absolute jugfile), the store is observed before and after (raw directory / dictionary content,
`list()`, `listlocks()`, `is_failed()`, `can_load()`, `Task.can_load()`) and coqc checks that
the model maps the observed before-state to the observed after-state.
Every observation is made through a NEW store object (a new process): for file stores a new file_store, for redis
a new client, and for the in-memory store with a backing file (backend 'dictfile' = `--jugdir dict_store:FILE`) a
dict_store that reads the file the command's process wrote when it closed its store - so "what the command did" is
what survives closing and re-opening the store, results AND locks (held / failed); the producers' locks and results
must likewise be there when the store is opened again before the command.
Search: the set equations of the property evaluated in Python on the same observations."""
import builtins
import contextlib
import hashlib
import os
import pickle
import random
import shutil
import signal
import sys
import time

from . import core
from .core import natlit, listlit, boollit
from . import jugrun
from . import fakeredis
from . import storefaults
import jug
import jug.jug
import jug.task
import jug.options
import jug.subcommands.cleanup as cleanup_mod
from jug.subcommands import cmdapi
from jug.backends.file_store import file_store
from jug.backends.dict_store import dict_store
from jug.backends import redis_store as redis_mod

EVIDENCE = dict(
    level='proof',
    rule='one case = (backend, mode, driver, jugfile, store content) -> real `jug cleanup` run; non-trivial when the store '
         'holds at least one result or lock before the command; distinct = distinct (backend, mode, interned active set, '
         'interned before-state, spelling of the jug directory)',
    explanation='Coq theorems over the cleanup model of the three backends + differential evaluation of the model '
                'against the real command on real stores (file, packed file, dict, dict with backing file, fake-redis), '
                'observed through re-opened stores',
)

MODES = ('default', 'keep_locks', 'locks_only', 'failed_only')
MODE_COQ = {'default': 'Default', 'keep_locks': 'KeepLocks', 'locks_only': 'LocksOnly', 'failed_only': 'FailedOnly'}
MODE_FLAG = {'default': [], 'keep_locks': ['--keep-locks'], 'locks_only': ['--locks-only'], 'failed_only': ['--failed-only']}
BACKENDS = ('file', 'filepack', 'dict', 'dictfile', 'redis')       # dictfile = dict_store:FILE (with its backing file)
REDIS_URL = 'redis://localhost/'
MODNAME = 'c10jugfile'

# How the command is told where the jug directory is (file stores).  name -> (directory name under the case
# root, --jugdir argument or None = not given: jug derives '%(jugfile)s.jugdata', jugfile argument); %(root)s
# is the absolute case root, which is the working directory of the command.  'sub' exists in the case root.
JD_DEFAULT = MODNAME + '.jugdata'
SPELLINGS = {
    'abs':            ('jd', '%(root)s/jd', '%(root)s/' + MODNAME + '.py'),
    'rel':            ('jd', 'jd', MODNAME + '.py'),
    'dot':            ('jd', './jd', './' + MODNAME + '.py'),
    'dotdot':         ('jd', 'sub/../jd', MODNAME + '.py'),
    'dslash-rel':     ('jd', 'sub/..//jd', MODNAME + '.py'),
    'trailing-rel':   ('jd', 'jd/', MODNAME + '.py'),
    'dot-trailing':   ('jd', './jd/', './' + MODNAME + '.py'),
    'nested-rel':     ('sub/deep/jd', 'sub/deep/jd', MODNAME + '.py'),
    'abs-dot':        ('jd', '%(root)s/./jd', '%(root)s/' + MODNAME + '.py'),
    'abs-dotdot':     ('jd', '%(root)s/sub/../jd', MODNAME + '.py'),
    'abs-dslash':     ('jd', '%(root)s//jd', '%(root)s/' + MODNAME + '.py'),
    'abs-trailing':   ('jd', '%(root)s/jd/', '%(root)s/' + MODNAME + '.py'),
    'default':        (JD_DEFAULT, None, MODNAME + '.py'),
    'default-dot':    (JD_DEFAULT, None, './' + MODNAME + '.py'),
    'default-dotdot': (JD_DEFAULT, None, 'sub/../' + MODNAME + '.py'),
    'default-abs':    (JD_DEFAULT, None, '%(root)s/' + MODNAME + '.py'),
}
SPELLING_NAMES = sorted(SPELLINGS)

JUGFILE = '''import builtins
from jug import TaskGenerator, CachedFunction, barrier
from jug.task import iteratetask
import jug.mapreduce

# (harness) what ANOTHER process does to the store after this command opened it, while the jugfile is being loaded
getattr(builtins, '_c10_between', lambda: None)()


@TaskGenerator
def f(x):
    return x + 1


@TaskGenerator
def g(a, b):
    return a * b


def h(x):
    return x * 3


def mp(x):
    return x + 100


@TaskGenerator
def p(n):
    return tuple(range(n))


PARAMS = %(params)r
PAIRS = %(pairs)r
EXTRAS = %(extras)r
xs = dict((p_, f(p_)) for p_ in PARAMS)
if 'barrier' in EXTRAS:
    barrier()
ys = [g(xs[i], xs[j]) for (i, j) in PAIRS]
# tasks that come into being indirectly
if 'cached' in EXTRAS:
    c = CachedFunction(h, 7)
if 'map' in EXTRAS:
    m = jug.mapreduce.map(mp, [1, 2, 3], map_step=2)
if 'iterate' in EXTRAS:
    a, b = iteratetask(p(2), 2)
    z = g(a, b)
'''
ALL_EXTRAS = ('cached', 'map', 'iterate', 'barrier')
EXTRA_LABELS = {'cached': [('cached',)], 'map': [('map', 0), ('map', 1)], 'iterate': [('p',), ('z',)], 'barrier': []}
# After the repair of the stale-pack lost update (notes/proposed_fix_stale_pack.patch) set this to True: the full
# C10 equations then also hold when another process packs / removes between the command's open and its cleanup.
STALE_PACK_REREAD = os.environ.get('VERIF_C10_STALE_PACK_REREAD') == '1'

ALL_PARAMS = [0, 1, 2, 3, 4]
ALL_PAIRS = [(0, 1), (0, 2), (1, 2), (1, 3), (2, 3)]


class HarnessError(RuntimeError):
    pass


class CommandCrashed(Exception):
    def __init__(self, what, before):
        Exception.__init__(self, what)
        self.what = what
        self.before = before


def hx(k):
    return k.decode('ascii') if isinstance(k, bytes) else str(k)


def bx(k):
    return k.encode('ascii') if isinstance(k, str) else k


@contextlib.contextmanager
def process_state():
    """jug's command line entry points edit sys.argv / sys.path / sys.modules / signal handlers /
    hooks; keep the harness process clean."""
    argv, path = list(sys.argv), list(sys.path)
    mod = sys.modules.get(MODNAME)
    term = signal.getsignal(signal.SIGTERM)
    try:
        yield
    finally:
        sys.argv[:] = argv
        sys.path[:] = path
        if mod is None:
            sys.modules.pop(MODNAME, None)
        else:
            sys.modules[MODNAME] = mod
        try:
            signal.signal(signal.SIGTERM, term)
        except (ValueError, TypeError):
            pass
        from jug.hooks.register import reset_all_hooks
        reset_all_hooks()


def call_main(argv, cwd=None):
    """jug.jug.main(['jug'] + argv) in-process (working directory cwd) -> (exit code, stdout, stderr)."""
    with process_state(), (jugrun.chdir(cwd) if cwd else contextlib.nullcontext()):
        with jugrun.quiet() as (out, err):
            try:
                jug.jug.main(['jug'] + list(argv))
                code = 'no-exit'
            except SystemExit as e:
                code = e.code
    return code, out.getvalue(), err.getvalue()


def write_jugfile(path, params, pairs, extras=()):
    with open(path, 'w') as fh:
        fh.write(JUGFILE % {'params': list(params), 'pairs': [tuple(p) for p in pairs], 'extras': list(extras)})


def task_labels(params, pairs, extras=()):
    out = [('f', p) for p in params] + [('g', i, j) for (i, j) in pairs]
    for e in ALL_EXTRAS:                       # creation order in the jugfile
        if e in extras:
            out += EXTRA_LABELS[e]
    return out


def universe(root):
    """hash of every task any generated jugfile can define, by loading the full jugfile once."""
    jf = os.path.join(root, MODNAME + '.py')
    write_jugfile(jf, ALL_PARAMS, ALL_PAIRS, ('cached', 'map', 'iterate'))
    with process_state():
        jugrun.fresh()
        _, space = jug.jug.init(jf, dict_store())
        hs = [hx(t.hash()) for t in jug.task.alltasks]
        # the cached function's task, identified without relying on jug's own registration of it
        ch = hx(jug.task.Task(space['h'], 7).hash())
        if ch not in hs:
            hs.insert(len(ALL_PARAMS) + len(ALL_PAIRS), ch)
    jugrun.fresh()
    labels = task_labels(ALL_PARAMS, ALL_PAIRS, ('cached', 'map', 'iterate'))
    if len(hs) != len(labels) or len(set(hs)) != len(hs):
        raise HarnessError('C10 harness: unexpected task list from the universe jugfile')
    return dict(zip(labels, hs))


# ---------------------------------------------------------------------------- generation
def gen_def(rng, allow_empty=True):
    r = rng.random()
    if allow_empty and r < 0.06:
        return [], []
    n = rng.choice([1, 2, 2, 3, 3, 4])
    params = sorted(rng.sample(ALL_PARAMS, n))
    cand = [p for p in ALL_PAIRS if p[0] in params and p[1] in params]
    pairs = [p for p in cand if rng.random() < 0.5][:2]
    return params, pairs


def gen_spec(rng, H, backend, mode, driver):
    cur_params, cur_pairs = gen_def(rng)
    old = None
    if rng.random() < 0.7:
        op, oq = gen_def(rng, allow_empty=False)
        old = {'params': op, 'pairs': [list(p) for p in oq]}
    extras = []
    if rng.random() < 0.4:
        extras = [e for e in ALL_EXTRAS if rng.random() < 0.45]
    # another process works on the store between the command's open and its cleanup (stores that several processes share)
    between = backend in ('file', 'filepack', 'redis') and rng.random() < 0.25
    if between and 'barrier' in extras:
        extras.remove('barrier')
    active = [H[l] for l in task_labels(cur_params, cur_pairs, extras)]
    oldkeys = [H[l] for l in task_labels(old['params'], [tuple(p) for p in old['pairs']])] if old else []
    foreign = ['%040x' % rng.getrandbits(160) for _ in range(rng.choice([0, 0, 1, 1, 2]))]
    exec_old = bool(old) and backend != 'dict' and rng.random() < 0.08 and not between
    empty = rng.random() < 0.04 and 'barrier' not in extras
    p1, p2, big = [], [], []
    present = []
    if not empty:
        pa = rng.choice([0.3, 0.6, 0.9])
        for k in active:
            if rng.random() < pa or ('barrier' in extras and k in [H[('f', q)] for q in cur_params]):
                present.append(k)          # a barrier lets the jugfile continue only when the first phase is complete
        for k in oldkeys:
            if k not in active and k not in present and (exec_old or rng.random() < 0.7):
                present.append(k)
        for k in foreign:
            if rng.random() < 0.85:
                present.append(k)
    for k in present:
        if exec_old and k in oldkeys:
            # already produced by `jug execute` of the old jugfile (before the pack); maybe stored again later
            if rng.random() < 0.15:
                p2.append(k)
            continue
        if backend == 'filepack':
            r = rng.random()
            if between and not STALE_PACK_REREAD and k not in active:
                r = 0.5        # (until the stale-pack repair) nothing the command would prune is in the pack it opened
            if r < 0.45:
                p1.append(k)
            elif r < 0.85:
                p2.append(k)
            else:
                p1.append(k)
                p2.append(k)
        else:
            p2.append(k)
        if rng.random() < 0.15:
            big.append(k)
    lockonly = ['%040x' % rng.getrandbits(160) for _ in range(rng.choice([0, 0, 1]))]
    locks = []
    if not empty:
        pl = rng.choice([0.15, 0.4, 0.7])
        for k in active + [k for k in oldkeys if k not in active] + foreign + lockonly:
            if rng.random() < pl:
                locks.append([k, rng.random() < 0.5])
    spelling, build_spelled = 'abs', False
    if backend in ('file', 'filepack'):
        spelling = rng.choice(SPELLING_NAMES)
        build_spelled = rng.random() < 0.5
    bops = []
    if between:
        absent = [k for k in active if k not in present]
        newkeys = [k for k in absent if rng.random() < 0.6] + ['%040x' % rng.getrandbits(160) for _ in range(rng.choice([0, 1]))]
        if newkeys:
            bops.append(['dump', newkeys])                     # `jug execute` of another worker
        if backend in ('file', 'filepack') and rng.random() < 0.7:
            bops.append(['pack'])                              # `jug pack`
        gone = [k for k in present if rng.random() < 0.2]
        if gone:
            bops.append(['remove', gone])                      # `jug invalidate`
        if rng.random() < 0.3:
            rng.shuffle(bops)
        # ... and the other worker's `jug execute` stores some of the invalidated NEEDED results again, as plain files,
        # while the command's copy of the pack still lists them (C10-m10).  Chosen by a generator of its own so that the
        # specs drawn before this op existed stay what they were.
        r2 = random.Random('redo:' + ''.join(gone))
        redo = [k for k in gone if k in active and r2.random() < 0.7]
        if redo:
            bops.append(['dump', redo])
    # somebody READS lock files (cat, grep -r, backup) between the failure and the cleanup: their atime moves, their mtime
    # (the failed marker of the file locks) does not
    reads = []
    if backend in ('file', 'filepack') and locks:
        pr = rng.choice([0.0, 0.5, 1.0])
        reads = [k for k, _ in locks if rng.random() < pr]
    spec = {
        'reads': reads,
        'backend': backend, 'mode': mode, 'driver': driver,
        'spelling': spelling, 'build_spelled': build_spelled,
        'current': {'params': cur_params, 'pairs': [list(p) for p in cur_pairs], 'extras': extras},
        'between': bops,
        'old': old, 'exec_old': exec_old,
        'dump_before_pack': p1, 'dump_after_pack': p2, 'big': big,
        'locks': locks,
        'temps': (rng.choice([0, 0, 1, 2]) if backend in ('file', 'filepack') and not empty else 0),
        'others': (rng.choice([0, 0, 1, 2]) if backend in ('dict', 'dictfile', 'redis') and not empty else 0),
    }
    return spec


# ---------------------------------------------------------------------------- real stores
class Env:
    def __init__(self, backend, root, spelling='abs', build_spelled=False):
        self.backend = backend
        self.root = root
        self.jugfile = os.path.join(root, MODNAME + '.py')       # where the jugfile is written
        self.jugfile_arg = self.jugfile                           # how the command names it
        self.jd = None                                            # canonical absolute jug directory (build / observe)
        self.jd_arg = None                                        # how the command names it (None: not given)
        self.jd_spelled = None                                    # the string the command's file_store is made from
        self.build_spelled = False
        if backend in ('file', 'filepack'):
            dname, jd_arg, jf_arg = SPELLINGS[spelling]
            sub = {'root': root}
            os.makedirs(os.path.join(root, 'sub', 'deep'), exist_ok=True)
            self.jd = os.path.join(root, dname)
            self.jugfile_arg = jf_arg % sub
            self.jd_arg = None if jd_arg is None else jd_arg % sub
            # options.parse: jugdir = '%(jugfile)s.jugdata' % {'jugfile': jugfile[:-3]}
            self.jd_spelled = self.jd_arg if self.jd_arg is not None else self.jugfile_arg[:-3] + '.jugdata'
            self.build_spelled = build_spelled
            with jugrun.chdir(root):
                if os.path.realpath(self.jd_spelled) != os.path.realpath(self.jd):
                    raise HarnessError('C10 harness: spelling %s does not name %s' % (spelling, self.jd))
        self.dstore = dict_store() if backend == 'dict' else None
        self.dfile = os.path.join(root, 'results.dict_store') if backend == 'dictfile' else None
        self.opened = []                  # dict_store objects on the backing file that must not write it when collected
        self.srv = fakeredis.FakeServer() if backend == 'redis' else None
        if self.srv is not None:
            fakeredis.install(self.srv)

    def open(self, spelled=False):
        """a store object as a new process would create it (spelled: from the same string as the command,
        only meaningful while the working directory is the case root)"""
        if self.backend in ('file', 'filepack'):
            return file_store(self.jd_spelled if spelled else self.jd)
        if self.backend == 'dict':
            return self.dstore
        if self.backend == 'dictfile':
            # a new process: reads the backing file (and would rewrite it on close() / when collected)
            st = dict_store(self.dfile)
            self.opened.append(st)
            return st
        fakeredis.install(self.srv)
        return redis_mod.redis_store(REDIS_URL)

    def discard(self, st):
        """an observing store object goes away WITHOUT writing the backing file"""
        if self.backend == 'dictfile':
            st.backend = None

    def end_process(self, st):
        """what the end of a jug process does to its store object (jug.main: store.close())"""
        if self.backend == 'dictfile':
            st.close()

    def jugdir_args(self):
        """the --jugdir part of a command line"""
        if self.backend in ('file', 'filepack'):
            return [] if self.jd_arg is None else ['--jugdir', self.jd_arg]
        if self.backend == 'dict':
            return ['--jugdir', self.dstore]
        if self.backend == 'dictfile':
            return ['--jugdir', 'dict_store:' + self.dfile]
        return ['--jugdir', REDIS_URL]


def value_for(k, big):
    if k in big:
        return random.Random(k).randbytes(900)       # > MAX_FILESIZE_IN_PACK after encoding: never packed
    return int(k[:6], 16)


def build(spec, root):
    """Create the store content described by spec with the real store / lock objects."""
    backend = spec['backend']
    env = Env(backend, root, spec.get('spelling', 'abs'), spec.get('build_spelled', False))
    with jugrun.chdir(root):
        _build(spec, env)
    return env


def _build(spec, env):
    backend = spec['backend']
    big = set(spec['big'])
    sp = env.build_spelled           # the producers named the jug directory like the command will
    # for file stores: opened before any pack exists, its .packed stays {}; the in-memory store with a backing file
    # has ONE producer process at a time: it is opened after the `jug execute` below and closed at the end
    stale = env.open(sp) if backend != 'dictfile' else None
    if spec['exec_old']:
        old = spec['old']
        write_jugfile(env.jugfile, old['params'], [tuple(p) for p in old['pairs']])
        code, out, err = call_main(['execute', env.jugfile_arg] + env.jugdir_args() +
                                   ['--will-cite', '--nr-wait-cycles', '1', '--wait-cycle-time', '0'], cwd=env.root)
        if code not in (None, 0):
            raise HarnessError('C10 harness: jug execute of the old jugfile failed: %r %s %s' % (code, out[-300:], err[-300:]))
    s1 = env.open(sp)
    if backend == 'dictfile':
        stale = s1
    for k in spec['dump_before_pack']:
        s1.dump(value_for(k, big), bx(k))
    if backend == 'filepack':
        s1.update_pack()
    for k in spec['dump_after_pack']:
        stale.dump(value_for(k, big), bx(k))
    for k, failed in spec['locks']:
        lock = stale.getlock(bx(k))
        if not lock.get():
            raise HarnessError('C10 harness: could not take lock %s' % k)
        if failed and not lock.fail():
            raise HarnessError('C10 harness: could not mark lock %s failed' % k)
    if spec['temps']:
        td = os.path.join(env.jd, 'tempfiles')
        os.makedirs(td, exist_ok=True)
        for i in range(spec['temps']):
            with open(os.path.join(td, 'jugtemp%06d.jugtmp' % i), 'wb') as fh:
                fh.write(b'partial write of a crashed worker')
    for i in range(spec['others']):
        if backend == 'dict':
            env.dstore.store[b'misc:%d' % i] = b'x'
        elif backend == 'dictfile':
            s1.store[b'misc:%d' % i] = b'x'
        else:
            env.srv.data[b'misc:%d' % i] = b'x'
    env.end_process(s1)              # the producer exits: dict_store:FILE is written now
    cur = spec['current']
    write_jugfile(env.jugfile, cur['params'], [tuple(p) for p in cur['pairs']], cur.get('extras', ()))


def scan_file_store(jd):
    """Raw directory content, independent of jug's code (except decoding the pack file)."""
    files, temps = [], 0
    if os.path.isdir(jd):
        for d in sorted(os.listdir(jd)):
            p = os.path.join(jd, d)
            if d == 'tempfiles':
                temps = len(os.listdir(p))
            elif d in ('locks', 'packs'):
                pass
            elif os.path.isdir(p):
                for fn in sorted(os.listdir(p)):
                    files.append(d + fn)
            else:
                files.append('toplevel:' + d)
    pack = None
    if os.path.exists(os.path.join(jd, 'packs', 'jugpack')):
        pack = sorted(hx(k) for k in storefaults.pack_on_disk(jd).keys())
    return sorted(files), pack, temps


def scan_kv(items, locked, failed):
    raw = []
    for k, v in items:
        k = hx(k) if not isinstance(k, bytes) else k.decode('latin1')
        if k.startswith('result:'):
            raw.append(['result', k[len('result:'):]])
        elif k.startswith('lock:'):
            if v == failed:
                raw.append(['lock', k[len('lock:'):], True])
            elif v == locked:
                raw.append(['lock', k[len('lock:'):], False])
            else:
                raw.append(['other', k + '=' + repr(v)])
        else:
            raw.append(['other', k])
    return sorted(raw)


def observe(env, keys, inproc=None, tasks=None):
    s = env.open()
    o = {}
    o['list'] = sorted(set(hx(k) for k in s.list()))
    o['locks'] = [[hx(n), bool(s.getlock(n).is_failed())] for n in sorted(set(s.listlocks()))]
    o['can_load'] = dict((k, bool(s.can_load(bx(k)))) for k in sorted(keys))
    if env.backend in ('file', 'filepack'):
        o['files'], o['pack'], o['temps'] = scan_file_store(env.jd)
        o['raw_locks'] = raw_lock_files(env.jd)
    elif env.backend == 'dict':
        dm = sys.modules['jug.backends.dict_store']
        o['raw'] = scan_kv(list(env.dstore.store.items()), dm._LOCKED, dm._FAILED)
    elif env.backend == 'dictfile':
        # the backing file itself, read without jug
        dm = sys.modules['jug.backends.dict_store']
        content = {}
        if os.path.exists(env.dfile):
            with open(env.dfile, 'rb') as fh:
                content = pickle.load(fh)
        o['raw'] = scan_kv(list(content.items()), dm._LOCKED, dm._FAILED)
    else:
        o['raw'] = scan_kv(list(env.srv.data.items()), redis_mod._LOCKED, redis_mod._FAILED)
    if inproc is not None:
        with jugrun.chdir(env.root):          # the command's store object may hold a relative path
            o['list_inproc'] = sorted(set(hx(k) for k in inproc.list()))
    if tasks is not None:
        old = jug.task.Task.store
        jug.task.Task.store = s
        try:
            o['task_can_load'] = [[hx(t.hash()), bool(t.can_load())] for t in tasks]
        finally:
            jug.task.Task.store = old
    env.discard(s)
    return o


class PlainOptions:
    """what CleanupCommand.run reads from its options object"""
    def __init__(self, mode):
        self.cleanup_locks_only = (mode == 'locks_only')
        self.cleanup_failed_only = (mode == 'failed_only')
        self.cleanup_keep_locks = (mode == 'keep_locks')
        self.printed = []

    def print_out(self, *args):
        self.printed.append(' '.join(str(a) for a in args))


def run_cleanup(spec, env):
    """Run the real command in the case root. Returns (active hashes in task order, store object the command used,
    tasks, message)."""
    mode, driver = spec['mode'], spec['driver']
    jugrun.fresh()
    jug.task.Task.store = None
    if driver == 'cli':
        code, out, err = call_main(['cleanup', env.jugfile_arg] + env.jugdir_args() + MODE_FLAG[mode], cwd=env.root)
        if code not in (None, 0):
            raise RuntimeError('jug cleanup exited with %r: %s %s' % (code, out[-300:], err[-300:]))
        msg = out.strip()
    elif driver == 'cmdapi':
        with process_state(), jugrun.chdir(env.root):
            with jugrun.quiet() as (out, err):
                jargs = env.jugdir_args()
                obj = jargs[1] if jargs and not isinstance(jargs[1], str) else None
                if obj is not None:
                    jargs = ['--jugdir', 'dict_store']
                options = jug.options.parse(['cleanup', env.jugfile_arg] + jargs + MODE_FLAG[mode])
                store, space = jug.jug.init(options.jugfile, obj if obj is not None else options.jugdir)
                cmdapi.run('cleanup', options=options, store=store, jugspace=space)
                store.close()
        msg = out.getvalue().strip()
    elif driver == 'direct':
        with process_state(), jugrun.chdir(env.root):
            store, space = jug.jug.init(env.jugfile_arg, env.open(spelled=True))
            opts = PlainOptions(mode)
            cleanup_mod.cleanup.run(store=store, options=opts)
            env.end_process(store)
        msg = ' '.join(opts.printed)
    else:
        raise ValueError(driver)
    tasks = list(jug.task.alltasks)
    used = jug.task.Task.store
    # hashing a task that holds a function of the jugfile pickles it by reference: the jugfile's module has to be
    # importable again (the command's process state was undone above)
    import types
    def jugfile_functions(t):
        todo = [t.f] + list(t.args) + list(t.kwargs.values())
        while todo:
            x = todo.pop()
            if isinstance(x, (list, tuple)):
                todo.extend(x)
            elif getattr(x, '__module__', None) == MODNAME and hasattr(x, '__globals__'):
                yield x
            elif getattr(getattr(x, 'f', None), '__module__', None) == MODNAME:      # a TaskGenerator
                yield x.f
    glob = next((fn.__globals__ for t in tasks for fn in jugfile_functions(t)), None)
    had = sys.modules.get(MODNAME)
    if glob is not None:
        m = types.ModuleType(MODNAME)
        m.__dict__.update(glob)
        sys.modules[MODNAME] = m
    try:
        hashes = [hx(t.hash()) for t in tasks]
    finally:
        if glob is not None:
            if had is None:
                sys.modules.pop(MODNAME, None)
            else:
                sys.modules[MODNAME] = had
    return hashes, used, tasks, msg


# ---------------------------------------------------------------------------- oracle (Python, independent of Coq)
def oracle(spec, active, before, after):
    """The set equations of C10 on the API-level observations.  Returns [(clause, expected, observed)]."""
    mode, backend = spec['mode'], spec['backend']
    bad = []
    A = set(active)                   # the tasks the jugfile defines (known from the generator)
    if 'active_cmd' in after and list(after['active_cmd']) != list(active):
        bad.append(('tasks the command takes as defined by the jugfile (task.alltasks)', list(active), list(after['active_cmd'])))
    # what the producers left must be what a new store object sees before the command: the locks they hold / marked
    # failed (and the results they stored) survive closing the store and opening it again
    b0 = before.get('opened', before)          # the store when the command opened it
    conc = 'opened' in before                  # another process worked on it between that and the cleanup: `before` is
    #                                            the store at cleanup time
    want_locks = sorted([k, bool(f)] for k, f in spec['locks'])
    if sorted(b0['locks']) != want_locks:
        bad.append(('locks held when the store was closed are there when it is opened again', want_locks, sorted(b0['locks'])))
    stored = set(spec['dump_before_pack']) | set(spec['dump_after_pack'])
    if not stored <= set(b0['list']):
        bad.append(('results stored before the store was closed are there when it is opened again', sorted(stored), b0['list']))
    created = set(after.get('created', []))    # results that LOADING the jugfile stores (CachedFunction)
    rb, ra = set(before['list']) | created, set(after['list'])
    exp_r = (rb & A) if mode in ('default', 'keep_locks') else rb
    weak = conc and backend in ('file', 'filepack') and not STALE_PACK_REREAD
    if weak:
        # the command's copy of the pack is older than the pack: what must hold nevertheless
        if mode in ('default', 'keep_locks'):
            for k in sorted((rb & A) - ra):
                bad.append(('needed result removed (another process packed / stored / removed before the cleanup)', k, 'gone'))
            if not ra <= rb:
                bad.append(('results that were not there at cleanup time', sorted(rb), sorted(ra)))
            if not (ra - A) <= set(before.get('pack') or []):
                bad.append(('stale results survive only inside a pack the command never read', sorted(before.get('pack') or []), sorted(ra - A)))
        elif ra != exp_r:
            bad.append(('results', sorted(exp_r), sorted(ra)))
        exp_r = ra
    elif ra != exp_r:
        bad.append(('results', sorted(exp_r), sorted(ra)))
    if not weak and 'list_inproc' in after and set(after['list_inproc']) != exp_r:
        bad.append(('results (view of the store object the command used)', sorted(exp_r), after['list_inproc']))
    # (file stores: which locks are failed is read off the lock files themselves - the mtime marker - not asked of is_failed())
    lb = dict((k, f) for k, f in before.get('raw_locks', before['locks']))
    la = dict((k, f) for k, f in after['locks'])
    if mode in ('default', 'locks_only'):
        exp_l = {}
    elif mode == 'keep_locks':
        exp_l = lb
    else:
        exp_l = dict((k, f) for k, f in lb.items() if not f)
    if la != exp_l:
        bad.append(('locks', sorted(exp_l.items()), sorted(la.items())))
    for k, v in sorted(after['can_load'].items()):
        if v != (k in exp_r):
            bad.append(('can_load(%s)' % k, k in exp_r, v))
    for k in sorted(A):
        if before['can_load'].get(k) and not after['can_load'].get(k):
            bad.append(('needed result removed', k, 'can_load False'))
    for k, v in after.get('task_can_load', []):
        if v != (k in exp_r):
            bad.append(('Task.can_load(%s)' % k, k in exp_r, v))
    for name, o in (('before', before), ('after', after)):
        if 'raw_locks' in o and o['raw_locks'] != sorted([k, bool(f)] for k, f in o['locks']):
            # the lock files themselves (failed = the mtime is the marker) say the same as listlocks() / is_failed()
            bad.append(('lock files on disk vs listlocks()/is_failed() of a new store object (%s the command)' % name,
                        o['raw_locks'], sorted([k, bool(f)] for k, f in o['locks'])))
    if 'raw' in after:
        # the raw key space says the same as the API of the re-opened store
        rr = sorted(e[1] for e in after['raw'] if e[0] == 'result')
        rl = sorted([e[1], e[2]] for e in after['raw'] if e[0] == 'lock')
        if rr != sorted(ra) or rl != sorted([k, f] for k, f in la.items()):
            bad.append(('raw content of the store vs list()/listlocks() of a new store object', [rr, rl], [sorted(ra), sorted(la.items())]))
    if mode in ('locks_only', 'failed_only'):
        if backend in ('file', 'filepack'):
            for fld in ('files', 'pack', 'temps'):
                # (a CachedFunction whose result another process has just packed is stored again, next to the pack, by a
                # command whose copy of the pack is older)
                again = created | (set(after.get('cached_key', [])) & set(before.get('pack') or []) if conc else set())
                av = [x for x in after[fld] if x not in again] if fld == 'files' else after[fld]
                bv = [x for x in before[fld] if x not in again] if fld == 'files' else before[fld]
                if conc and fld == 'pack' and after.get('cached_key'):
                    av = [x for x in (av or []) if x not in after['cached_key']]
                    bv = [x for x in (bv or []) if x not in after['cached_key']]
                if bv != av:
                    bad.append(('lock-only mode changed %s' % fld, bv, av))
        else:
            nb = [e for e in before['raw'] if e[0] != 'lock']
            na = [e for e in after['raw'] if e[0] != 'lock' and not (e[0] == 'result' and e[1] in created)]
            if nb != na:
                bad.append(('lock-only mode changed non-lock keys', nb, na))
    return bad


# ---------------------------------------------------------------------------- rendering for Coq
def intern(active, before, after):
    ids = {}

    def add(k):
        if k not in ids:
            ids[k] = len(ids) + 1
    for k in active:
        add(k)
    rest = set()
    for o in (before, after):
        rest.update(o['list'])
        rest.update(k for k, _ in o['locks'])
        rest.update(o['can_load'].keys())
        rest.update(o.get('list_inproc', []))
        rest.update(o.get('files', []))
        rest.update(o.get('pack') or [])
        for e in o.get('raw', []):
            rest.add(e[1])
    for k in sorted(rest):
        add(k)
    return ids


def plist(xs):
    return '[' + ';'.join(str(x) for x in xs) + ']'


def with_created(backend, o, created):
    if not created:
        return o
    o = dict(o)
    o['list'] = sorted(set(o['list']) | set(created))
    if backend in ('file', 'filepack'):
        o['files'] = sorted(set(o['files']) | set(created))
    else:
        o['raw'] = sorted(o['raw'] + [['result', k] for k in created])
    return o


def state_lit(backend, o, ids):
    if backend in ('file', 'filepack'):
        pack = 'None' if o['pack'] is None else '(Some %s)' % plist(ids[k] for k in o['pack'])
        locks = '[' + ';'.join('(%d,%s)' % (ids[k], boollit(f)) for k, f in o['locks']) + ']'
        return '(SFile (mk_fstore %s %s %s %s))' % (plist(ids[k] for k in o['files']), pack, locks, natlit(o['temps']))
    ents = []
    for e in o['raw']:
        if e[0] == 'result':
            ents.append('KRes %d' % ids[e[1]])
        elif e[0] == 'lock':
            ents.append('KLock %d %s' % (ids[e[1]], boollit(e[2])))
        else:
            ents.append('KOther %d' % ids[e[1]])
    return '(%s [%s])' % ('SDict' if backend in ('dict', 'dictfile') else 'SRedis', ';'.join(ents))


def case_lit(spec, active, before, after, ids):
    views = '(%s, %s, %s, %s)' % (
        plist(ids[k] for k in after.get('list_inproc', after['list'])),
        plist(ids[k] for k in after['list']),
        '[' + ';'.join('(%d,%s)' % (ids[k], boollit(f)) for k, f in after['locks']) + ']',
        '[' + ';'.join('(%d,%s)' % (ids[k], boollit(v)) for k, v in
                       sorted(list(after['can_load'].items()) + [tuple(x) for x in after.get('task_can_load', [])])) + ']')
    return '(%s, %s, %s, %s, %s)' % (MODE_COQ[spec['mode']], plist(ids[k] for k in active),
                                     state_lit(spec['backend'], before, ids), state_lit(spec['backend'], after, ids), views)


PREAMBLE = '''
Open Scope positive_scope.
Inductive cstate := SFile (st : fstore) | SDict (st : kvstore) | SRedis (st : kvstore).
(* list() of the store object the command used, list() of a re-opened store,
   listlocks() with is_failed(), can_load() per key *)
Definition cobs := (list key * list key * list (key * bool) * list (key * bool))%type.
Definition check_views {S : Type} (B : backend S) (st' : S) (o : cobs) : bool :=
  match o with (l1, l2, lks, loads) =>
    seteq_b Pos.eqb (b_results B st') l1 && seteq_b Pos.eqb (b_results B st') l2 &&
    seteq_b kb_eqb (map (fun k => (k, b_failed B st' k)) (b_locks B st')) lks &&
    forallb (fun kb => Bool.eqb (can_load B st' (fst kb)) (snd kb)) loads
  end.
Definition lock_only (m : mode) : bool := match m with LocksOnly | FailedOnly => true | _ => false end.
(* Compared: the result set, the locks with their failed marks, the four API views; in the two
   lock-only modes also the whole non-lock part of the raw state ("nothing else is removed").
   Not compared (not part of C10): what default / --keep-locks do to stray temp files and to
   unrelated keys, and whether an unchanged or empty pack file is (re)written. *)
Definition run_case (c : mode * list key * cstate * cstate * cobs) : bool :=
  match c with (m, active, before, after, o) =>
    match before, after with
    | SFile st, SFile ob =>
        let st' := cleanup_cmd file_backend m active st in
        seteq_b Pos.eqb (file_results st') (file_results ob) && seteq_b kb_eqb (fs_locks st') (fs_locks ob) &&
        (if lock_only m then file_frame_eqb st' ob else true) && check_views file_backend st' o
    | SDict st, SDict ob =>
        let st' := cleanup_cmd dict_backend m active st in
        seteq_b Pos.eqb (kv_results st') (kv_results ob) &&
        seteq_b kb_eqb (lock_entries kvlk st') (lock_entries kvlk ob) &&
        (if lock_only m then kv_frame_eqb st' ob else true) && check_views dict_backend st' o
    | SRedis st, SRedis ob =>
        let st' := cleanup_cmd redis_backend m active st in
        seteq_b Pos.eqb (kv_results st') (kv_results ob) &&
        seteq_b kb_eqb (lock_entries kvlk st') (lock_entries kvlk ob) &&
        (if lock_only m then kv_frame_eqb st' ob else true) && check_views redis_backend st' o
    | _, _ => false
    end
  end.'''
CASE_TYPE = 'mode * list key * cstate * cstate * cobs'
IMPORTS = 'From JugV Require Import Model.Cleanup.'


# ---------------------------------------------------------------------------- one case end to end
def read_lock_files(env, ks):
    """what looking into a lock file does on a file system that records access times (independent of mount options):
    the content is read, the atime becomes now, the mtime stays"""
    for k in ks:
        p = os.path.join(env.jd, 'locks', k + '.lock')
        try:
            with open(p, 'rb') as fh:
                fh.read()
            st = os.stat(p)
            os.utime(p, (time.time(), st.st_mtime))
        except OSError as e:
            raise HarnessError('C10 harness: lock file %s cannot be read: %s' % (p, e))


def raw_lock_files(jd):
    """[[name, failed]] from the directory alone: a failed lock is a lock file whose MTIME is the failed marker"""
    from jug.backends.file_store import file_based_lock
    d = os.path.join(jd, 'locks')
    out = []
    if os.path.isdir(d):
        for fn in sorted(os.listdir(d)):
            if fn.endswith('.lock'):
                out.append([fn[:-len('.lock')], int(os.stat(os.path.join(d, fn)).st_mtime) == file_based_lock._FAILED_TIMESTAMP[1]])
    return sorted(out)


def run_spec(spec, H, root):
    """build -> observe -> real command -> observe.  Returns (active, before, after, msg)."""
    env = build(spec, root)
    cur = spec['current']
    expect_active = [H[l] for l in task_labels(cur['params'], [tuple(p) for p in cur['pairs']], cur.get('extras', ()))]
    keys = set(expect_active)
    for op in spec.get('between', []):
        if op[0] in ('dump', 'remove'):
            keys.update(op[1])
    if spec['old']:
        keys.update(H[l] for l in task_labels(spec['old']['params'], [tuple(p) for p in spec['old']['pairs']]))
    keys.update(spec['dump_before_pack'])
    keys.update(spec['dump_after_pack'])
    keys.update(k for k, _ in spec['locks'])
    read_lock_files(env, spec.get('reads', []))
    before = observe(env, keys)
    state = {}

    def between():
        """another process: the command has opened its store and is loading the jugfile"""
        builtins._c10_between = lambda: None
        B = env.open()
        big = set(spec['big'])
        for op in spec['between']:
            if op[0] == 'dump':
                for k in op[1]:
                    B.dump(value_for(k, big), bx(k))
            elif op[0] == 'pack':
                B.update_pack()
            elif op[0] == 'remove':
                for k in op[1]:
                    B.remove(bx(k))
        env.discard(B)
        state['at_cleanup'] = observe(env, keys)
    if spec.get('between'):
        builtins._c10_between = between
    try:
        active, used, tasks, msg = run_cleanup(spec, env)
    except HarnessError:
        raise
    except Exception as e:                     # the command under test raised: a finding, not a harness failure
        jugrun.fresh()
        raise CommandCrashed('%s: %s' % (type(e).__name__, str(e)[:200]), before)
    finally:
        if hasattr(builtins, '_c10_between'):
            del builtins._c10_between
    if 'at_cleanup' in state:
        state['at_cleanup']['opened'] = before
        before = state['at_cleanup']
    after = observe(env, keys, inproc=used, tasks=tasks)
    if 'opened' in before:
        # the command's own store object may still hold what it read when it opened the store (a lock-only mode has
        # no reason to look again): only new store objects are asked when another process was at work
        after.pop('list_inproc', None)
    after['active_cmd'] = active
    if 'cached' in cur.get('extras', ()):
        after['cached_key'] = [H[('cached',)]]
        if H[('cached',)] not in before['list'] and ('opened' not in before or H[('cached',)] in after['list']):
            # (with another process at work the command's older view decides whether the function runs again)
            after['created'] = [H[('cached',)]]
    jugrun.fresh()
    return expect_active, before, after, msg


def run(ck):
    ck.prove()
    ck.trusted_base = core.DEFAULT_TRUSTED_BASE + [
        'C10: redis is the in-process command-atomic fake (harness/fakeredis.py); the keep-alive file store and a '
        'pre-existing pack-save lock are out of scope; active = task.alltasks after loading the jugfile',
    ]
    ck.assumptions = ['none in the theorems; the tie assumes the store is not modified concurrently with the command']
    rng = ck.rng
    N = ck.n(520, 10000)
    home = os.environ.get('HOME')
    cases, metas = [], []
    with jugrun.scratch_dir('jugv_c10_') as root:
        os.environ['HOME'] = root                     # no user jugrc
        try:
            H = universe(root)
            for i in range(N):
                backend = BACKENDS[i % 5]
                mode = MODES[(i // 5) % 4]
                if backend == 'dict':
                    driver = ('cmdapi', 'direct')[(i // 20) % 2]
                else:
                    driver = ('cli', 'cli', 'cmdapi', 'direct')[(i // 20) % 4]
                spec = gen_spec(rng, H, backend, mode, driver)
                croot = os.path.join(root, 'c%d' % i)
                os.makedirs(croot)
                try:
                    active, before, after, msg = run_spec(spec, H, croot)
                except CommandCrashed as e:
                    ck.violation({'kind': 'impl-violation', 'what': 'cleanup %s on %s raised an exception' % (mode, backend),
                                  'exception': e.what, 'spec': spec, 'before': e.before})
                    ck.count('command raised')
                    continue
                finally:
                    shutil.rmtree(croot, ignore_errors=True)
                ids = intern(active, before, after)
                meta = {'spec': spec, 'active': active, 'before': before, 'after': after, 'message': msg,
                        'interning': ids}
                conc = 'opened' in before
                if conc and backend in ('file', 'filepack') and (not STALE_PACK_REREAD or 'cached' in spec['current'].get('extras', [])):
                    # the model reads the pack when the command runs; the real command read it when it opened the store
                    ck.count('another process between open and cleanup: search only (stale copy of the pack)')
                else:
                    # the model is told the store as it is once the jugfile is loaded (CachedFunction stores at load time)
                    cases.append(case_lit(spec, active, with_created(backend, before, after.get('created', [])), after, ids))
                    metas.append(meta)
                if conc:
                    ck.count('another process between open and cleanup:%s' % '+'.join(op[0] for op in spec['between']))
                for e in spec['current'].get('extras', []):
                    ck.count('jugfile with indirectly created tasks:%s' % e)
                if after.get('created'):
                    ck.count('CachedFunction result stored while the command loads the jugfile')
                for clause, exp, obs in oracle(spec, active, before, after):
                    ck.violation({'kind': 'impl-violation',
                                  'what': 'cleanup %s on %s: %s' % (mode, backend, clause.split('(')[0].strip()),
                                  'clause': clause, 'expected': exp, 'observed': obs, **meta})
                nontrivial = bool(before['list'] or before['locks'])
                ck.distinct((backend, mode, plist(ids[k] for k in active), state_lit(backend, before, ids),
                             spec['spelling']), nontrivial)
                if backend in ('file', 'filepack'):
                    ck.count('jugdir spelling:%s' % spec['spelling'])
                ck.count('backend:%s' % backend)
                ck.count('mode:%s' % mode)
                ck.count('driver:%s' % driver)
                if spec['exec_old']:
                    ck.count('old results produced by a real `jug execute`')
                if before.get('pack'):
                    ck.count('state:pack non-empty')
                    if set(before['pack']) & set(before['files']):
                        ck.count('state:key both packed and unpacked')
                    if set(before['pack']) & set(active):
                        ck.count('state:active result inside the pack')
                if set(before['list']) - set(active):
                    ck.count('state:foreign/old result present')
                if any(f for _, f in before['locks']):
                    ck.count('state:failed lock present')
                if any(not f for _, f in before['locks']):
                    ck.count('state:held lock present')
                if before.get('temps'):
                    ck.count('state:stray temp files')
                if not nontrivial:
                    ck.count('state:empty store')
                if i in (5, 22, 43, 60):
                    ck.sample({'backend': backend, 'mode': mode, 'driver': driver, 'active': [ids[k] for k in active],
                               'before': before_summary(before, ids), 'after': before_summary(after, ids), 'message': msg})
            # option plumbing: the three flags are mutually exclusive and a rejected command touches nothing
            for j in range(ck.n(16, 64)):
                backend = ('file', 'filepack', 'redis', 'dictfile')[j % 4]
                flags = [['--locks-only', '--keep-locks'], ['--failed-only', '--keep-locks'],
                         ['--locks-only', '--failed-only'], ['--locks-only', '--failed-only', '--keep-locks']][(j // 4) % 4]
                spec = gen_spec(rng, H, backend, 'default', 'cli')
                croot = os.path.join(root, 'x%d' % j)
                os.makedirs(croot)
                bad = run_exclusive(spec, croot, flags)
                shutil.rmtree(croot, ignore_errors=True)
                ck.count('mutually exclusive flags rejected')
                if bad:
                    ck.violation({'kind': 'impl-violation', 'what': 'mutually exclusive cleanup flags accepted or store modified',
                                  'spec': spec, 'flags': flags, 'detail': bad})
        finally:
            if home is None:
                os.environ.pop('HOME', None)
            else:
                os.environ['HOME'] = home
            fakeredis.uninstall()
    fails = ck.cases('cleanup', IMPORTS, CASE_TYPE, 'run_case', cases, preamble=PREAMBLE)
    for i in (fails or []):
        m = metas[i]
        ck.violation({'kind': 'correspondence',
                      'what': 'cleanup %s on %s: model and jug disagree' % (m['spec']['mode'], m['spec']['backend']),
                      'coq_case': cases[i], **m})


def before_summary(o, ids):
    s = {'list': [ids[k] for k in o['list']], 'locks': [[ids[k], f] for k, f in o['locks']]}
    if 'files' in o:
        s['files'] = [ids[k] for k in o['files']]
        s['pack'] = None if o['pack'] is None else [ids[k] for k in o['pack']]
        s['temps'] = o['temps']
    return s


def run_exclusive(spec, croot, flags):
    env = build(spec, croot)
    keys = set(spec['dump_before_pack']) | set(spec['dump_after_pack']) | set(k for k, _ in spec['locks'])
    before = observe(env, keys)
    jugrun.fresh()
    code, out, err = call_main(['cleanup', env.jugfile_arg] + env.jugdir_args() + flags, cwd=env.root)
    after = observe(env, keys)
    jugrun.fresh()
    bad = []
    if code != 2 or 'not allowed with' not in err:
        bad.append('exit code %r, stderr %r' % (code, err[-200:]))
    if before != after:
        bad.append({'before': before, 'after': after})
    return bad


# ---------------------------------------------------------------------------- replay
def replay(obj):
    """Re-execute a recorded C10 case against the repository under test."""
    spec = obj['spec']
    with jugrun.scratch_dir('jugv_c10r_') as root:
        home = os.environ.get('HOME')
        os.environ['HOME'] = root
        try:
            H = universe(root)
            croot = os.path.join(root, 'case')
            os.makedirs(croot)
            if 'flags' in obj:
                bad = run_exclusive(spec, croot, obj['flags'])
                print('flags', obj['flags'], '->', bad or 'rejected, store untouched')
                return 1 if bad else 0
            try:
                active, before, after, msg = run_spec(spec, H, croot)
            except CommandCrashed as e:
                print('the command raised', e.what)
                return 1
        finally:
            if home is None:
                os.environ.pop('HOME', None)
            else:
                os.environ['HOME'] = home
            fakeredis.uninstall()
    ids = intern(active, before, after)
    print('backend %s  mode %s  driver %s  jugdir spelling %s %r  message %r'
          % (spec['backend'], spec['mode'], spec['driver'], spec.get('spelling', 'abs'),
             SPELLINGS[spec.get('spelling', 'abs')][1:], msg))
    print('active   ', [ids[k] for k in active])
    print('before   ', before_summary(before, ids))
    print('after    ', before_summary(after, ids))
    bad = oracle(spec, active, before, after)
    for clause, exp, obs in bad:
        print('VIOLATED %s: expected %s observed %s' % (clause, exp, obs))
    rc = 1 if bad else 0
    if obj.get('kind') == 'correspondence':
        ck = core.Check('C10', 'quick', obj.get('seed', 0))
        mrc, out = core.make(['Model/Cleanup.vo'])
        fails = ck.cases('replay', IMPORTS, CASE_TYPE, 'run_case', [case_lit(spec, active, before, after, ids)],
                         preamble=PREAMBLE) if mrc == 0 else None
        print('model vs observed:', 'agree' if fails == [] else ('DISAGREE' if fails else 'could not evaluate'))
        if fails != []:
            rc = 1
    if not bad:
        print('all set equations of C10 hold on this run')
    return rc
