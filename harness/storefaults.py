"""Fault injection shared by the store checks (C06, C09): a `jug pack` that dies half-way.

update_pack() first copies every small result file into the in-memory pack, writes the new pack file
(resave_pack: temp file, fsync, rename, fsync of packs/) and only then unlinks the files it replaced.  A process
killed in that last loop leaves keys that are BOTH inside the pack and plain files."""
import contextlib
import os


class Killed(BaseException):
    """the process dies (not an Exception: no handler inside jug may swallow it)"""


@contextlib.contextmanager
def die_at_unlink(jd, n):
    """Inside the block the process dies at its (n+1)-th os.unlink of a result file of the jug directory jd
    (lock files, temp files and the pack do not count)."""
    real = os.unlink
    done = [0]
    jd = jd.rstrip(os.sep)
    skip = tuple(os.path.join(jd, d) + os.sep for d in ('locks', 'tempfiles', 'packs'))

    def unlink(p, *a, **k):
        sp = os.fspath(p)
        if isinstance(sp, bytes):
            sp = os.fsdecode(sp)
        if sp.startswith(jd + os.sep) and not sp.startswith(skip):
            if done[0] >= n:
                raise Killed()
            done[0] += 1
        return real(p, *a, **k)
    os.unlink = unlink
    try:
        yield
    finally:
        os.unlink = real


def killed_pack(store, jd, n):
    """the real update_pack() of `store` (a file_store on directory jd), killed at its (n+1)-th unlink of a result
    file; runs to completion when it unlinks at most n.  Returns True when it was killed."""
    try:
        with die_at_unlink(jd, n):
            store.update_pack()
    except Killed:
        return True
    return False
