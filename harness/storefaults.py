"""Fault injection shared by the store checks (C06, C09): a `jug pack` that dies half-way.

update_pack() first copies every small result file into the in-memory pack, writes the new pack file
(resave_pack: temp file, fsync, rename, fsync of packs/) and only then unlinks the files it replaced.  A process
killed in that last loop leaves keys that are BOTH inside the pack and plain files."""
import contextlib
import os


class Killed(BaseException):
    """the process dies (not an Exception: no handler inside jug may swallow it)"""


@contextlib.contextmanager
def die_at_unlink(jd, n):
    """Inside the block the process dies at its (n+1)-th os.unlink of a result file of the jug directory jd
    (lock files, temp files and the pack do not count)."""
    real = os.unlink
    done = [0]
    jd = jd.rstrip(os.sep)
    skip = tuple(os.path.join(jd, d) + os.sep for d in ('locks', 'tempfiles', 'packs'))

    def unlink(p, *a, **k):
        sp = os.fspath(p)
        if isinstance(sp, bytes):
            sp = os.fsdecode(sp)
        if sp.startswith(jd + os.sep) and not sp.startswith(skip):
            if done[0] >= n:
                raise Killed()
            done[0] += 1
        return real(p, *a, **k)
    # jug code may call it as `os.unlink` or under a name of its own (`from os import unlink`): rebind every global
    # of a loaded jug module that IS the original function
    import sys
    rebound = []
    for mname, mod in list(sys.modules.items()):
        if mod is not None and (mname == 'jug' or mname.startswith('jug.')):
            for gname, val in list(vars(mod).items()):
                if val is real:
                    setattr(mod, gname, unlink)
                    rebound.append((mod, gname))
    os.unlink = unlink
    try:
        yield
    finally:
        os.unlink = real
        for mod, gname in rebound:
            setattr(mod, gname, real)


def killed_pack(store, jd, n):
    """the real update_pack() of `store` (a file_store on directory jd), killed at its (n+1)-th unlink of a result
    file; runs to completion when it unlinks at most n.  Returns True when it was killed."""
    try:
        with die_at_unlink(jd, n):
            store.update_pack()
    except Killed:
        return True
    return False


# ---------------------------------------------------------------------------------------------------------------
# values for "a dump that does not complete" (C06)
EXCEPTIONS = {'ValueError': ValueError, 'OSError': OSError, 'TypeError': TypeError, 'KeyboardInterrupt': KeyboardInterrupt}


class Bomb:
    """an object whose pickling always raises the named exception"""

    def __init__(self, exc):
        self.exc = exc

    def __reduce__(self):
        raise EXCEPTIONS[self.exc]('injected while encoding')


def failing_value(exc, shape):
    """a value whose encoding raises `exc` after some output was produced: a list (pickle branch) or an object
    array (raw .npy branch of a file store without compress_numpy, np.save elsewhere)"""
    head = bytes(range(256)) * 12
    if shape == 'list':
        return [head, 'tail', Bomb(exc)]
    import numpy as np
    a = np.empty(3, dtype=object)
    a[0], a[1], a[2] = head, 'tail', Bomb(exc)
    return a


def _ident(x):
    return x


class Gate:
    """Gate(v) is stored as v itself, but the encoder is held inside its __reduce__ until `release` is set:
    a dump in progress (the temp file exists, the result is not published yet)."""

    def __init__(self, inner):
        import threading
        self.inner = inner
        self.entered = threading.Event()
        self.release = threading.Event()

    def __reduce__(self):
        self.entered.set()
        if not self.release.wait(120):
            raise RuntimeError('harness: a gated dump was never released')
        return (_ident, (self.inner,))


# ---------------------------------------------------------------------------------------------------------------
# The DOCUMENTED on-disk layout of a file store, read without any private method of file_store:
#   <jugdir>/<h[:2]>/<h[2:]>   one file per result        <jugdir>/packs/jugpack   the pack (a dict key -> value,
#   <jugdir>/tempfiles/        temporary files            written with jug.backends.encode)      <jugdir>/locks/
def result_path(jugdir, key):
    k = key.decode('ascii') if isinstance(key, bytes) else str(key)
    return os.path.join(jugdir, k[:2], k[2:])


def keys_on_disk(jugdir):
    """the keys (bytes) that have a result file, in sorted order"""
    out = []
    if os.path.isdir(jugdir):
        for d in sorted(os.listdir(jugdir)):
            if len(d) == 2 and os.path.isdir(os.path.join(jugdir, d)):
                for f in sorted(os.listdir(os.path.join(jugdir, d))):
                    out.append((d + f).encode('ascii'))
    return out


def pack_on_disk(jugdir):
    """the pack file's dictionary ({} when there is none), decoded with the public codec"""
    p = os.path.join(jugdir, 'packs', 'jugpack')
    if not os.path.exists(p):
        return {}
    from jug.backends.encode import decode_from
    with open(p, 'rb') as fh:
        return decode_from(fh)


def tempdir_of(jugdir):
    return os.path.join(jugdir, 'tempfiles')


def raised_in_harness(exc, root):
    """was the exception raised by harness code (a call into something jug no longer has) rather than by jug?"""
    tb = exc.__traceback__
    last = None
    while tb is not None:
        last = tb
        tb = tb.tb_next
    return last is not None and os.path.abspath(last.tb_frame.f_code.co_filename).startswith(os.path.join(root, 'harness') + os.sep)
