"""Trace validation of the multi-worker execution protocol (C01, C02, C03, C11, C12, C13).

Shared core: program generator (real jug Task objects + Gallina `program` literal + plain-Python
reference evaluation), lock-step scheduler running the REAL `jug.jug.execution_loop` in worker
threads over a proxy store / proxy locks (dict_store, file_store, packed file_store, redis_store on
harness/fakeredis.py), event recording (Model/Exec.v `ev`), case rendering for
`Model/ExecCase.v exec_case_ok`, the `exec_case_diag` second query, and the direct oracles of the six
properties (all in Python, independent of Coq).

A *scenario* is a JSON-able dict (it is the replay):
  {'program': <spec>, 'backend': 'dict'|'file'|'filepack'|'redis', 'prefill': [task idx],
   'keep_going': b, 'keep_failed': b,
   'phases': [{'pre': None|'remove_locks'|'release_failed',
               'workers': [{'nr_wait': n, 'unload': b, 'hook': None|[...]}],
               'policy': {...}, 'decisions': [[wid, action], ...] (optional: scripted replay)}]}
`run_scenario(sc)` executes it and returns a `Result` (trace, final store, locks, oracle findings)."""
import collections
import contextlib
import copy
import functools
import json
import logging
import os
import random
import threading
import time
import traceback
import types

from . import core
from .core import natlit, zlit, listlit, boollit, optlit
from . import jugrun
from . import fakeredis
from . import patching

import jug
import jug.jug
import jug.task
import jug.hash
import jug.mapreduce
import jug.utils
import jug.unsafe
import jug.hooks
import jug.hooks.register
import jug.hooks.exit_checks
from jug import Task, Tasklet
from jug.task import _get_check, _getitem
from jug.backends.dict_store import dict_store
from jug.backends.file_store import file_store
from jug.backends.redis_store import redis_store

IMPORTS = 'From JugV Require Import Model.MapReduce Model.Slice Model.Deps Model.Exec Model.ExecCase.'
BACKENDS = ('dict', 'file', 'filepack', 'redis')
KWNAMES = ('a', 'b', 'c', 'd')
FN_MODULE = 'jugv_exec_fns'
RUN_TIMEOUT = float(os.environ.get('VERIF_EXEC_RUN_TIMEOUT', '30'))
MAX_STEPS = 6000


class HarnessError(RuntimeError):
    pass


class _Killed(BaseException):
    """raised in a worker thread that was 'SIGKILLed' by the scheduler"""


class _Abort(BaseException):
    """raised in worker threads when the harness gives up on a run"""


_tl = threading.local()


def _me():
    return getattr(_tl, 'worker', None)


# ================================================================ values
class H:
    """The free ("Herbrand") result of a generated task function: records exactly what it received.
    Deliberately not indexable / iterable."""

    def __init__(self, fn, args, kwargs):
        self.fn = fn                    # int: function id k of f<k>
        self.args = tuple(args)
        self.kwargs = tuple(kwargs)     # ((name, value), ...) in sorted-name order

    def __eq__(self, o):
        return type(o) is H and canon(self) == canon(o)

    def __ne__(self, o):
        return not self.__eq__(o)

    def __hash__(self):
        return hash(canon(self))

    def __repr__(self):
        return 'H(f%d, %r, %r)' % (self.fn, self.args, self.kwargs)

    def __reduce__(self):
        # serialising a result takes time: the first H pickled inside a store.dump() of a worker is a scheduling point ("inside dump"),
        # where a stop request or a kill can arrive
        _pickle_hook()
        return (H, (self.fn, self.args, self.kwargs))

    def __jug_hash__(self):
        # structural: an H passed as a plain argument (the value a bvalue() returned) must hash by content, not by how
        # its parts happen to be shared in memory (jug pickles unknown objects, and pickle memoises shared sub-objects)
        return jug.hash.hash_one(('jugv-H', self.fn, self.args, self.kwargs))


# instances of container SUBCLASSES as plain argument values: jug's value() leaves them alone (it rebuilds exact list / tuple / dict only),
# so the task function must receive the very same kind of object
Pair = collections.namedtuple('Pair', ['x', 'y'])


class MyList(list):
    pass


def sub_py(cls, vs):
    v = vs_py(vs)
    if cls == 'pair':
        return Pair(*v)
    if cls == 'mylist':
        return MyList(v)
    if cls == 'odict':
        return collections.OrderedDict(v.items())
    if cls == 'ddict':
        return collections.defaultdict(None, v)
    raise ValueError(cls)


_active_rt = None


def _pickle_hook():
    w = _me()
    rt = _active_rt
    if w is None or rt is None or not w.in_dump or w.dump_hooked:
        return
    w.dump_hooked = True
    rt.point(w, 'pickle', w.in_dump)


def _keyc(k):
    if type(k) == int:
        return (0, k)
    if type(k) == str:
        return (1, k)
    raise ValueError('unsupported dict key %r' % (k,))


def canon(o):
    """Python run-time value -> hashable, type-tagged normal form (dicts in sorted-key order)."""
    t = type(o)
    if t is H:
        return ('h', o.fn, tuple(canon(x) for x in o.args), tuple((n, canon(v)) for n, v in o.kwargs))
    if t is Pair:
        return ('sub', 'Pair', canon(tuple(o)))
    if t is MyList:
        return ('sub', 'MyList', canon(list(o)))
    if t is collections.OrderedDict:
        return ('sub', 'OrderedDict', tuple((_keyc(k), canon(v)) for k, v in o.items()))
    if t is collections.defaultdict:
        return ('sub', 'defaultdict', canon(dict(o)))
    if t == bool or o is None or t in (float, str, bytes):
        return ('a', repr(o))
    if t == int:
        return ('i', o)
    if t == slice:
        for x in (o.start, o.stop, o.step):
            if x is not None and type(x) != int:
                raise ValueError('unsupported slice %r' % (o,))
        return ('s', o.start, o.stop, o.step)
    if t == list:
        return ('l', tuple(canon(x) for x in o))
    if t == tuple:
        return ('t', tuple(canon(x) for x in o))
    if t == dict:
        return ('d', tuple((_keyc(k), canon(v)) for k, v in sorted(o.items(), key=lambda kv: _keyc(kv[0]))))
    raise ValueError('cannot encode value %r of type %s' % (o, t.__name__))


def canon_show(c):
    """canonical form -> short readable string (replays)"""
    k = c[0]
    if k == 'h':
        inner = [canon_show(x) for x in c[2]] + ['%s=%s' % (n, canon_show(v)) for n, v in c[3]]
        return 'f%d(%s)' % (c[1], ', '.join(inner))
    if k == 'a':
        return c[1]
    if k == 'sub':
        return '%s(%s)' % (c[1], canon_show(c[2]) if c[2] and isinstance(c[2][0], str) else repr(c[2]))
    if k == 'i':
        return str(c[1])
    if k == 's':
        return 'slice(%r,%r,%r)' % (c[1], c[2], c[3])
    if k == 'l':
        return '[' + ', '.join(canon_show(x) for x in c[1]) + ']'
    if k == 't':
        return '(' + ', '.join(canon_show(x) for x in c[1]) + ',)'
    if k == 'd':
        return '{' + ', '.join('%r: %s' % (kk[1], canon_show(v)) for kk, v in c[1]) + '}'
    return repr(c)


class Interner:
    def __init__(self, start=1):
        self.d = {}
        self.start = start

    def __call__(self, x):
        if x not in self.d:
            self.d[x] = self.start + len(self.d)
        return self.d[x]


def pos(i):
    return '%d%%positive' % i


def canon_coq(c, atoms):
    k = c[0]
    if k == 'h':
        return '(VApp %s %s %s)' % (pos(c[1] + 1), listlit([canon_coq(x, atoms) for x in c[2]]),
                                    listlit(['(%s, %s)' % (pos(KWNAMES.index(n) + 1), canon_coq(v, atoms)) for n, v in c[3]]))
    if k == 'a':
        return '(VAtom %s)' % pos(atoms(c[1]))
    if k == 'sub':
        return '(VAtom %s)' % pos(atoms(repr(c)))          # an opaque object: identified by its class and content
    if k == 'i':
        return '(VInt %s)' % zlit(c[1])
    if k == 's':
        f = lambda v: optlit(None if v is None else zlit(v))
        return '(VSlice {| sl_start := %s; sl_stop := %s; sl_step := %s |})' % (f(c[1]), f(c[2]), f(c[3]))
    if k == 'l':
        return '(VList %s)' % listlit([canon_coq(x, atoms) for x in c[1]])
    if k == 't':
        return '(VTuple %s)' % listlit([canon_coq(x, atoms) for x in c[1]])
    if k == 'd':
        return '(VDict %s)' % listlit(['(%s, %s)' % (key_coq(kk, atoms), canon_coq(v, atoms)) for kk, v in c[1]])
    raise ValueError(c)


def key_coq(kk, atoms):
    if kk[0] == 0:
        return '(KInt %s)' % zlit(kk[1])
    return '(KAtom %s)' % pos(atoms(repr(kk[1])))


# ---- plain values of the program text (JSON form):  ['i', n] | ['a', x] | ['l', [..]] | ['t', [..]] | ['d', [[k, v]..]] | ['s', a, b, c]
def vs_py(vs):
    k = vs[0]
    if k == 'i' or k == 'a':
        return vs[1]
    if k == 'l':
        return [vs_py(x) for x in vs[1]]
    if k == 't':
        return tuple(vs_py(x) for x in vs[1])
    if k == 'd':
        return {kk: vs_py(v) for kk, v in vs[1]}
    if k == 's':
        return slice(vs[1], vs[2], vs[3])
    raise ValueError(vs)


# ================================================================ task functions (free constructors)
class TaskRaises(RuntimeError):
    pass


def apply_kind(k, kind, args, kwargs):
    """what function f<k> of the given kind computes (pure)"""
    h = H(k, args, tuple(sorted(kwargs.items())))
    if kind[0] == 'app':
        return h
    if kind[0] == 'list':
        return [h] + list(range(1, kind[1] + 1))
    if kind[0] == 'tuple':
        return tuple([h] + list(range(1, kind[1] + 1)))
    if kind[0] == 'dict':
        return {0: h, 1: 1}
    if kind[0] == 'raise':
        raise TaskRaises('f%d raises' % k)
    raise ValueError(kind)


def kind_coq(kind):
    return {'app': 'FkApp', 'list': '(FkList %s)' % natlit(kind[1] if len(kind) > 1 else 0),
            'tuple': '(FkTuple %s)' % natlit(kind[1] if len(kind) > 1 else 0), 'dict': 'FkDict', 'raise': 'FkRaise'}[kind[0]]


def wrap1(x):
    return (x,)


def _custom_hash(obj):
    return jug.hash.hash_one(('jugv-custom', obj))


_direct_call = None      # set by Runtime while a run is active: f(k, kind, args, kwargs) -> value


def make_fn(k, kind):
    kind = tuple(kind)

    def f(*args, **kwargs):
        if _direct_call is not None and _me() is not None:
            return _direct_call(k, kind, args, kwargs)
        return apply_kind(k, kind, args, kwargs)
    f.__name__ = 'f%d' % k
    f.__qualname__ = 'f%d' % k
    f.__module__ = FN_MODULE
    return f


# ================================================================ programs
# argument spec (JSON):
#  ['val', vs] | ['task', j] | ['list', [a..]] | ['tuple', [a..]] | ['dict', [[key, a]..]] (keys sorted)
#  ['getitem', base, idx] | ['fun', base, ['wrap'] | ['getcheck', i, n]]
#  ['mapseq', [blocks], bs, len] | ['mapslice', [blocks], bs, len, [[a,b,c]..]] | ['mapitem', [blocks], bs, len, p]
#  ['custom', a] | ['nohash', vs] | ['identity', a]
class Built:
    """one realisation of a program as real jug objects (every worker needs its own)"""

    def __init__(self, spec):
        self.spec = spec
        self.fns = {int(k): make_fn(int(k), kind) for k, kind in spec['fns'].items()}
        self.tasks = []
        self.argobjs = []      # per task: ([positional objects], [(name, object)])
        n0 = len(jug.task.alltasks)
        for ts in spec['tasks']:
            args = [self.obj(a) for a in ts['args']]
            kwargs = [(n, self.obj(a)) for n, a in ts['kwargs']]
            t = Task(self.fns[ts['fn']], *args, **dict(kwargs))
            self.tasks.append(t)
            self.argobjs.append((args, kwargs))
        del jug.task.alltasks[n0:]
        self.hashes = [t.hash() for t in self.tasks]

    def obj(self, a):
        k = a[0]
        if k == 'val':
            return vs_py(a[1])
        if k == 'pyval':
            return a[1]
        if k == 'sub':
            return sub_py(a[1], a[2])
        if k == 'task':
            return self.tasks[a[1]]
        if k == 'list':
            return [self.obj(x) for x in a[1]]
        if k == 'tuple':
            return tuple(self.obj(x) for x in a[1])
        if k == 'dict':
            return {kk: self.obj(x) for kk, x in a[1]}
        if k == 'getitem':
            return self.obj(a[1])[self.obj(a[2])]
        if k == 'fun':
            base = self.obj(a[1])
            if a[2][0] == 'wrap':
                return Tasklet(base, wrap1)
            return Tasklet(base, functools.partial(_get_check, i=a[2][1], n=a[2][2]))
        if k in ('mapseq', 'mapslice', 'mapitem'):
            m = jug.mapreduce.block_access([self.tasks[j] for j in a[1]], a[2], a[3])
            if k == 'mapseq':
                return m
            if k == 'mapitem':
                return m[a[4]]
            for sl in a[4]:
                m = m[slice(*sl)]
            return m
        if k == 'custom':
            return jug.utils.CustomHash(self.obj(a[1]), _custom_hash)
        if k == 'nohash':
            return jug.unsafe.NoHash(vs_py(a[1]))
        if k == 'identity':
            return jug.utils.identity(self.obj(a[1]))
        raise ValueError(a)


def arg_coq(a, atoms):
    k = a[0]
    if k == 'val':
        return '(AVal %s)' % canon_coq(canon(vs_py(a[1])), atoms)
    if k == 'pyval':
        return '(AVal %s)' % canon_coq(canon(a[1]), atoms)
    if k == 'sub':
        return '(AVal %s)' % canon_coq(canon(sub_py(a[1], a[2])), atoms)
    if k == 'task':
        return '(ATask %s)' % pos(a[1] + 1)
    if k == 'list':
        return '(AList %s)' % listlit([arg_coq(x, atoms) for x in a[1]])
    if k == 'tuple':
        return '(ATuple %s)' % listlit([arg_coq(x, atoms) for x in a[1]])
    if k == 'dict':
        return '(ADict %s)' % listlit(['(%s, %s)' % (key_coq(_keyc(kk), atoms), arg_coq(x, atoms)) for kk, x in a[1]])
    if k == 'getitem':
        return '(AGetitem %s %s)' % (arg_coq(a[1], atoms), arg_coq(a[2], atoms))
    if k == 'fun':
        if a[2][0] == 'wrap':
            return '(AFun %s FWrap)' % arg_coq(a[1], atoms)
        return '(AFun %s (FGetCheck %s %s))' % (arg_coq(a[1], atoms), natlit(a[2][1]), natlit(a[2][2]))
    if k in ('mapseq', 'mapslice', 'mapitem'):
        blocks, bs, ln = a[1], a[2], a[3]
        head = '%s %s %s' % (listlit([pos(j + 1) for j in blocks]), natlit(bs), zlit(ln))
        if k == 'mapseq':
            return '(AMapSeq %s)' % head
        if k == 'mapitem':
            p = a[4]
            if p < 0:
                p += ln
            if not (0 <= p < ln):
                raise ValueError('mapitem out of range')
            return '(AGetitem (ATask %s) (AVal (VInt %s)))' % (pos(blocks[p // bs] + 1), zlit(p % bs))
        r = range(*slice(*a[4][0]).indices(ln))         # what block_access.__getitem__ / block_access_slice.__getitem__ build
        for sl in a[4][1:]:
            r = r[slice(*sl)]
        return '(AMapSlice %s {| r_start := %s; r_stop := %s; r_step := %s |})' % (head, zlit(r.start), zlit(r.stop), zlit(r.step))
    if k == 'custom':
        return '(ACustom %s)' % arg_coq(a[1], atoms)
    if k == 'nohash':
        return '(ANoHashVal %s)' % canon_coq(canon(vs_py(a[1])), atoms)
    if k == 'identity':
        return arg_coq(a[1], atoms)
    raise ValueError(a)


def program_coq(spec, keep_going, keep_failed, atoms):
    ts = []
    for i, t in enumerate(spec['tasks']):
        ts.append('(Build_task %s %s %s %s)' % (
            pos(i + 1), pos(t['fn'] + 1), listlit([arg_coq(a, atoms) for a in t['args']]),
            listlit(['(%s, %s)' % (pos(KWNAMES.index(n) + 1), arg_coq(a, atoms)) for n, a in t['kwargs']])))
    kinds = ['(%s, %s)' % (pos(int(k) + 1), kind_coq(kind)) for k, kind in sorted(spec['fns'].items(), key=lambda kv: int(kv[0]))
             if kind[0] != 'app']
    return '(Build_program %s %s %s %s)' % (listlit(ts), listlit(kinds), boollit(keep_going), boollit(keep_failed))


# ---- reference: the same program text as ordinary nested Python calls (no jug) -------------------
class Blocked(Exception):
    """an argument needs the value of a task that has none (it raised / depends on one that raised / not stored)"""


def ref_arg(a, val_of):
    """plain-Python meaning of an argument; `val_of(j)` = value of task j (raises Blocked)"""
    k = a[0]
    if k == 'val':
        return vs_py(a[1])
    if k == 'pyval':
        return a[1]
    if k == 'sub':
        return sub_py(a[1], a[2])
    if k == 'task':
        return val_of(a[1])
    if k == 'list':
        return [ref_arg(x, val_of) for x in a[1]]
    if k == 'tuple':
        return tuple(ref_arg(x, val_of) for x in a[1])
    if k == 'dict':
        return {kk: ref_arg(x, val_of) for kk, x in a[1]}
    if k == 'getitem':
        return ref_arg(a[1], val_of)[ref_arg(a[2], val_of)]
    if k == 'fun':
        o = ref_arg(a[1], val_of)
        if a[2][0] == 'wrap':
            return (o,)
        i, n = a[2][1], a[2][2]
        if len(o) != n:
            raise ValueError('expected %d got %d' % (n, len(o)))
        return o[i]
    if k == 'mapitem':
        # one element of a mapped sequence: the built-in map would give whole[p]; only the block holding it is needed
        blocks, bs, ln, p = a[1], a[2], a[3], a[4]
        q = p + ln if p < 0 else p
        if not (0 <= q < ln):
            raise IndexError(p)
        return val_of(blocks[q // bs])[q % bs]
    if k in ('mapseq', 'mapslice'):
        whole = []
        for j in a[1]:
            whole.extend(val_of(j))        # a mapped sequence is the list the built-in map would give
        if k == 'mapseq':
            return whole
        for sl in a[4]:
            whole = whole[slice(*sl)]
        return whole
    if k == 'custom' or k == 'identity':
        return ref_arg(a[1], val_of)
    if k == 'nohash':
        return vs_py(a[1])
    raise ValueError(a)


def arg_tasks(a, out=None):
    """every task index occurring anywhere in an argument spec (syntactic)"""
    if out is None:
        out = set()
    k = a[0]
    if k == 'task':
        out.add(a[1])
    elif k in ('list', 'tuple'):
        for x in a[1]:
            arg_tasks(x, out)
    elif k == 'dict':
        for _, x in a[1]:
            arg_tasks(x, out)
    elif k == 'getitem':
        arg_tasks(a[1], out)
        arg_tasks(a[2], out)
    elif k in ('fun', 'custom', 'identity'):
        arg_tasks(a[1], out)
    elif k in ('mapseq', 'mapslice'):
        out.update(a[1])
    elif k == 'mapitem':
        q = a[4] + a[3] if a[4] < 0 else a[4]
        out.add(a[1][q // a[2]])
    return out


def task_deps_spec(ts):
    out = set()
    for a in ts['args']:
        arg_tasks(a, out)
    for _, a in ts['kwargs']:
        arg_tasks(a, out)
    return out


def ref_task(spec, i, val_of):
    ts = spec['tasks'][i]
    args = [ref_arg(a, val_of) for a in ts['args']]
    kwargs = {n: ref_arg(a, val_of) for n, a in ts['kwargs']}
    return apply_kind(ts['fn'], tuple(spec['fns'][str(ts['fn'])]), args, kwargs)


def ref_program(spec, given=None):
    """sequential evaluation in definition order -> list of ('ok', value) | ('raise',) | ('blocked',)"""
    out = []

    def val_of(j):
        if out[j][0] != 'ok':
            raise Blocked(j)
        return out[j][1]
    for i in range(len(spec['tasks'])):
        if given is not None and i in given:
            out.append(('ok', given[i]))
            continue
        try:
            out.append(('ok', ref_task(spec, i, val_of)))
        except Blocked:
            out.append(('blocked',))
        except Exception:
            out.append(('raise',))
    return out


# ---- independent walk over the REAL argument objects (C03 oracle) --------------------------------
def real_tasks_under(o, out):
    if isinstance(o, Task):
        out.append(o)
    elif isinstance(o, Tasklet):
        real_tasks_under(o.base, out)
        f = o.f
        if isinstance(f, _getitem):
            real_tasks_under(f.slice, out)
    elif isinstance(o, (list, tuple)):
        for x in o:
            real_tasks_under(x, out)
    elif isinstance(o, dict):
        for kk, x in o.items():
            real_tasks_under(x, out)
    elif isinstance(o, jug.mapreduce.block_access):
        for b in o.blocks:
            real_tasks_under(b, out)
    elif isinstance(o, jug.mapreduce.block_access_slice):
        real_tasks_under(o.base, out)
    elif isinstance(o, jug.utils.CustomHash):
        real_tasks_under(o.obj, out)
    return out


# ================================================================ program generator
def _gen_plain(rng, depth=1):
    r = rng.random()
    if depth <= 0 or r < 0.6:
        x = rng.choice([0, 1, 2, 7, -3, 'a', 'b', None, 1.5, True])
        return ['i', x] if type(x) == int else ['a', x]
    if r < 0.8:
        return ['l', [_gen_plain(rng, depth - 1) for _ in range(rng.randint(0, 2))]]
    if r < 0.9:
        return ['t', [_gen_plain(rng, depth - 1) for _ in range(rng.randint(0, 2))]]
    keys = sorted(rng.sample([0, 1, 'a', 'b'], rng.randint(0, 2)), key=_keyc)
    return ['d', [[k, _gen_plain(rng, depth - 1)] for k in keys]]


class ProgGen:
    """Generator of program specs.  `clean=True`: no function raises and every tasklet operation is valid
    (the run can complete); `clean=False`: raising functions and invalid tasklet operations may occur."""

    def __init__(self, rng, ntasks, clean=True, rich=0.6, p_raise=0.0, use_map=False, chainy=0.5, map_heavy=False, single_path=0.0):
        self.rng = rng
        self.n = ntasks
        self.clean = clean
        self.rich = rich
        self.p_raise = p_raise
        self.use_map = use_map or map_heavy
        self.map_heavy = map_heavy
        self.single_path = single_path      # probability that a task gets exactly one task-carrying argument: every dependency edge
                                            # then enters through ONE syntactic path, so an edge the walk drops is not masked by another
        self.chainy = chainy
        self.fns = {}
        self.tasks = []
        self.maps = []          # (blocks, bs, len)

    def kind_of_task(self, j):
        return self.fns[str(self.tasks[j]['fn'])]

    def new_fn(self, kind):
        k = len(self.fns)
        self.fns[str(k)] = list(kind)
        return k

    def pick_fn(self):
        rng = self.rng
        if self.fns and rng.random() < 0.35:
            ks = [int(k) for k, kind in self.fns.items() if not kind[0] == 'raise' and not kind[-1] == 'blk']
            if ks:
                return rng.choice(ks)
        r = rng.random()
        if r < self.p_raise:
            return self.new_fn(['raise'])
        r = rng.random()
        if r < 0.45:
            return self.new_fn(['app'])
        if r < 0.70:
            return self.new_fn(['list', rng.randint(0, 3)])
        if r < 0.88:
            return self.new_fn(['tuple', rng.randint(0, 3)])
        return self.new_fn(['dict'])

    # -- arguments over tasks 0..i-1
    def gen_task(self, i):
        if self.rng.random() < self.chainy:
            return ['task', i - 1]
        return ['task', self.rng.randrange(i)]

    def indexable(self, i):
        return [j for j in range(i) if self.kind_of_task(j)[0] in ('list', 'tuple', 'dict')]

    def gen_tasklet(self, i, depth):
        """a tasklet over earlier tasks, possibly a chain: further links on top of a first link (Tasklet(x, wrap) is valid on
        anything, and its 1-tuple can be indexed / sliced / checked again)"""
        rng = self.rng
        a = self.gen_tasklet1(i, depth)
        inner_needs_a_task = a[0] == 'getitem' and a[2][0] != 'val'      # the first link's index is itself a task(let)
        if rng.random() < (0.6 if inner_needs_a_task else 0.25):
            a = ['fun', a, ['wrap']]
            r = rng.random()
            if r < 0.4:
                a = ['getitem', a, ['val', ['i', rng.choice([0, -1])]]]
            elif r < 0.55:
                a = ['fun', a, ['getcheck', 0, 1]]
            elif r < 0.65:
                a = ['getitem', a, ['val', ['s', None, None, None]]]
        return a

    def gen_tasklet1(self, i, depth):
        rng = self.rng
        cands = self.indexable(i)
        if not cands or (not self.clean and rng.random() < 0.15):
            j = rng.randrange(i)            # any task: indexing a free object raises
        else:
            j = rng.choice(cands)
        kind = self.kind_of_task(j)
        base = ['task', j]
        r = rng.random()
        if not self.clean and rng.random() < 0.2:
            # an index that is a tuple / list holding a task (table[row, 0]): the look-up itself fails on these values, but only
            # after `row` has been resolved - it is a dependency all the same
            others = [u for u in range(i) if u != j] or [j]
            return ['getitem', base, [rng.choice(['tuple', 'list']), [['task', rng.choice(others)], ['val', ['i', 0]]]]]
        if r < 0.12:
            return ['fun', base, ['wrap']]
        if kind[0] in ('list', 'tuple'):
            n = kind[1] + 1
            if r < 0.24:
                good = (rng.randrange(n), n)
                if not self.clean and rng.random() < 0.3:
                    good = (rng.randrange(n), n + 1)
                return ['fun', base, ['getcheck', good[0], good[1]]]
            if r < 0.40:
                sl = [rng.choice([None, 0, 1]), rng.choice([None, n, n - 1, -1]), rng.choice([None, 1, 2, -1])]
                first = ['getitem', base, ['val', ['s'] + sl]]
                m = len(range(n)[slice(*sl)])
                if m > 0 and rng.random() < 0.6:
                    idx = rng.randrange(-m, m)
                    return ['getitem', first, ['val', ['i', idx]]]
                return first
            if r < (0.70 if self.single_path else 0.55) and depth > 0 and n > 1:
                # task(let)-valued index: base[u[p]] where u[p] is an int < n
                us = [u for u in self.indexable(i) if self.kind_of_task(u)[0] in ('list', 'tuple') and self.kind_of_task(u)[1] >= 1]
                if len(us) > 1:
                    us = [u for u in us if u != j]          # an index coming from ANOTHER task
                if us:
                    u = rng.choice(us)
                    p = rng.randint(1, self.kind_of_task(u)[1])
                    if p < n or not self.clean:
                        return ['getitem', base, ['getitem', ['task', u], ['val', ['i', p]]]]
            idx = rng.randrange(-n, n)
            if not self.clean and rng.random() < 0.2:
                idx = n + 1
            return ['getitem', base, ['val', ['i', idx]]]
        if kind[0] == 'dict':
            idx = rng.choice([0, 1])
            if not self.clean and rng.random() < 0.2:
                idx = 5
            return ['getitem', base, ['val', ['i', idx]]]
        # free object / raising function: any operation on it is invalid (only generated when not clean)
        if not self.clean:
            if rng.random() < 0.5:
                return ['getitem', base, ['task', rng.randrange(i)]]       # task-valued index
            return ['getitem', base, ['val', ['i', 0]]]
        return ['fun', base, ['wrap']]

    def gen_bound(self, ln):
        """a slice bound: absent, or any position from beyond the left end to beyond the right end"""
        rng = self.rng
        if rng.random() < 0.35:
            return None
        return rng.randrange(-ln - 1, ln + 2)

    def gen_mapped(self, i):
        rng = self.rng
        ms = [m for m in self.maps if all(b < i for b in m[0])]
        if not ms:
            return self.gen_task(i)
        blocks, bs, ln = rng.choice(ms)
        r = rng.random()
        if r < 0.2:
            return ['mapseq', blocks, bs, ln]
        if r < 0.3:
            return ['mapitem', blocks, bs, ln, rng.randrange(-ln, ln)]
        if r < 0.45:
            # a chunk as jug.mapreduce._break_up cuts it when a mapped sequence is mapped again: seq[k*step:(k+1)*step]
            step = rng.choice([1, 2, 3, 4])
            k = rng.randrange((ln + step - 1) // step)
            return ['mapslice', blocks, bs, ln, [[k * step, (k + 1) * step, None]]]
        sls = [[self.gen_bound(ln), self.gen_bound(ln), rng.choice([None, None, 1, 2, 3, -1, -1, -2])]]
        k = len(range(ln)[slice(*sls[0])])
        if k > 0 and rng.random() < 0.3:
            sls.append([self.gen_bound(k), self.gen_bound(k), rng.choice([None, 1, 2, -1])])
        return ['mapslice', blocks, bs, ln, sls]

    def gen_sub(self):
        """a plain argument that is an instance of a container subclass (namedtuple, list subclass, OrderedDict, defaultdict)"""
        rng = self.rng
        cls = rng.choice(['pair', 'mylist', 'odict', 'ddict'])
        if cls == 'pair':
            return ['sub', cls, ['t', [_gen_plain(rng, 1), _gen_plain(rng, 0)]]]
        if cls == 'mylist':
            return ['sub', cls, ['l', [_gen_plain(rng, 0) for _ in range(rng.randint(0, 3))]]]
        keys = rng.sample([0, 1, 'a', 'b'], rng.randint(1, 3))
        if cls == 'ddict':
            keys = sorted(keys, key=_keyc)
        return ['sub', cls, ['d', [[k, _gen_plain(rng, 0)] for k in keys]]]

    def gen_arg(self, i, depth=2):
        rng = self.rng
        if i == 0:
            return ['val', _gen_plain(rng, 1)] if rng.random() < 0.85 else self.gen_sub()
        if self.map_heavy and self.maps and rng.random() < 0.45:
            return self.gen_mapped(i)
        r = rng.random()
        if r > self.rich:
            return self.gen_task(i) if rng.random() < 0.8 else ['val', _gen_plain(rng, 1)]
        r = rng.random()
        if depth <= 0 or r < 0.10:
            return ['val', _gen_plain(rng, 1)]
        if r < 0.28:
            return self.gen_task(i)
        if r < 0.40:
            return ['list', [self.gen_arg(i, depth - 1) for _ in range(rng.randint(0, 3))]]
        if r < 0.48:
            return ['tuple', [self.gen_arg(i, depth - 1) for _ in range(rng.randint(0, 3))]]
        if r < 0.56:
            keys = sorted(rng.sample([0, 1, 'a', 'b', 'c'], rng.randint(0, 3)), key=_keyc)
            return ['dict', [[k, self.gen_arg(i, depth - 1)] for k in keys]]
        if r < 0.78:
            return self.gen_tasklet(i, depth)
        if r < 0.86 and self.maps:
            return self.gen_mapped(i)
        if r < 0.89:
            return ['custom', self.gen_arg(i, depth - 1)]
        if r < 0.93:
            return self.gen_sub()
        if r < 0.95:
            return ['nohash', _gen_plain(rng, 1)]
        inner = self.gen_task(i) if rng.random() < 0.5 else self.gen_tasklet(i, depth - 1)
        return ['identity', inner]

    def generate(self):
        rng = self.rng
        if self.use_map and self.n >= 3:
            bs = rng.choice([2, 3, 4] if self.map_heavy else [2, 3])
            nb = rng.choice([1, 2]) if self.n >= 4 else 1
            if self.map_heavy and self.n >= 4:
                nb = rng.choice([2, 2, 3]) if self.n >= 5 else 2
            last = rng.randint(1, bs)
            blocks = []
            for b in range(nb):
                ln = bs if b < nb - 1 else last
                k = self.new_fn(['list', ln - 1, 'blk'])
                self.tasks.append({'fn': k, 'args': [['val', ['i', 1000 + b]]] + ([self.gen_arg(len(self.tasks), 1)] if self.tasks and rng.random() < 0.5 else []),
                                   'kwargs': []})
                blocks.append(len(self.tasks) - 1)
            self.maps.append((blocks, bs, bs * (nb - 1) + last))
        while len(self.tasks) < self.n:
            i = len(self.tasks)
            k = self.pick_fn()
            if i > 1 and rng.random() < self.single_path:
                rich, self.rich = self.rich, 1.0
                one = self.gen_tasklet(i, 2) if rng.random() < 0.6 else self.gen_arg(i)
                self.rich = rich
                args = [['val', ['i', i]], one] if rng.random() < 0.5 else [one]
                kwargs = [['a', ['val', _gen_plain(rng, 1)]]] if rng.random() < 0.2 else []
                if rng.random() < 0.3:
                    args, kwargs = args[:-1], [['b', one]]
                self.tasks.append({'fn': k, 'args': args, 'kwargs': kwargs})
                continue
            nargs = rng.choice([0, 1, 1, 2, 2, 3]) if i > 0 else rng.choice([0, 1])
            args = [self.gen_arg(i) for _ in range(nargs)]
            names = sorted(rng.sample(KWNAMES[:3], rng.choice([0, 0, 1, 2]))) if i > 0 else []
            kwargs = [[n, self.gen_arg(i)] for n in names]
            if i > 0 and not task_deps_spec({'args': args, 'kwargs': kwargs}) and rng.random() < 0.7:
                args.append(self.gen_task(i))       # keep the DAG connected most of the time
            self.tasks.append({'fn': k, 'args': args, 'kwargs': kwargs})
        fns = {k: [x for x in kind if x != 'blk'] for k, kind in self.fns.items()}
        return {'fns': fns, 'tasks': self.tasks}


def make_distinct(spec):
    """two tasks with the same hash are ONE task for jug: give every task of the program its own hash"""
    for attempt in range(4):
        b = Built(spec)
        seen = {}
        dup = []
        for i, h in enumerate(b.hashes):
            if h in seen:
                dup.append(i)
            seen.setdefault(h, i)
        if not dup:
            return spec
        for i in dup:
            spec['tasks'][i]['args'].append(['val', ['i', 5000 + 10 * i + attempt]])
    raise HarnessError('could not make task hashes distinct')


def gen_program(rng, ntasks, **kw):
    return make_distinct(ProgGen(rng, ntasks, **kw).generate())


def chain_program(n, kinds=None, fail=None):
    """f0() -> f1(t0) -> ... ; hand-written shapes for the systematic scenarios"""
    fns, tasks = {}, []
    for i in range(n):
        fns[str(i)] = list((kinds or {}).get(i, ['app']))
        if fail is not None and i in fail:
            fns[str(i)] = ['raise']
        tasks.append({'fn': i, 'args': [['val', ['i', i]]] + ([['task', i - 1]] if i else []), 'kwargs': []})
    return {'fns': fns, 'tasks': tasks}


def deep_chain_program(n, order=('R', 'D', 'C', 'U')):
    """a chain of n trivial tasks c0 <- c1 <- ... (each takes element 1 of the previous one, so the values do not nest), then in the given
    order: R (raises), D(R), C(c_{n-1}[1]) and the unrelated U.  Meant to be run with the chain already stored and a lowered recursion limit:
    anything that walks the chain recursively while handling R's failure breaks."""
    fns = {'0': ['list', 1], '1': ['raise'], '2': ['app'], '3': ['app'], '4': ['app']}
    tasks = []
    for i in range(n):
        tasks.append({'fn': 0, 'args': [['val', ['i', i]]] + ([['getitem', ['task', i - 1], ['val', ['i', 1]]]] if i else []), 'kwargs': []})
    pos = {}
    for name in order:
        pos[name] = len(tasks)
        if name == 'R':
            tasks.append({'fn': 1, 'args': [['val', ['i', 0]]], 'kwargs': []})
        elif name == 'D':
            tasks.append({'fn': 2, 'args': [['task', pos['R']]], 'kwargs': []})
        elif name == 'C':
            tasks.append({'fn': 3, 'args': [['getitem', ['task', n - 1], ['val', ['i', 1]]]], 'kwargs': []})
        else:
            tasks.append({'fn': 4, 'args': [['val', ['i', 7]]], 'kwargs': []})
    return {'fns': fns, 'tasks': tasks}


def wide_program(ndep, nindep, fail=True, before=0):
    """one root task, `ndep` trivial tasks that take (an element of) it, then `nindep` independent tasks (`before` of them defined in
    front of the dependents).  With more than 128 dependents the scheduler's bounded look-ahead (max_cannot_run) is crossed."""
    fns = {'0': ['raise'] if fail else ['list', 1], '1': ['app'], '2': ['app']}
    tasks = [{'fn': 0, 'args': [['val', ['i', 0]]], 'kwargs': []}]
    for i in range(before):
        tasks.append({'fn': 2, 'args': [['val', ['i', 900 + i]]], 'kwargs': []})
    for i in range(ndep):
        tasks.append({'fn': 1, 'args': [['val', ['i', i]], ['task', 0] if fail else ['getitem', ['task', 0], ['val', ['i', 1]]]], 'kwargs': []})
    for i in range(nindep - before):
        tasks.append({'fn': 2, 'args': [['val', ['i', 950 + i]]], 'kwargs': []})
    return {'fns': fns, 'tasks': tasks}


def small_program(shape, fail=()):
    """small DAGs by name: 'chain2','chain3','fork' (t0; t1(t0); t2(t0)), 'join' (t0; t1; t2(t0,t1)), 'indep2', 'indep3', 'diamond'"""
    edges = {'one': [[]], 'chain2': [[], [0]], 'chain3': [[], [0], [1]], 'fork': [[], [0], [0]], 'join': [[], [], [0, 1]],
             'indep2': [[], []], 'indep3': [[], [], []], 'diamond': [[], [0], [0], [1, 2]]}[shape]
    fns, tasks = {}, []
    for i, ds in enumerate(edges):
        fns[str(i)] = ['raise'] if i in fail else (['list', 1] if i == 0 else ['app'])
        tasks.append({'fn': i, 'args': [['val', ['i', i]]] + [['task', d] for d in ds], 'kwargs': []})
    return {'fns': fns, 'tasks': tasks}


# ================================================================ backends
class Backend:
    """opens real store objects on one shared medium"""

    def __init__(self, kind):
        self.kind = kind
        self.stack = contextlib.ExitStack()
        self.server = None
        self.dir = None
        self.shared = None

    def __enter__(self):
        if self.kind == 'dict':
            self.shared = dict_store()
        elif self.kind in ('file', 'filepack'):
            d = self.stack.enter_context(jugrun.scratch_dir('jugvx'))
            self.dir = os.path.join(d, 'jd')
        elif self.kind == 'redis':
            self.server = fakeredis.FakeServer()
            fakeredis.install(self.server)
            self.stack.callback(fakeredis.uninstall)
        else:
            raise ValueError(self.kind)
        return self

    def __exit__(self, *a):
        self.stack.close()
        return False

    def open(self):
        """a store object as a new process would create it"""
        if self.kind == 'dict':
            return self.shared
        if self.kind in ('file', 'filepack'):
            return file_store(self.dir)
        return redis_store('redis://localhost/')

    def prefill(self, items):
        st = self.open()
        for h, v in items:
            st.dump(v, h)
        if self.kind == 'filepack':
            st.create()
            st.update_pack()

    def temp_files(self):
        if self.dir is None:
            return []
        td = os.path.join(self.dir, 'tempfiles')
        return sorted(os.listdir(td)) if os.path.isdir(td) else []


# ================================================================ lock-step runtime
class Worker:
    def __init__(self, wid, cfg, built, store, options):
        self.wid = wid
        self.cfg = cfg
        self.built = built
        self.tasks = list(built.tasks)
        self.store = store
        self.options = options
        self.state = 'new'
        self.pending = None
        self.cmd = None
        self.dead = False
        self.npoints = 0
        self.exit_code = None
        self.error = None
        self.thread = None
        self.hook_state = {}
        self.interrupted = False
        self.kinds = []
        self.noyield = False
        self.in_dump = 0            # tid of the task whose result this worker is serialising inside store.dump() right now
        self.dump_hooked = False


class ProxyLock:
    def __init__(self, rt, name, tid):
        self.rt = rt
        self.name = name
        self.tid = tid
        self.real = {}

    def _r(self, w):
        if w.wid not in self.real:
            self.real[w.wid] = w.store.getlock(self.name)
        return self.real[w.wid]

    def get(self):
        w = _me()
        if w is None:
            return self.rt.main_store.getlock(self.name).get()
        self.rt.point(w, 'lock', self.tid)
        b = bool(self._r(w).get())
        self.rt.log(('ELock', w.wid, self.tid, b))
        return b

    def release(self):
        w = _me()
        if w is None:
            return self.rt.main_store.getlock(self.name).release()
        self.rt.point(w, 'unlock', self.tid)
        r = self._r(w).release()
        self.rt.log(('EUnlock', w.wid, self.tid))
        return r

    def fail(self):
        w = _me()
        if w is None:
            return self.rt.main_store.getlock(self.name).fail()
        self.rt.point(w, 'fail', self.tid)
        r = self._r(w).fail()
        self.rt.log(('EFailMark', w.wid, self.tid))
        return r

    def is_locked(self):
        w = _me()
        if w is None:
            return self.rt.main_store.getlock(self.name).is_locked()
        self.rt.point(w, 'is_locked', self.tid)
        return self._r(w).is_locked()

    def is_failed(self):
        w = _me()
        if w is None:
            return self.rt.main_store.getlock(self.name).is_failed()
        self.rt.point(w, 'is_failed', self.tid)
        return self._r(w).is_failed()


class ProxyStore:
    """what jug.task.Task.store is during a run: every call by a worker thread is a scheduling point"""

    def __init__(self, rt):
        self.rt = rt

    def can_load(self, name):
        w = _me()
        if w is None:
            return self.rt.main_store.can_load(name)
        tid = self.rt.tid_of(name, 'can_load')
        self.rt.point(w, 'can_load', tid)
        b = bool(w.store.can_load(name))
        self.rt.log(('ECanLoad', w.wid, tid, b))
        return b

    def load(self, name):
        w = _me()
        if w is None:
            return self.rt.main_store.load(name)
        tid = self.rt.tid_of(name, 'load')
        self.rt.point(w, 'load', tid)
        v = w.store.load(name)
        self.rt.log(('ELoad', w.wid, tid, self.rt.canon(v)))
        return v

    def dump(self, obj, name):
        w = _me()
        if w is None:
            return self.rt.main_store.dump(obj, name)
        tid = self.rt.tid_of(name, 'dump')
        self.rt.point(w, 'dump', tid)
        c = self.rt.canon(obj)
        w.in_dump, w.dump_hooked = tid or -1, False
        try:
            w.store.dump(obj, name)             # may be cut short by a stop request / kill delivered while the value is pickled
        finally:
            w.in_dump = 0
        self.rt.log(('EDump', w.wid, tid, c))   # only when the real dump() returned normally

    def getlock(self, name):
        return ProxyLock(self.rt, name, self.rt.tid_of(name, 'getlock'))

    def __getattr__(self, attr):
        # list / listlocks / remove / remove_locks / cleanup / close / metadata ...: not part of the protocol
        w = _me()
        if w is not None:
            self.rt.note('unexpected-store-call:%s' % attr)
            return getattr(w.store, attr)
        return getattr(self.rt.main_store, attr)


class Policy:
    """chooses the next (worker, action) from a JSON description; deterministic given its seed."""

    def __init__(self, desc, wids):
        self.d = desc
        self.rng = random.Random(desc.get('seed', 0))
        self.wids = list(wids)
        self.base = desc.get('base', 'random')
        ws = desc.get('weights')
        self.weights = {w: (ws[i % len(ws)] if ws else 1.0) for i, w in enumerate(self.wids)}
        self.sticky = desc.get('sticky', 0.0)
        self.last = None
        self.rr = 0
        self.late = {self.wids[int(k)]: v for k, v in desc.get('late', {}).items() if int(k) < len(self.wids)}
        self.stalls = [(self.wids[k], a, b) for k, a, b in desc.get('stalls', []) if k < len(self.wids)]
        # stall_at: [worker index, op kind, number of steps, occurrence] - park that worker when it is about to do `kind`
        self.stall_at = [[self.wids[s[0]], s[1], s[2], s[3] if len(s) > 3 else 0, None] for s in desc.get('stall_at', []) if s[0] < len(self.wids)]
        self.seen_kind = {}
        # stall_task: [op kind, task id, number of steps] - whoever is about to do `kind` on that task is parked (once)
        self.stall_task = [[st[0], st[1], st[2], False] for st in desc.get('stall_task', [])]
        self.parked_until = {}
        # inject: [worker index, n-th scheduling point of that worker, action]
        self.inject = {(self.wids[k], n): act for k, n, act in desc.get('inject', []) if k < len(self.wids)}
        # inject_kind: [worker index, op kind, occurrence, action]
        self.inject_kind = [(self.wids[k], kind, occ, act) for k, kind, occ, act in desc.get('inject_kind', []) if k < len(self.wids)]
        self.kind_seen = {}
        self.counted = {}
        # time_passes: [scheduler step, seconds] - wall-clock time that goes by between two scheduling points (only the redis
        # stand-in has a clock: keys with a time to live vanish; jug sets none, so nothing may change)
        self.time_passes = [(int(a), float(b)) for a, b in desc.get('time_passes', [])]
        self.script = desc.get('script')
        self.order = desc.get('order')          # explicit preference list of worker indices per step (enumeration)

    def blocked(self, w, step):
        if w.pending[0] == 'begin' and self.late.get(w.wid, 0) > step:
            return True
        for (ww, a, b) in self.stalls:
            if ww == w.wid and a <= step < b:
                return True
        for s in self.stall_at:
            if s[0] == w.wid and s[4] is not None and step < s[4]:
                return True
        if self.parked_until.get(w.wid, 0) > step:
            return True
        return False

    def observe(self, parked, step):
        """bookkeeping on newly parked workers: occurrence counters for stall_at / inject_kind"""
        for w in parked:
            key = (w.wid, w.npoints)
            if key in self.counted:
                continue
            self.counted[key] = True
            kk = (w.wid, w.pending[0])
            occ = self.kind_seen.get(kk, 0)
            self.kind_seen[kk] = occ + 1
            w.kind_occ = occ
            for s in self.stall_at:
                if s[0] == w.wid and s[1] == w.pending[0] and s[3] == occ and s[4] is None:
                    s[4] = step + s[2]
            for st in self.stall_task:
                if not st[3] and st[0] == w.pending[0] and st[1] == w.pending[1]:
                    st[3] = True
                    self.parked_until[w.wid] = step + st[2]

    def action_for(self, w):
        act = self.inject.get((w.wid, w.npoints - 1))
        if act is None:
            for (ww, kind, occ, a) in self.inject_kind:
                if ww == w.wid and kind == w.pending[0] and occ == getattr(w, 'kind_occ', -1):
                    act = a
        if act is None:
            return 'go'
        if act.startswith('intr') and w.pending[0] not in INTR_POINTS:
            return 'go'
        if act.startswith('intr') and w.interrupted:
            return 'go'
        return act

    def choose(self, parked, step):
        self.observe(parked, step)
        if self.script is not None and step < len(self.script):
            wid, act = self.script[step]
            for w in parked:
                if w.wid == wid:
                    return w, act
        avail = [w for w in parked if not self.blocked(w, step)] or parked
        w = None
        if self.order is not None and step < len(self.order):
            for w2 in avail:
                if w2.wid == self.wids[self.order[step] % len(self.wids)]:
                    w = w2
        if w is None:
            if self.base == 'rr':
                ids = sorted(x.wid for x in avail)
                nxt = [i for i in ids if i > (self.last if self.last is not None else -1)]
                wid = nxt[0] if nxt else ids[0]
                w = [x for x in avail if x.wid == wid][0]
            elif self.base == 'stay':
                stay = [x for x in avail if x.wid == self.last]
                w = stay[0] if stay else min(avail, key=lambda x: x.wid)
            elif self.base == 'serial':
                w = min(avail, key=lambda x: x.wid)
            elif self.base == 'reverse':
                w = max(avail, key=lambda x: x.wid)
            else:
                stay = [x for x in avail if x.wid == self.last]
                if stay and self.rng.random() < self.sticky:
                    w = stay[0]
                else:
                    tot = sum(self.weights[x.wid] for x in avail)
                    r = self.rng.random() * tot
                    for x in avail:
                        r -= self.weights[x.wid]
                        if r <= 0:
                            w = x
                            break
                    else:
                        w = avail[-1]
        self.last = w.wid
        return w, self.action_for(w)


# scheduling points at which a stop request may be delivered (the model excludes the instants inside
# lock release / fail and the exception handler)
INTR_STRICT = ('ret', 'sleep', 'hook_pre', 'hook_exec1')
INTR_POINTS = INTR_STRICT + ('start', 'can_load', 'load', 'lock', 'dump', 'pickle')


class Result:
    pass


class Runtime:
    def __init__(self, sc, backend):
        self.sc = sc
        self.spec = sc['program']
        self.backend = backend
        self.cv = threading.Condition()
        self.trace = []
        self.decisions = []
        self.notes = []
        self.findings = []          # direct-oracle findings made while running (C03)
        self.internal = None
        self.deadline = time.time() + RUN_TIMEOUT
        self.aborted = False
        self.main_store = backend.open()
        self.master = Built(self.spec)
        self.tids = {h: i + 1 for i, h in enumerate(self.master.hashes)}
        if len(self.tids) != len(self.master.hashes):
            raise HarnessError('duplicate task hashes in program')
        self.workers = []
        self.phase_marks = []       # trace index at which each phase starts
        self.fn_log = []            # (trace index, wid, tid, received canon) per function call
        self.alts = []              # per phase, per step: the workers that could have been chosen
        self.worker_body = None     # replaces the plain execution_loop call of a worker when set
        self.coarse = bool(sc.get('coarse'))   # scheduling points only at store / lock calls, function return and sleep
        self.stopfile = None

    # -- helpers used from worker threads (only the running worker calls them)
    def tid_of(self, name, what):
        if type(name) == str:
            name = name.encode('utf-8')
        t = self.tids.get(name)
        if t is None:
            self.note('foreign-key:%s' % what)
            self.findings.append({'what': 'store call on a key that is no task of the program', 'op': what, 'key': repr(name)})
            return 0
        return t

    def note(self, s):
        self.notes.append(s)

    def canon(self, v):
        try:
            return canon(v)
        except ValueError as e:
            self.internal = 'unencodable value: %s' % e
            raise _Abort()

    def log(self, e):
        self.trace.append(e)

    def point(self, w, kind, tid):
        if w.dead:
            raise _Killed()
        if w.noyield:
            return          # inside a step that is atomic by construction (loading the jugfile): events are logged, nobody else runs
        if self.coarse and kind in ('start', 'hook_pre', 'hook_exec1', 'pickle'):
            return
        with self.cv:
            w.pending = (kind, tid)
            w.npoints += 1
            w.kinds.append(kind)
            w.cmd = None
            w.state = 'parked'
            self.cv.notify_all()
            while w.cmd is None:
                self.cv.wait(0.5)
                if w.cmd is None and (self.aborted or time.time() > self.deadline):
                    self.aborted = True
                    w.state = 'running'
                    raise _Abort()
            cmd = w.cmd
        if cmd == 'go':
            return
        if cmd == 'abort':
            raise _Abort()
        if cmd == 'crash':
            w.dead = True
            raise _Killed()
        if cmd.startswith('intr'):
            w.interrupted = True
            parts = cmd.split(':')
            if parts[1] == 'kbd':
                raise KeyboardInterrupt()
            raise SystemExit(int(parts[2]) if len(parts) > 2 else 1)
        raise _Abort()

    # -- the task function as seen by a worker
    def call(self, k, kind, args, kwargs):
        w = _me()
        task = getattr(_tl, 'task', None)
        tid = self.tids.get(task.hash(), 0) if task is not None else 0
        self.point(w, 'start', tid)
        self.log(('EStart', w.wid, tid))
        _tl.entered = True
        if task is not None and tid:
            # C03 oracle (a): every task under the REAL arguments has a stored result right now
            under = real_tasks_under(list(task.args), []) + real_tasks_under(list(task.kwargs.values()), [])
            missing = sorted(set(self.tids.get(d.hash(), 0) for d in under if not w.store.can_load(d.hash())))
            if missing:
                self.findings.append({'what': 'task started before a dependency has a result', 'worker': w.wid, 'task': tid,
                                      'missing': missing, 'at': len(self.trace) - 1})
            # C03 oracle (b): what it received = the stored results with the operations applied
            try:
                exp = self.expected_inputs(tid - 1, w.store)
            except Exception as e:
                exp = ('no-reference', type(e).__name__)
            got = (tuple(self.canon(a) for a in args), tuple((n, self.canon(v)) for n, v in sorted(kwargs.items())))
            if exp != got:
                self.findings.append({'what': 'task function received wrong arguments', 'worker': w.wid, 'task': tid,
                                      'expected': repr(exp)[:600], 'received': repr(got)[:600], 'at': len(self.trace) - 1})
            self.fn_log.append((len(self.trace) - 1, w.wid, tid, got))
        self.point(w, 'ret', tid)
        try:
            v = apply_kind(k, kind, args, kwargs)
        except TaskRaises:
            self.log(('ERaise', w.wid, tid))
            _tl.raised = True
            raise
        self.log(('ERet', w.wid, tid, self.canon(v)))
        return v

    def expected_inputs(self, i, store):
        hs = self.master.hashes

        def val_of(j):
            if not store.can_load(hs[j]):
                raise Blocked(j)
            return store.load(hs[j])
        ts = self.spec['tasks'][i]
        return (tuple(canon(ref_arg(a, val_of)) for a in ts['args']),
                tuple((n, canon(ref_arg(a, val_of))) for n, a in ts['kwargs']))

    # -- hooks
    def hook(self, name, t):
        w = _me()
        if w is None:
            return
        h = w.cfg.get('hook')
        kind = 'hook_pre' if name == 'execute.task-pre-execute' else 'hook_exec1'
        tid = self.tids.get(t.hash(), 0)
        if h and h[0] == 'real' and h[1] == name:
            # a real exit check of jug.hooks.exit_checks, created for this worker; EInterrupt is logged the
            # moment it raises SystemExit
            if h[2] == 'file' and w.hook_state.get('count', 0) >= h[3] and not os.path.exists(self.stopfile):
                open(self.stopfile, 'w').close()
            w.hook_state['count'] = w.hook_state.get('count', 0) + 1
            try:
                w.hook_state['fn'](t)
            except SystemExit:
                self.log(('EInterrupt', w.wid))
                w.interrupted = True
                raise
            return
        self.point(w, kind, tid)

    def install_hooks(self):
        jug.hooks.register.reset_all_hooks()
        jug.hooks.register_hook('execute.task-pre-execute', lambda t: self.hook('execute.task-pre-execute', t))
        jug.hooks.register_hook('execute.task-executed1', lambda t: self.hook('execute.task-executed1', t))

    def real_hook_for(self, w):
        """create the REAL exit check for worker w and take it out of the global hook table"""
        h = w.cfg.get('hook')
        if not h or h[0] != 'real':
            return
        table = jug.hooks.register._hooks
        name = h[1]
        before = len(table.get(name, []))
        if h[2] == 'max_tasks':
            jug.hooks.exit_checks.exit_after_n_tasks(h[3])
        elif h[2] == 'time0':
            jug.hooks.exit_checks.exit_after_time(seconds=0)
        elif h[2] == 'env_max_tasks':
            jug.hooks.exit_checks.exit_env_vars({'JUG_MAX_TASKS': str(h[3])})
        elif h[2] == 'file':
            jug.hooks.exit_checks.exit_if_file_exists(self.stopfile)
        elif h[2] == 'when_true':
            jug.hooks.exit_checks.exit_when_true(lambda t: True, function_takes_Task=True)
        else:
            raise HarnessError('unknown hook %r' % (h,))
        fns = table[name][before:]
        del table[name][before:]
        if len(fns) != 1:
            raise HarnessError('exit check registered %d hooks' % len(fns))
        w.hook_state['fn'] = fns[0]

    # -- phases
    def run_phase(self, ph, first_wid):
        workers = []
        for i, cfg in enumerate(ph['workers']):
            built = Built(self.spec)
            if built.hashes != self.master.hashes:
                raise HarnessError('builds of one program give different hashes')
            opts = types.SimpleNamespace(
                execute_target=None, execute_nr_wait_cycles=cfg.get('nr_wait', 3), execute_wait_cycle_time=0,
                execute_keep_going=self.sc.get('keep_going', False), execute_keep_failed=self.sc.get('keep_failed', False),
                aggressive_unload=cfg.get('unload', False), debug=False, pdb=False)
            w = Worker(first_wid + i, cfg, built, self.backend.open(), opts)
            self.real_hook_for(w)
            workers.append(w)
        self.workers.extend(workers)
        pol = dict(ph.get('policy', {}))
        if ph.get('decisions') is not None:
            pol['script'] = ph['decisions']
        policy = Policy(pol, [w.wid for w in workers])
        decisions = []
        self.alts.append([])
        for w in workers:
            w.thread = threading.Thread(target=self.worker_main, args=(w,), daemon=True)
            w.thread.start()
        step = 0
        try:
            while True:
                with self.cv:
                    while any(w.state in ('new', 'running') for w in workers):
                        self.cv.wait(0.5)
                        if self.aborted or time.time() > self.deadline:
                            self.aborted = True
                            raise HarnessError('run timed out')
                    parked = [w for w in workers if w.state == 'parked']
                if not parked:
                    break
                if self.internal:
                    raise HarnessError(self.internal)
                if step >= MAX_STEPS:
                    raise HarnessError('run exceeds %d steps' % MAX_STEPS)
                for (st_, secs) in policy.time_passes:
                    if st_ == step and self.backend.server is not None:
                        self.backend.server.advance(secs)
                        self.note('time-passes:%g' % secs)
                w, act = policy.choose(parked, step)
                decisions.append([w.wid, act])
                self.alts[-1].append(sorted(x.wid for x in parked))
                if act == 'crash':
                    self.log(('ECrash', w.wid))
                elif act.startswith('intr'):
                    self.log(('EInterrupt', w.wid))
                with self.cv:
                    w.state = 'running'
                    w.cmd = act
                    self.cv.notify_all()
                step += 1
        finally:
            self.release_all(workers)
        if self.internal:
            raise HarnessError(self.internal)
        for w in workers:
            if w.error:
                raise HarnessError('worker %d: %s' % (w.wid, w.error))
        return decisions

    def release_all(self, workers):
        """never leave a thread behind: unblock everything and join"""
        t_end = time.time() + 10
        while True:
            with self.cv:
                live = [w for w in workers if w.state != 'done']
                if not live:
                    break
                self.aborted = True
                for w in live:
                    if w.state == 'parked':
                        w.cmd = 'abort'
                        w.state = 'running'
                self.cv.notify_all()
                self.cv.wait(0.05)
            if time.time() > t_end:
                break
        for w in workers:
            if w.thread is not None:
                w.thread.join(timeout=2)

    def worker_main(self, w):
        _tl.worker = w
        _tl.task = None
        try:
            self.point(w, 'begin', None)
            try:
                if self.worker_body is not None:
                    code = self.worker_body(w)          # e.g. the real ExecuteCommand.run (harness/execbarrier.py)
                else:
                    failures = jug.jug.execution_loop(w.tasks, w.options)
                    code = 1 if failures else 0
            except SystemExit as e:
                code = e.code if type(e.code) == int else (0 if e.code is None else 1)
            except KeyboardInterrupt:
                code = 1
            except (_Killed, _Abort):
                raise
            except BaseException:
                code = 1
            w.exit_code = code
            self.log(('EExit', w.wid, code))
        except _Killed:
            pass
        except _Abort:
            pass
        except BaseException:
            w.error = traceback.format_exc()[-1500:]
        finally:
            _tl.worker = None
            with self.cv:
                w.state = 'done'
                self.cv.notify_all()


@contextlib.contextmanager
def patched(rt):
    """Task.store -> proxy, time.sleep -> scheduling point, Task.run -> logs ERaise for failures before/after the function,
    logging silenced, hooks reset.  Everything is restored afterwards."""
    global _direct_call, _active_rt
    old_store = Task.store
    old_sleep = time.sleep
    old_run = Task.run
    old_hooks = {k: list(v) for k, v in jug.hooks.register._hooks.items()}
    old_reg = set(jug.hooks.register._registered)
    old_alltasks = list(jug.task.alltasks)

    def sleep(x):
        w = _me()
        if w is None:
            return old_sleep(x)
        rt.point(w, 'sleep', None)

    def run(self, *a, **kw):
        w = _me()
        if w is None:
            return old_run(self, *a, **kw)
        _tl.task = self
        _tl.raised = False
        _tl.entered = False
        tid = rt.tids.get(self.hash(), 0)
        if tid:
            # C03 oracle: argument resolution must not begin before every task under the REAL arguments has a result
            under = real_tasks_under(list(self.args), []) + real_tasks_under(list(self.kwargs.values()), [])
            missing = sorted(set(rt.tids.get(d.hash(), 0) for d in under if not w.store.can_load(d.hash())))
            if missing:
                rt.findings.append({'what': 'task run (argument resolution) began before a dependency has a result', 'worker': w.wid,
                                    'task': tid, 'missing': missing, 'at': len(rt.trace)})
        try:
            return old_run(self, *a, **kw)
        except Exception:
            if not _tl.raised:
                rt.log(('ERaise', w.wid, rt.tids.get(self.hash(), 0)))
            raise
        finally:
            _tl.task = None

    Task.store = ProxyStore(rt)
    sleep_patch = patching.patch_everywhere(old_sleep, sleep, home=time, name='sleep')     # also where jug did `from time import sleep`
    sleep_patch.__enter__()
    Task.run = run
    _direct_call = rt.call
    _active_rt = rt
    old_disable = logging.root.manager.disable
    logging.disable(logging.CRITICAL)
    rt.install_hooks()
    try:
        yield
    finally:
        logging.disable(old_disable)
        _direct_call = None
        _active_rt = None
        Task.run = old_run
        sleep_patch.__exit__(None, None, None)
        Task.store = old_store
        jug.hooks.register._hooks.clear()
        jug.hooks.register._hooks.update(old_hooks)
        jug.hooks.register._registered.clear()
        jug.hooks.register._registered.update(old_reg)
        jug.task.alltasks[:] = old_alltasks


def _result_path(jugdir, key):
    """documented file-store layout: <jugdir>/<first two characters of the hash>/<rest>"""
    k = key.decode('ascii') if isinstance(key, bytes) else str(key)
    return os.path.join(jugdir, k[:2], k[2:])


def observe_store(rt):
    """store content and lock table as a new process sees them (real store, no proxy)"""
    st = rt.backend.open()
    final = []
    for h in rt.master.hashes:
        present = bool(st.can_load(h))
        if not present and rt.backend.dir is not None and os.path.exists(_result_path(rt.backend.dir, h)):
            present = True                      # look at the backend directly, not only through can_load
        if present:
            try:
                final.append(canon(st.load(h)))
            except _Abort:
                raise
            except Exception as e:
                final.append(('a', 'UNLOADABLE RESULT (%s)' % type(e).__name__))   # e.g. a half-written file published under the final name
        else:
            final.append(None)
    locks = {}
    for name in st.listlocks():
        if type(name) == str:
            name = name.encode('utf-8')
        lk = st.getlock(name)
        locks[rt.tids.get(name, name.decode('utf-8', 'replace'))] = 'failed' if lk.is_failed() else 'held'
    keys = set()
    for k in st.list():
        keys.add(k if type(k) == bytes else k.encode('utf-8'))
    foreign = sorted(k.decode('utf-8', 'replace') for k in keys if k not in rt.tids)
    return final, locks, foreign


def operator_action(rt, what):
    """the real `jug cleanup --locks-only` / `--failed-only` command body on a fresh store object"""
    import jug.subcommands.cleanup as cleanup_mod
    st = rt.backend.open()
    opts = types.SimpleNamespace(cleanup_locks_only=(what == 'remove_locks'), cleanup_failed_only=(what == 'release_failed'),
                                 cleanup_keep_locks=False, print_out=lambda *a, **k: None)
    cleanup_mod.cleanup.run(store=st, options=opts)
    rt.log(('ERemoveLocks',) if what == 'remove_locks' else ('EReleaseFailed',))


def run_scenario(sc):
    """Execute a scenario with the real code.  Returns a Result; raises HarnessError when the HARNESS failed."""
    slack = sc.get('recursion_slack')
    if not slack:
        return _run_scenario(sc)
    # run under a lowered recursion limit (scenario option): current depth of this thread + slack; worker threads are shallower
    import inspect
    import sys
    old = sys.getrecursionlimit()
    sys.setrecursionlimit(len(inspect.stack()) + int(slack))
    try:
        return _run_scenario(sc)
    finally:
        sys.setrecursionlimit(old)


def _run_scenario(sc):
    res = Result()
    with Backend(sc.get('backend', 'dict')) as backend:
        rt = Runtime(sc, backend)
        refs = ref_program(sc['program'])
        pre = sorted(sc.get('prefill', []))
        for i in pre:
            if refs[i][0] != 'ok':
                raise HarnessError('prefill of a task without reference value')
        backend.prefill([(rt.master.hashes[i], refs[i][1]) for i in pre])
        rt.main_store = backend.open()
        if backend.dir is not None:
            rt.stopfile = os.path.join(os.path.dirname(backend.dir), 'stop-please')
        else:
            rt.stopfile_ctx = jugrun.scratch_dir('jugvs')
            rt.stopfile = os.path.join(rt.stopfile_ctx.__enter__(), 'stop-please')
        res.r0 = [(i + 1, canon(refs[i][1])) for i in pre]
        res.snapshots = []          # after each phase: (trace length, final, locks, temp files)
        decisions = []
        try:
            with patched(rt):
                wid = 0
                for ph in sc['phases']:
                    if ph.get('pre'):
                        operator_action(rt, ph['pre'])
                    rt.phase_marks.append(len(rt.trace))
                    d = rt.run_phase(ph, wid)
                    decisions.append(d)
                    wid += len(ph['workers'])
                    final, locks, foreign = observe_store(rt)
                    res.snapshots.append({'at': len(rt.trace), 'final': final, 'locks': locks, 'temp': backend.temp_files()})
                res.final, res.locks, res.foreign = observe_store(rt)
                # value() of every task / argument object after the run, through a fresh build on the real store
                res.values = None
                if sc.get('check_values'):
                    res.values = read_values(rt)
        finally:
            if backend.dir is None:
                rt.stopfile_ctx.__exit__(None, None, None)
    res.trace = rt.trace
    res.decisions = decisions
    res.notes = rt.notes
    res.findings = rt.findings
    res.fn_log = rt.fn_log
    res.phase_marks = rt.phase_marks
    res.refs = refs
    res.workers = [(w.wid, w.exit_code, w.dead, w.interrupted) for w in rt.workers]
    res.kinds = {w.wid: list(w.kinds) for w in rt.workers}
    res.alts = rt.alts
    res.ntasks = len(sc['program']['tasks'])
    return res


def read_values(rt):
    """C01 oracle input: value() of every task and of every argument object (tasklets, containers, mapped
    sequences ...) of a fresh realisation, read through the real store."""
    old = Task.store
    Task.store = rt.backend.open()
    try:
        b = Built(rt.spec)
        out = []
        for i, t in enumerate(b.tasks):
            row = {'task': None, 'args': [], 'kwargs': []}
            try:
                row['task'] = ('ok', canon(jug.task.value(t)))
            except Exception as e:
                row['task'] = ('err', type(e).__name__)
            for o in b.argobjs[i][0]:
                try:
                    row['args'].append(('ok', canon(jug.task.value(o))))
                except Exception as e:
                    row['args'].append(('err', type(e).__name__))
            for n, o in b.argobjs[i][1]:
                try:
                    row['kwargs'].append((n, ('ok', canon(jug.task.value(o)))))
                except Exception as e:
                    row['kwargs'].append((n, ('err', type(e).__name__)))
            out.append(row)
        return out
    finally:
        Task.store = old


# ================================================================ rendering for Coq
def ev_coq(e, atoms):
    k = e[0]
    if k == 'ECanLoad' or k == 'ELock':
        return '%s %s %s %s' % (k, natlit(e[1]), pos(e[2]), boollit(e[3]))
    if k in ('ELoad', 'ERet', 'EDump'):
        return '%s %s %s %s' % (k, natlit(e[1]), pos(e[2]), canon_coq(e[3], atoms))
    if k in ('EStart', 'ERaise', 'EUnlock', 'EFailMark'):
        return '%s %s %s' % (k, natlit(e[1]), pos(e[2]))
    if k in ('EInterrupt', 'ECrash'):
        return '%s %s' % (k, natlit(e[1]))
    if k == 'EExit':
        return 'EExit %s %s' % (natlit(e[1]), natlit(e[2]))
    if k in ('ERemoveLocks', 'EReleaseFailed'):
        return k
    raise ValueError(e)


def case_coq(sc, res):
    atoms = Interner()
    prog = program_coq(sc['program'], sc.get('keep_going', False), sc.get('keep_failed', False), atoms)
    r0 = listlit(['(%s, %s)' % (pos(t), canon_coq(c, atoms)) for t, c in res.r0])
    evs = []
    for e in res.trace:
        if len(e) > 2 and e[0] not in ('EExit',) and e[2] == 0:
            e = (e[0], e[1], 99999) + tuple(e[3:])      # a key that is no task: the model has no such task
        evs.append(ev_coq(e, atoms))
    tr = '[' + ';\n   '.join(evs) + ']'
    fin = listlit(['(%s, %s)' % (pos(i + 1), optlit(None if c is None else canon_coq(c, atoms))) for i, c in enumerate(res.final)])
    return '(%s,\n  %s,\n  %s,\n  %s)' % (prog, r0, tr, fin)


def ev_show(e):
    parts = [e[0]] + ['w%d' % e[1]] if len(e) > 1 else [e[0]]
    if e[0] == 'EExit':
        return 'EExit w%d code=%d' % (e[1], e[2])
    if len(e) > 2:
        parts.append('t%d' % e[2])
    if len(e) > 3:
        parts.append(canon_show(e[3]) if isinstance(e[3], tuple) else str(e[3]))
    return ' '.join(parts)


def diag(prop, case_text, tag='x'):
    """second query on one case: which event does the model reject, does the final store agree, is it sequential?
    -> {'reject': i | None, 'ok': bool, 'seq': bool}  or  {'error': output}"""
    import re
    os.makedirs(core.CASEDIR, exist_ok=True)
    base = 'Diag_%s_%s_%d' % (prop, tag, os.getpid())
    path = os.path.join(core.CASEDIR, base + '.v')
    with open(path, 'w') as f:
        f.write('From Coq Require Import List ZArith Bool String.\nImport ListNotations.\n')
        f.write('From JugV Require Import Model.CaseLib.\n' + IMPORTS + '\n')
        f.write('Definition the_case : exec_case :=\n %s.\n' % case_text)
        f.write('Eval vm_compute in (exec_case_diag the_case).\n')
        f.write('Eval vm_compute in (exec_case_ok the_case, final_is_sequential the_case).\n')
    try:
        rc, out = core.sh('ulimit -s unlimited 2>/dev/null; timeout 300 coqc -Q %s JugV %s' % (core.COQ, path), cwd=core.CASEDIR, timeout=330)
    finally:
        for ext in ('.v', '.vo', '.vok', '.vos', '.glob'):
            try:
                os.unlink(os.path.join(core.CASEDIR, base + ext))
            except OSError:
                pass
        try:
            os.unlink(os.path.join(core.CASEDIR, '.' + base + '.aux'))
        except OSError:
            pass
    m = re.search(r'=\s*(Some\s+(\d+)(?:%nat)?|None)\s*:\s*option nat', out)
    m2 = re.search(r'=\s*\((true|false),\s*(true|false)\)\s*:\s*bool \* bool', out)
    if rc != 0 or not m or not m2:
        return {'error': out[-500:]}
    return {'reject': int(m.group(2)) if m.group(2) is not None else None, 'ok': m2.group(1) == 'true', 'seq': m2.group(2) == 'true'}


# ================================================================ direct oracles (Python, on the recorded run)
def task_intervals(trace):
    """per task: list of [start index, end index or None, worker, how it ended]"""
    open_, out = {}, {}
    for i, e in enumerate(trace):
        if e[0] == 'EStart':
            iv = [i, None, e[1], None]
            out.setdefault(e[2], []).append(iv)
            open_[e[1]] = iv
        elif e[0] in ('ERet', 'ERaise') and e[1] in open_ and open_[e[1]][1] is None:
            if e[0] == 'ERaise' and trace[open_[e[1]][0]][2] != e[2]:
                continue
            open_[e[1]][1] = i
            open_[e[1]][3] = e[0]
            del open_[e[1]]
        elif e[0] in ('EInterrupt', 'ECrash', 'EExit') and e[1] in open_:
            open_[e[1]][1] = i
            open_[e[1]][3] = e[0]
            del open_[e[1]]
    return out


def oracle_c02(trace, clean_complete=False, ntasks=0, prefilled=()):
    """no two overlapping executions of one task; no start after a result was stored; exactly one execution per task in clean complete runs"""
    out = []
    ivs = task_intervals(trace)
    for t, l in ivs.items():
        for a in range(len(l)):
            for b in range(a + 1, len(l)):
                ea = l[a][1] if l[a][1] is not None else len(trace)
                if l[b][0] < ea and l[a][2] != l[b][2]:
                    out.append({'what': 'two workers execute one task at the same time', 'task': t, 'workers': [l[a][2], l[b][2]],
                                'starts': [l[a][0], l[b][0]]})
    stored_at = {}
    for i, e in enumerate(trace):
        if e[0] == 'EDump':
            stored_at.setdefault(e[2], i)
        elif e[0] == 'EStart' and e[2] in stored_at:
            out.append({'what': 'task executed again after its result was stored', 'task': e[2], 'worker': e[1], 'at': i,
                        'stored_at': stored_at[e[2]]})
    if clean_complete:
        for t in range(1, ntasks + 1):
            n = len(ivs.get(t, []))
            want = 0 if (t - 1) in prefilled else 1
            if n != want:
                out.append({'what': 'task executed more than once in a clean complete run' if n > want else
                            'task never executed in a clean complete run', 'task': t, 'executions': n, 'expected': want})
    return out


def held_locks_of(trace, upto=None):
    """lock table as the events imply it: tid -> ('held', w) | ('failed', w)"""
    tbl = {}
    for e in trace[:upto]:
        if e[0] == 'ELock' and e[3]:
            tbl[e[2]] = ('held', e[1])
        elif e[0] == 'EUnlock':
            tbl.pop(e[2], None)
        elif e[0] == 'EFailMark':
            if e[2] in tbl:
                tbl[e[2]] = ('failed', e[1])
        elif e[0] == 'ERemoveLocks':
            tbl.clear()
        elif e[0] == 'EReleaseFailed':
            for t in [t for t, v in tbl.items() if v[0] == 'failed']:
                del tbl[t]
    return tbl


def ancestors_failed(spec, refs):
    """task indices that raise themselves / that depend (transitively) on one that raises"""
    raising = set(i for i, r in enumerate(refs) if r[0] == 'raise')
    blocked = set(i for i, r in enumerate(refs) if r[0] == 'blocked')
    return raising, blocked


def oracle_sound(res):
    """every stored value is the one plain sequential evaluation gives; nothing stored for a task without one"""
    out = []
    for i, c in enumerate(res.final):
        r = res.refs[i]
        if c is None:
            continue
        if c[0] == 'a' and str(c[1]).startswith('UNLOADABLE RESULT'):
            out.append({'what': 'a result is present in the store but cannot be loaded (partial result published)', 'task': i + 1, 'error': c[1]})
            continue
        if r[0] != 'ok':
            out.append({'what': 'a result is stored for a task that has no value (raised / depends on a failed task)', 'task': i + 1,
                        'stored': canon_show(c)})
        elif canon(r[1]) != c:
            out.append({'what': 'stored result differs from plain sequential evaluation', 'task': i + 1,
                        'stored': canon_show(c), 'expected': canon_show(canon(r[1]))})
    return out


def oracle_complete(res, which=None):
    out = []
    for i, c in enumerate(res.final):
        if which is not None and i not in which:
            continue
        if c is None and res.refs[i][0] == 'ok':
            out.append({'what': 'task has no result after all workers finished', 'task': i + 1})
    return out


def oracle_values(sc, res):
    """C01: value() of every task, tasklet and container == the plain nested Python calls"""
    out = []
    spec = sc['program']
    refs = res.refs

    def val_of(j):
        if refs[j][0] != 'ok':
            raise Blocked(j)
        return refs[j][1]
    for i, row in enumerate(res.values or []):
        ts = spec['tasks'][i]
        exp = ('ok', canon(refs[i][1])) if refs[i][0] == 'ok' else ('err',)
        if row['task'][0] != exp[0] or (exp[0] == 'ok' and row['task'][1] != exp[1]):
            out.append({'what': 'value(task) differs from plain Python evaluation', 'task': i + 1, 'observed': repr(row['task'])[:300],
                        'expected': repr(exp)[:300]})
        objs = [(a, o) for a, o in zip(ts['args'], row['args'])] + [(a, o[1]) for (n, a), o in zip(ts['kwargs'], row['kwargs'])]
        for a, o in objs:
            try:
                e = ('ok', canon(ref_arg(a, val_of)))
            except Exception:
                e = ('err',)
            if o[0] != e[0] or (e[0] == 'ok' and o[1] != e[1]):
                out.append({'what': 'value(argument object) differs from plain Python evaluation', 'task': i + 1, 'arg': a,
                            'observed': repr(o)[:300], 'expected': repr(e)[:300]})
    return out


def phase_of(res, idx):
    ph = 0
    for k, m in enumerate(res.phase_marks):
        if idx >= m:
            ph = k
    return ph


def oracle_c11(sc, res):
    """failing tasks: nothing stored, no dependent started, independents complete with keep_going, exit codes, lock states"""
    out = []
    tr = res.trace
    refs = res.refs
    kg, kf = sc.get('keep_going', False), sc.get('keep_failed', False)
    clean_ws = set(w for (w, code, dead, intr) in res.workers if not dead and not intr)
    # no dependent of a failed task is ever started / resolved
    for i, e in enumerate(tr):
        if e[0] in ('EStart', 'ERaise') and refs[e[2] - 1][0] == 'blocked':
            out.append({'what': 'a task depending on a failed task was started', 'task': e[2], 'worker': e[1], 'at': i})
        if e[0] == 'EStart' and refs[e[2] - 1][0] == 'raise' and sc['program']['fns'][str(sc['program']['tasks'][e[2] - 1]['fn'])][0] != 'raise':
            out.append({'what': 'a task whose arguments cannot be resolved was started', 'task': e[2], 'worker': e[1], 'at': i})
    # a raise is never followed by a dump of that task by that worker (before it locks it again)
    raised = {}
    for i, e in enumerate(tr):
        if e[0] == 'ERaise':
            raised[(e[1], e[2])] = i
        elif e[0] == 'ELock' and e[3]:
            raised.pop((e[1], e[2]), None)
        elif e[0] == 'EDump' and (e[1], e[2]) in raised:
            out.append({'what': 'a result was stored after the task raised', 'task': e[2], 'worker': e[1], 'at': i})
    # exit status non-zero iff the worker saw a failure
    saw = set(e[1] for e in tr if e[0] == 'ERaise')
    for (w, code, dead, intr) in res.workers:
        if w in clean_ws and code is not None and (code != 0) != (w in saw):
            out.append({'what': 'exit status does not tell whether the worker saw a failure', 'worker': w, 'code': code, 'saw_failure': w in saw})
    # with keep-going everything that does not depend on a failure completes (all workers finished normally)
    if kg and len(clean_ws) == len(res.workers):
        snap = res.snapshots[0]['final'] if res.snapshots else res.final
        for i, c in enumerate(snap):
            if c is None and refs[i][0] == 'ok':
                out.append({'what': 'keep-going: a task independent of every failure has no result after all workers finished', 'task': i + 1})
    # lock states after each phase, and no acquisition of a failed-marked lock
    for k, snap in enumerate(res.snapshots):
        if any(dead or intr for (_, _, dead, intr) in res.workers):
            break
        implied = held_locks_of(tr, snap['at'])
        for t, st in snap['locks'].items():
            if not kf:
                out.append({'what': 'a lock is left after the workers finished (no keep-failed)', 'task': t, 'state': st, 'phase': k})
            elif st != 'failed':
                out.append({'what': 'keep-failed: a held (not failed) lock is left after the workers finished', 'task': t, 'phase': k})
        if kf:
            for t, v in implied.items():
                if v[0] == 'failed' and snap['locks'].get(t) != 'failed':
                    out.append({'what': 'keep-failed: the lock of a failed task is not marked failed in the store', 'task': t, 'phase': k,
                                'store': snap['locks'].get(t)})
    failed_now = set()
    for i, e in enumerate(tr):
        if e[0] == 'EFailMark':
            failed_now.add(e[2])
        elif e[0] in ('EReleaseFailed', 'ERemoveLocks'):
            failed_now.clear()
        elif e[0] == 'ELock' and e[3] and e[2] in failed_now:
            out.append({'what': 'keep-failed: a failed-marked task was locked again before the failed locks were released', 'task': e[2], 'worker': e[1], 'at': i})
        elif e[0] == 'EStart' and e[2] in failed_now:
            out.append({'what': 'keep-failed: a failed-marked task was executed again before the failed locks were released', 'task': e[2], 'worker': e[1], 'at': i})
    # after the failed locks were released (or without keep-failed) a rerun retries the failed tasks
    for k, ph in enumerate(sc['phases']):
        if k == 0 or k >= len(res.phase_marks):
            continue
        if kf and ph.get('pre') != 'release_failed':
            continue
        lo = res.phase_marks[k]
        hi = res.phase_marks[k + 1] if k + 1 < len(res.phase_marks) else len(tr)
        tried = set(e[2] for e in tr[lo:hi] if e[0] in ('EStart', 'ERaise'))
        early = [w for (w, code, dead, intr) in res.workers if dead or intr]
        if early:
            continue
        for i, r in enumerate(refs):
            if r[0] == 'raise' and (i + 1) not in tried and any(e[0] == 'ERaise' and e[2] == i + 1 for e in tr[:lo]):
                # a worker that stops at its first failure (no keep-going) need not reach every failed task
                if kg:
                    out.append({'what': 'a failed task is not retried by a later run', 'task': i + 1, 'phase': k})
    return out


def holding_at(trace, w, upto):
    """the task whose lock worker w holds just before event `upto` (by the events), or None"""
    t = None
    for e in trace[:upto]:
        if len(e) > 1 and e[1] == w:
            if e[0] == 'ELock' and e[3]:
                t = e[2]
            elif e[0] in ('EUnlock', 'EFailMark'):
                t = None
    return t


def oracle_unexplained_results(sc, res):
    """after every phase: a result present in the real store (looked up in the backend directly) belongs to a task that was pre-filled or
    whose store.dump() RETURNED in some worker; anything else is a partial result (e.g. a dump cut short by a stop request / kill)"""
    out = []
    pre = set(t for t, _ in res.r0)
    for k, snap in enumerate(res.snapshots):
        dumped = set(e[2] for e in res.trace[:snap['at']] if e[0] == 'EDump')
        for i, c in enumerate(snap['final']):
            if c is not None and (i + 1) not in dumped and (i + 1) not in pre:
                cut = [e[1] for j, e in enumerate(res.trace[:snap['at']]) if e[0] in ('EInterrupt', 'ECrash')
                       and any(x[0] == 'ERet' and x[1] == e[1] and x[2] == i + 1 for x in res.trace[max(0, j - 3):j])]
                out.append({'what': 'a result is present for a task whose store.dump() never completed (stop request / kill inside dump)',
                            'task': i + 1, 'phase': k, 'stopped_workers': cut, 'content': canon_show(c)[:200]})
    return out


def oracle_c12(sc, res):
    """a stopped worker exits, holds no lock afterwards, stores nothing after the stop request; the rest can be finished"""
    out = []
    tr = res.trace
    for (w, code, dead, intr) in res.workers:
        if intr and not dead and code is None:
            out.append({'what': 'an interrupted worker did not leave execution_loop', 'worker': w})
    for i, e in enumerate(tr):
        if e[0] == 'EInterrupt':
            w = e[1]
            for j in range(i + 1, len(tr)):
                x = tr[j]
                if len(x) > 1 and x[1] == w and x[0] in ('EDump', 'EStart', 'ELock'):
                    out.append({'what': 'a worker asked to stop goes on working (%s)' % x[0], 'worker': w, 'at': j, 'interrupt_at': i})
                    break
        if e[0] == 'EExit':
            w = e[1]
            t = holding_at(tr, w, i)
            if t is not None:
                out.append({'what': 'a worker left execution_loop holding a lock', 'worker': w, 'task': t, 'at': i})
    # the real lock table after each phase in which nobody was killed
    if not any(dead for (_, _, dead, _) in res.workers) and not sc.get('keep_failed'):
        for k, snap in enumerate(res.snapshots):
            if snap['locks']:
                out.append({'what': 'locks are left in the store after all workers exited', 'locks': snap['locks'], 'phase': k})
    return out


def oracle_c13(sc, res):
    """residue of a crash = locks of the dead workers; after remove_locks a fresh run completes without re-running stored tasks"""
    out = []
    tr = res.trace
    dead = set(w for (w, _, d, _) in res.workers if d)
    for k, snap in enumerate(res.snapshots):
        implied = held_locks_of(tr, snap['at'])
        want = {t: v[0] for t, v in implied.items() if v[1] in dead}
        if snap['locks'] != want:
            out.append({'what': 'after the workers stopped the lock table is not exactly the locks of the killed workers',
                        'store': snap['locks'], 'expected': want, 'phase': k})
        for i, c in enumerate(snap['final']):
            if c is not None and (res.refs[i][0] != 'ok' or canon(res.refs[i][1]) != c):
                out.append({'what': 'a result present after a crash is not the correct value', 'task': i + 1, 'phase': k})
    for (w, code, d, intr) in res.workers:
        if not d and not intr and code != 0 and not any(e[0] == 'ERaise' and e[1] == w for e in tr):
            out.append({'what': 'a surviving worker exits with a non-zero status', 'worker': w, 'code': code})
    return out


# ================================================================ running a batch of scenarios for a check
def replay_obj(sc, res, extra):
    o = {'scenario': scenario_with_decisions(sc, res)}
    o.update(extra)
    if res is not None:
        o['trace'] = [ev_show(e) for e in res.trace][:400]
    return o


def scenario_with_decisions(sc, res):
    sc2 = copy.deepcopy(sc)
    if res is not None:
        for ph, d in zip(sc2['phases'], res.decisions):
            ph['decisions'] = d
    return sc2


RARE_KINDS = ('sleep', 'pickle', 'load')       # scheduling-point kinds that a strided enumeration must not skip
WAIT_KEY = 'runs in which a worker sat in the wait loop (sleep scheduling point)'
DUMP_KEY = 'runs with a scheduling point inside store.dump()'


def require_coverage(ck, keys, what):
    """a scheduling-point kind / instant that the check is ABOUT and that no run of this tier reached is a broken check, not a pass
    (e.g. jug holding `sleep` under a name the harness does not patch would silently remove every wait-loop instant)"""
    for k in keys:
        if not ck.dist.get(k):
            ck.broken.append('coverage lost: %s - no run reached %r' % (what, k))


def count_points(ck, res):
    kinds = set(k for ks in res.kinds.values() for k in ks)
    if 'sleep' in kinds:
        ck.count(WAIT_KEY)
    if 'pickle' in kinds:
        ck.count(DUMP_KEY)


class Batch:
    """collects runs of one check, evaluates the Coq side in shards, reports violations"""

    def __init__(self, ck, name='exec'):
        self.ck = ck
        self.name = name
        self.items = []       # (sc, res, case text)
        self.found = []       # direct-oracle findings, reported after the Coq verdicts
        self.harness_errors = 0
        self.chunk = 0

    def run(self, sc, oracles=()):
        """run one scenario, apply the direct oracles (functions (sc, res) -> list of finding dicts), queue the Coq case"""
        ck = self.ck
        try:
            res = run_scenario(sc)
        except HarnessError as e:
            self.harness_errors += 1
            ck.count('harness-error')
            if self.harness_errors <= 3:
                ck.broken.append('exec harness error: %s' % str(e)[:300])
                ck.violation({'kind': 'harness-error', 'what': 'harness-error: ' + str(e)[:80], 'scenario': sc}, found_input=False)
            return None
        found = list(res.findings)
        for o in oracles:
            found.extend(o(sc, res))
        for f in found:
            self.found.append((sc, res, f))
        self.items.append((sc, res, case_coq(sc, res)))
        if len(self.items) >= 1600:
            self.flush_coq()
        ck.count('backend:' + sc.get('backend', 'dict'))
        ck.count('workers:%d' % sum(len(ph['workers']) for ph in sc['phases']))
        ck.count('tasks:%d' % res.ntasks)
        ck.count('events', len(res.trace))
        count_points(ck, res)
        ck.distinct((sc['program'], res.decisions, sc.get('backend')), len(res.trace) > 4)
        return res

    def flush(self):
        ck = self.ck
        self.flush_coq()
        per = {}
        for sc, res, f in self.found:
            per[f['what']] = per.get(f['what'], 0) + 1
            if per[f['what']] <= 2:
                ck.violation(replay_obj(sc, res, {'kind': 'impl-violation', 'what': f['what'], 'finding': f}))
            else:
                ck.suppressed += 1
        self.found = []

    def flush_coq(self):
        ck = self.ck
        if not self.items:
            return
        cases = [c for _, _, c in self.items]
        shard = min(60, max(8, (len(cases) + 15) // 16))
        name = self.name if self.chunk == 0 else '%s%d' % (self.name, self.chunk)
        self.chunk += 1
        failing = ck.cases(name, IMPORTS, 'exec_case', 'exec_case_ok', cases, shard=shard)
        if failing:
            for idx in failing[:4]:
                sc, res, text = self.items[idx]
                d = diag(ck.prop, text, tag=str(idx))
                if d.get('reject') is not None:
                    i = d['reject']
                    e = res.trace[i]
                    wid = e[1] if len(e) > 1 else None
                    recent = [(j, ev_show(x)) for j, x in enumerate(res.trace[:i + 1]) if len(x) > 1 and x[1] == wid][-12:]
                    ck.violation(replay_obj(sc, res, {'kind': 'correspondence', 'what': 'protocol-violation: ' + e[0],
                                                      'rejected_index': i, 'rejected_event': ev_show(e), 'worker_recent': recent}))
                elif 'error' not in d:
                    ck.violation(replay_obj(sc, res, {'kind': 'correspondence', 'what': 'final-store-differs-from-model',
                                                      'final': [None if c is None else canon_show(c) for c in res.final]}))
                else:
                    ck.broken.append('exec_case_diag did not evaluate: ' + d['error'].replace('\n', ' | '))
            for idx in failing[4:]:
                ck.suppressed += 1
        seqf = ck.cases(name + '_seq', IMPORTS, 'exec_case', 'final_is_sequential', cases, shard=shard)
        for idx in (seqf or [])[:3]:
            sc, res, text = self.items[idx]
            ck.violation(replay_obj(sc, res, {'kind': 'correspondence', 'what': 'final-store-not-sequential',
                                              'final': [None if c is None else canon_show(c) for c in res.final]}))
        self.items = []


def replay_scenario(obj, oracles=()):
    """re-execute the scenario of a replay object against /repo; prints the outcome; 0 = behaves, 1 = violation reproduced"""
    sc = obj['scenario']
    res = run_scenario(sc)
    found = list(res.findings)
    for o in oracles:
        found.extend(o(sc, res))
    text = case_coq(sc, res)
    d = diag(obj.get('property', 'CXX'), text, tag='replay')
    print('trace (%d events):' % len(res.trace))
    for i, e in enumerate(res.trace):
        print('  %3d %s' % (i, ev_show(e)))
    print('final store:', [None if c is None else canon_show(c) for c in res.final])
    print('locks left:', res.locks)
    print('expected (recorded):', obj.get('what'), obj.get('rejected_event', ''), obj.get('finding', ''))
    bad = False
    if 'error' in d:
        print('observed: the Coq query did not evaluate: %s' % d['error'])
        bad = True
    elif d['reject'] is not None:
        print('observed: the model rejects event %d: %s' % (d['reject'], ev_show(res.trace[d['reject']])))
        bad = True
    else:
        print('observed: all events accepted by the model; final store agrees with the model: %s; final store sequential: %s' % (d['ok'], d['seq']))
        bad = not (d['ok'] and d['seq'])
    for f in found:
        print('observed: direct oracle: %s' % json.dumps(f, default=repr)[:600])
        bad = True
    if not bad:
        print('observed: no violation on this tree')
    return 1 if bad else 0


# ================================================================ scenario generators shared by the drivers
STALL_KINDS = ('lock', 'can_load', 'dump', 'unlock', 'start', 'ret', 'load', 'sleep', 'hook_exec1')


def gen_policy(rng, nw, flavour=None):
    """a schedule description: random with varying bias, round-robin, serial, stalls, late joiners, stall-at-operation"""
    flavour = flavour or rng.choice(['random', 'random', 'biased', 'sticky', 'rr', 'serial', 'reverse', 'stall', 'late', 'stall_at', 'stall_at', 'mixed'])
    d = {'seed': rng.randrange(1 << 30), 'base': 'random', 'flavour': flavour}
    if flavour in ('rr', 'serial', 'reverse'):
        d['base'] = flavour
    if flavour in ('biased', 'mixed'):
        d['weights'] = [rng.choice([1, 1, 3, 10, 30]) for _ in range(nw)]
    if flavour in ('sticky', 'mixed'):
        d['sticky'] = rng.choice([0.5, 0.8, 0.95])
    if flavour in ('stall', 'mixed'):
        a = rng.randint(0, 60)
        d['stalls'] = [[rng.randrange(nw), a, a + rng.randint(5, 120)] for _ in range(rng.randint(1, 2))]
    if flavour in ('late', 'mixed'):
        d['late'] = {str(k): rng.randint(1, 120) for k in range(nw) if rng.random() < 0.6}
    if flavour in ('stall_at', 'mixed'):
        d['stall_at'] = [[rng.randrange(nw), rng.choice(STALL_KINDS[:7]), rng.randint(5, 150), rng.randint(0, 4)] for _ in range(rng.randint(1, 3))]
    if rng.random() < 0.5:
        add_time_passes(rng, d)
    return d


LONG_TIMES = (3600.0, 2 * 86400.0, 40 * 86400.0, 10 * 365 * 86400.0)


def add_time_passes(rng, pol, upto=150):
    """an hour / two days / forty days / ten years go by at one to three random instants of the schedule"""
    pol['time_passes'] = sorted([rng.randint(1, upto), rng.choice(LONG_TIMES)] for _ in range(rng.randint(1, 3)))
    return pol


def gen_workers(rng, nw, patient=True):
    ws = [{'nr_wait': rng.choice([1, 2, 3, 5] if not patient else [2, 3, 5]), 'unload': rng.random() < 0.35} for _ in range(nw)]
    if not patient:
        return ws
    return ws


def pick_backend(rng, weights=(6, 2, 1, 2)):
    return rng.choices(BACKENDS, weights=weights)[0]


def closed_subset(rng, spec, p=0.5, only_ok=None):
    """random dependency-closed subset of the tasks (indices)"""
    chosen = set()
    for i, ts in enumerate(spec['tasks']):
        if only_ok is not None and only_ok[i][0] != 'ok':
            continue
        if task_deps_spec(ts) <= chosen and rng.random() < p:
            chosen.add(i)
    return sorted(chosen)


def nontrivial_deps(spec):
    return sum(1 for ts in spec['tasks'] if task_deps_spec(ts))


def count_preemptions(seq, alts):
    n = 0
    for i in range(1, len(seq)):
        if seq[i] != seq[i - 1] and seq[i - 1] in alts[i]:
            n += 1
    return n


def enumerate_schedules(batch, sc0, oracles, max_preempt=None, max_runs=100000):
    """run EVERY schedule of phase 0 of sc0 (optionally: every schedule with at most `max_preempt` preemptions), depth first.
    Each node re-executes the program under a scripted prefix and continues without preemption.  -> (runs, exhausted?)"""
    stack = [[]]
    runs = 0
    while stack:
        if runs >= max_runs:
            return runs, False
        prefix = stack.pop()
        sc = copy.deepcopy(sc0)
        sc['phases'][0]['policy'] = {'base': 'stay', 'flavour': 'enumerated'}
        sc['phases'][0]['decisions'] = [[w, 'go'] for w in prefix]
        res = batch.run(sc, oracles)
        runs += 1
        if res is None:
            continue
        seq = [d[0] for d in res.decisions[0]]
        alts = res.alts[0]
        if seq[:len(prefix)] != prefix:
            raise HarnessError('enumeration: the scripted prefix was not followed (non-deterministic run?)')
        for i in range(len(seq) - 1, len(prefix) - 1, -1):
            for a in alts[i]:
                if a != seq[i]:
                    cand = seq[:i] + [a]
                    if max_preempt is None or count_preemptions(cand, alts) <= max_preempt:
                        stack.append(cand)
    return runs, True


# ================================================================ sanity (spec 1.6)
def sanity_scenario(backend='dict'):
    """hand-written: t1 = f0(1) -> [H,1]; t2 = f1(t1[0], b=t1); t3 = f2([t1, t2[1:]], t1[1]) ... 2 workers, round-robin"""
    spec = {'fns': {'0': ['list', 1], '1': ['tuple', 2], '2': ['app']},
            'tasks': [{'fn': 0, 'args': [['val', ['i', 1]]], 'kwargs': []},
                      {'fn': 1, 'args': [['getitem', ['task', 0], ['val', ['i', 0]]]], 'kwargs': [['b', ['task', 0]]]},
                      {'fn': 2, 'args': [['list', [['task', 0], ['getitem', ['task', 1], ['val', ['s', 1, None, None]]]]],
                                         ['getitem', ['task', 0], ['val', ['i', 1]]]], 'kwargs': []}]}
    return {'program': spec, 'backend': backend, 'prefill': [], 'keep_going': False, 'keep_failed': False, 'check_values': True,
            'phases': [{'workers': [{'nr_wait': 3}, {'nr_wait': 3}], 'policy': {'base': 'rr'}}]}


def sanity(prop='C02'):
    sc = sanity_scenario()
    res = run_scenario(sc)
    d = diag(prop, case_coq(sc, res), tag='sanity')
    return sc, res, d


if __name__ == '__main__':
    import sys
    for be in BACKENDS:
        sc = sanity_scenario(be)
        res = run_scenario(sc)
        if be == 'dict':
            for i, e in enumerate(res.trace):
                print('  %3d %s' % (i, ev_show(e)))
        d = diag('C02', case_coq(sc, res), tag='sanity')
        print(be, 'events', len(res.trace), 'final', [None if c is None else canon_show(c) for c in res.final], 'locks', res.locks, 'coq', d)
        print('   oracles', res.findings, oracle_c02(res.trace, True, res.ntasks), oracle_sound(res), oracle_complete(res), oracle_values(sc, res))
