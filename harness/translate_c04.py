"""Translator for C04: regenerates coq/Gen/LockConsts.v from /repo's AST.

Extracted: the lock markers of the redis lock (`_LOCKED`, `_FAILED` in jug/backends/redis_store.py,
byte strings) and of the dict lock (`_NOT_LOCKED, _LOCKED, _FAILED` in jug/backends/dict_store.py,
integers).  The expiry of the keep-alive lock and `_FAILED_TIMESTAMP` come from
Gen/KeepaliveParams.v (harness/translate_c19.py).

Fail closed: a marker that is not a module-level constant bound exactly once, or not of the expected
type, raises TranslateError."""
import ast

from .translate import extractor, parse, TranslateError

REDIS = 'jug/backends/redis_store.py'
DICT = 'jug/backends/dict_store.py'


def enc_bytes(v):
    """Injective encoding of a byte string as an integer (one byte: its code)."""
    if len(v) == 1:
        return v[0]
    return int.from_bytes(b'\x01' + bytes(v), 'big') + 256


def range_values(v):
    """[ints] for a call range(<int literals>) (the builtin, positional arguments only), else None"""
    if isinstance(v, ast.Call) and isinstance(v.func, ast.Name) and v.func.id == 'range' and not v.keywords \
            and 1 <= len(v.args) <= 3 and all(isinstance(a, ast.Constant) and type(a.value) is int for a in v.args):
        try:
            r = range(*[a.value for a in v.args])
        except ValueError:
            return None
        return list(r) if len(r) <= 64 else None
    return None


def module_constants(rel, names):
    """Values of module-level names, each bound exactly once by `a = const` or `a, b = c1, c2`."""
    mod = parse(rel)
    found = {}
    for node in ast.walk(mod):
        targets = []
        if isinstance(node, ast.Assign):
            targets = node.targets
        elif isinstance(node, (ast.AugAssign, ast.AnnAssign)):
            targets = [node.target]
        elif isinstance(node, (ast.Global, ast.Nonlocal)):
            if set(node.names) & set(names):
                raise TranslateError('%s: global/nonlocal declaration of a lock marker' % rel)
        elif isinstance(node, (ast.Import, ast.ImportFrom)):
            for a in node.names:
                if (a.asname or a.name) in names:
                    raise TranslateError('%s: lock marker %s is imported' % (rel, a.asname or a.name))
        elif isinstance(node, (ast.FunctionDef, ast.ClassDef)) and node.name in names:
            raise TranslateError('%s: lock marker %s is a def/class' % (rel, node.name))
        for t in targets:
            for x in ast.walk(t):
                if isinstance(x, ast.Name) and x.id in names:
                    if node not in mod.body:
                        raise TranslateError('%s: %s is assigned outside module level (line %d)' % (rel, x.id, node.lineno))
                    if isinstance(node, ast.AnnAssign):          # NAME: type = literal
                        if node.value is None or not isinstance(node.target, ast.Name):
                            raise TranslateError('%s: annotated %s without a value' % (rel, x.id))
                        pairs = [(node.target, node.value)]
                    elif not isinstance(node, ast.Assign) or len(node.targets) != 1:
                        raise TranslateError('%s: unexpected kind of assignment to %s' % (rel, x.id))
                    else:
                        t0, v = node.targets[0], node.value
                        if isinstance(t0, ast.Name):
                            pairs = [(t0, v)]
                        elif isinstance(t0, (ast.Tuple, ast.List)) and isinstance(v, (ast.Tuple, ast.List)) and len(t0.elts) == len(v.elts):
                            pairs = list(zip(t0.elts, v.elts))
                        elif isinstance(t0, (ast.Tuple, ast.List)) and range_values(v) is not None and len(range_values(v)) == len(t0.elts):
                            pairs = [(t, ast.Constant(value=i)) for t, i in zip(t0.elts, range_values(v))]      # a, b, c = range(3)
                        else:
                            raise TranslateError('%s: unexpected shape of the assignment at line %d' % (rel, node.lineno))
                    for tt, vv in pairs:
                        if isinstance(tt, ast.Name) and tt.id == x.id:
                            if isinstance(vv, ast.UnaryOp) and isinstance(vv.op, ast.USub) and isinstance(vv.operand, ast.Constant) \
                                    and type(vv.operand.value) is int:
                                vv = ast.Constant(value=-vv.operand.value)
                            if not isinstance(vv, ast.Constant):
                                raise TranslateError('%s: %s is not a literal constant' % (rel, x.id))
                            if x.id in found:
                                raise TranslateError('%s: %s is bound more than once' % (rel, x.id))
                            found[x.id] = vv.value
    for n in names:
        if n not in found:
            raise TranslateError('%s: constant %s was not found' % (rel, n))
    return found


def extract():
    r = module_constants(REDIS, ('_LOCKED', '_FAILED'))
    for k, v in r.items():
        if type(v) is not bytes:
            raise TranslateError('%s: %s is expected to be a bytes literal, found %r' % (REDIS, k, v))
    d = module_constants(DICT, ('_NOT_LOCKED', '_LOCKED', '_FAILED'))
    for k, v in d.items():
        if type(v) is not int:
            raise TranslateError('%s: %s is expected to be an int literal, found %r' % (DICT, k, v))
    return dict(redis_L=enc_bytes(r['_LOCKED']), redis_F=enc_bytes(r['_FAILED']),
                redis_L_src=repr(r['_LOCKED']), redis_F_src=repr(r['_FAILED']),
                dict_0=d['_NOT_LOCKED'], dict_L=d['_LOCKED'], dict_F=d['_FAILED'])


def render(c):
    return '''(* Lock markers, extracted from
     jug/backends/redis_store.py   _LOCKED = %(redis_L_src)s ; _FAILED = %(redis_F_src)s   (one byte: its code)
     jug/backends/dict_store.py    _NOT_LOCKED, _LOCKED, _FAILED = %(dict_0)d, %(dict_L)d, %(dict_F)d
   The failed time stamp of the file locks and the expiry of the keep-alive lock are those of
   Gen/KeepaliveParams.v.  [now] is the value of time() during the run = mtime of a fresh lock file. *)
From Coq Require Import ZArith.
From JugV Require Model.LockPrims Gen.KeepaliveParams.
Local Open Scope Z_scope.

Definition redis_LOCKED : Z := (%(redis_L)d).
Definition redis_FAILED : Z := (%(redis_F)d).
Definition dict_NOT_LOCKED : Z := (%(dict_0)d).
Definition dict_LOCKED : Z := (%(dict_L)d).
Definition dict_FAILED : Z := (%(dict_F)d).

Definition lock_params (now : Z) : LockPrims.params :=
  LockPrims.mkParams now KeepaliveParams.ka_expiry KeepaliveParams.ka_failed_mtime
                     redis_LOCKED redis_FAILED dict_NOT_LOCKED dict_LOCKED dict_FAILED.
''' % c


@extractor('LockConsts.v')
def lock_consts():
    return render(extract())
