"""C13 - after a hard crash, completed work survives and the computation can be finished.

Proof: Props/C13.v over Model/Exec.v (ECrash at any point leaves results unchanged; residue = locks held by dead
workers; after ERemoveLocks with every holder dead a fresh run completes and never starts a stored task).
Tie (trace validation): for small programs EVERY scheduling point of a worker (every store / lock call boundary,
function entry / return, hooks, sleep) is used in turn as the kill point: the worker thread is stopped for ever and
its `finally: unlock` never reaches the real store; the other workers run on; then the REAL `jug cleanup --locks-only`
command body (store.remove_locks()) runs and fresh workers finish.  All four backends.  Every trace must be accepted
by the model (ECrash, ERemoveLocks with its "all holders dead" guard, the recovery workers' events).
Search (independent of Coq): before recovery the real lock table is exactly the locks of the killed workers and every
stored value is correct; survivors exit 0; after recovery everything is complete with the sequential values and no
task stored before is started again.  Thorough tier: real `jug execute` processes on a file store get SIGKILL."""
from . import exectrace as X

# hypotheses of this property's theorems that are other properties of the list: their ties are re-run (reduced) by
# harness/main.py after this module's run(); a failure there is reported as a violation of this property
HYPOTHESES = {
    'C05': (0.5, 'dump is all-or-nothing under crashes: what was stored before the crash is complete and readable after it'),
    'C04': (0.4, 'locks of a dead worker stay held until remove_locks, which frees exactly the locks'),
}

EVIDENCE = dict(
    level='proof',
    rule='one case = (program, worker configuration, schedule, kill point) -> recorded run + remove_locks + recovery run; '
         'non-trivial when a worker was killed; distinct = distinct (program, schedule decisions, backend)',
    explanation='Coq theorems over Model/Exec.v + trace validation of real lock-step runs with a worker killed at every scheduling point, '
                'real remove_locks and recovery + direct oracles on lock residue, store content and invocation log',
)


def o_c13(sc, res):
    return X.oracle_c13(sc, res) + X.oracle_unexplained_results(sc, res) + X.oracle_sound(res) + X.oracle_c02(res.trace) + X.oracle_complete(res)


ORACLES = (o_c13,)
SHAPES = ['one', 'chain2', 'chain3', 'fork', 'join', 'indep2', 'diamond']


def recovery(rng):
    nw = rng.choice([1, 1, 2])
    return {'pre': 'remove_locks', 'workers': [{'nr_wait': 3, 'unload': rng.random() < 0.3} for _ in range(nw)],
            'policy': {'seed': rng.randrange(1 << 30), 'base': rng.choice(['serial', 'random', 'rr'])}}


def systematic(ck, b, nbases, stride):
    rng = ck.rng
    for i in range(nbases):
        shape = SHAPES[i % len(SHAPES)]
        spec = X.small_program(shape) if rng.random() < 0.7 else X.gen_program(rng, rng.randint(1, 3), clean=True, rich=0.3)
        nw = 1 if i % 3 == 0 else 2
        sc0 = {'program': spec, 'backend': X.pick_backend(rng, (4, 3, 1, 3)), 'prefill': [], 'keep_going': False, 'keep_failed': False,
               'phases': [{'workers': [{'nr_wait': rng.choice([2, 3]), 'unload': rng.random() < 0.3} for _ in range(nw)],
                           'policy': {'seed': rng.randrange(1 << 30), 'base': rng.choice(['random', 'rr']), 'flavour': 'systematic'}},
                          recovery(rng)]}
        if i % 3 == 2:
            sc0['phases'][0]['policy'].update({'base': 'reverse', 'stall_at': [[1, 'ret', rng.choice([25, 60]), 0]]})
            sc0['phases'][0]['workers'][0]['nr_wait'] = rng.choice([2, 4])
        try:
            res0 = X.run_scenario(sc0)
        except X.HarnessError as e:
            ck.broken.append('exec harness error: %s' % str(e)[:200])
            continue
        kinds = res0.kinds[0]
        off = rng.randrange(stride)
        chosen = sorted(set(list(range(len(kinds)))[off::stride]) | set(n for n in range(len(kinds)) if kinds[n] in X.RARE_KINDS))
        for n in chosen:
            sc = X.copy.deepcopy(sc0)
            sc['phases'][0]['policy']['inject'] = [[0, n, 'crash']]
            sc['phases'][0]['policy']['flavour'] = 'kill-at:' + kinds[n]
            res = b.run(sc, ORACLES)
            if res is not None:
                killed = any(e[0] == 'ECrash' for e in res.trace)
                ck.count('kill-at:%s%s' % (kinds[n], '' if killed else ' (schedule diverged: not delivered)'))
                for j, e in enumerate(res.trace):
                    if e[0] == 'ECrash':
                        ck.count('killed-while-holding-a-lock' if X.holding_at(res.trace, e[1], j) is not None else 'killed-while-holding-no-lock')


def random_kills(ck, b, n):
    rng = ck.rng
    for i in range(n):
        spec = X.gen_program(rng, rng.randint(2, 7), clean=True, rich=0.5, use_map=rng.random() < 0.15)
        nw = rng.randint(1, 4)
        pol = X.gen_policy(rng, nw)
        pol['inject_kind'] = [[k, rng.choice(X.STALL_KINDS + ('begin', 'hook_pre', 'can_load', 'lock', 'dump', 'unlock')), rng.randint(0, 2), 'crash']
                              for k in rng.sample(range(nw), rng.randint(1, min(2, nw)))]
        refs = X.ref_program(spec)
        sc = {'program': spec, 'backend': X.pick_backend(rng, (4, 3, 1, 3)), 'prefill': X.closed_subset(rng, spec, 0.3, refs) if rng.random() < 0.2 else [],
              'keep_going': rng.random() < 0.3, 'keep_failed': False,
              'phases': [{'workers': X.gen_workers(rng, nw), 'policy': pol}, recovery(rng)]}
        if rng.random() < 0.25:
            # a second crash during recovery, then another cleanup + recovery
            sc['phases'][1]['policy']['inject_kind'] = [[0, rng.choice(X.STALL_KINDS), rng.randint(0, 3), 'crash']]
            sc['phases'].append(recovery(rng))
        res = b.run(sc, ORACLES)
        if res is not None:
            ck.count('random-kill:%d-killed' % sum(1 for e in res.trace if e[0] == 'ECrash'))


def run(ck):
    ck.prove()
    ck.assumptions = ['store.dump / lock operations are atomic under kill at the granularity of one call (C05 covers a kill inside file_store.dump, C04 inside lock creation)']
    b = X.Batch(ck)
    b.run(X.sanity_scenario(), ORACLES)
    systematic(ck, b, ck.n(14, 110), ck.n(2, 1))
    random_kills(ck, b, ck.n(70, 1200))
    for sc, res, _ in b.items[:400]:
        if len(ck.samples) < 3 and any(e[0] == 'ECrash' for e in res.trace):
            ck.sample({'program': sc['program'], 'backend': sc['backend'], 'events': [X.ev_show(e) for e in res.trace[:40]]})
    X.require_coverage(ck, ['kill-at:%s' % k for k in ('sleep', 'pickle', 'ret', 'start', 'dump', 'unlock', 'lock', 'can_load', 'begin')],
                       'kill at every kind of scheduling point')
    b.flush()
    # real SIGKILL of real `jug execute` processes on a file store (also INSIDE file_store.dump), cleanup --locks-only, recovery
    from . import execproc
    execproc.kill_runs(ck, ck.n(4, 30))
    X.require_coverage(ck, ['process-run:kill:in-dump:delivered'], 'real SIGKILL inside file_store.dump')


def replay(obj):
    if obj.get('kind') == 'process-run' or obj.get('kind2') == 'process-run':
        from . import execproc
        return execproc.replay(obj)
    return X.replay_scenario(obj, ORACLES)
