"""Monkeypatching that does not depend on how the code under test spells its imports.

`patch_everywhere(orig, new)` replaces the object `orig` by `new` on its home (module / class attribute given by `home`, `name`) AND in
every global variable of every loaded module of the code under test (`jug`, `jug.*` by default) that IS `orig` - i.e. also where the
code did `from time import sleep` at module level and therefore holds the original function.  On exit everything is restored: the home
attribute, the patched globals, and any global that picked up `new` meanwhile (a module imported while the patch was active)."""
import contextlib
import sys


def _modules(prefixes):
    out = []
    for name, mod in list(sys.modules.items()):
        if mod is None:
            continue
        if any(name == p or name.startswith(p + '.') for p in prefixes):
            out.append(mod)
    return out


def holders(obj, prefixes=('jug',)):
    """(module, global name) pairs of loaded modules whose global IS obj"""
    out = []
    for mod in _modules(prefixes):
        try:
            items = list(vars(mod).items())
        except TypeError:
            continue
        for k, v in items:
            if v is obj:
                out.append((mod, k))
    return out


@contextlib.contextmanager
def patch_everywhere(orig, new, home=None, name=None, prefixes=('jug',)):
    touched = []
    if home is not None:
        setattr(home, name, new)
    for mod, k in holders(orig, prefixes):
        if mod is home and k == name:
            continue
        setattr(mod, k, new)
        touched.append((mod, k))
    try:
        yield touched
    finally:
        if home is not None:
            setattr(home, name, orig)
        for mod, k in touched:
            setattr(mod, k, orig)
        for mod, k in holders(new, prefixes):       # imported (from X import name) while the patch was active
            if not (mod is home and k == name):
                setattr(mod, k, orig)
