"""C01 - distributed execution computes what plain sequential Python would compute.

Proof: Props/C01.v over Model/Exec.v + Model/Deps.v (soundness of every stored value, completeness at quiescence,
idempotence of a second execute).
Tie (trace validation): generated programs (positional / keyword / nested container arguments, tasklets,
task(let)-valued indices, return_tuple-style checks, mapped sequences and their slices, CustomHash, NoHash,
identity) are realised as real jug objects; 1-5 workers (late joiners, early leavers, aggressive unloading on
and off) run the REAL execution_loop in lock-step on dict_store, file_store, packed file_store and redis_store
(fake server), from an empty or partly / fully pre-filled store, followed by a second execute; coqc checks
`exec_case_ok` (trace accepted, final store = model) and `final_is_sequential` on every run.
Search (independent of Coq): the same program evaluated as plain nested Python calls must equal value() of
every task, tasklet and container after the run; everything is complete; the second execute invokes nothing
and leaves the store unchanged.
End to end (harness/e2e.py): generated jugfile texts (numpy results incl. subclasses, tasklets of tasklets, mapreduce,
compounds, barrier / bvalue phases, set_jugdir) run by 1-4 real concurrent `jug execute` processes, `jug pack`, a
reader process - compared name by name and type-exactly with the same text run under a stub `jug` package in which
Task(f, ...) is the direct call f(...); every call line exactly once; the last execute idle."""
from . import exectrace as X

# hypotheses of this property's theorems that are other properties of the list: their ties are re-run (reduced) by
# harness/main.py after this module's run(); a failure there is reported as a violation of this property
HYPOTHESES = {
    'C06': (0.5, 'the result store is a faithful key-value map on every backend (what one worker dumps is what every other loads)'),
    'C08': (0.5, 'different invocations have different identifiers (one result slot per invocation)'),
    'C14': (0.4, 'loading the jugfile: barrier / bvalue phases see exactly the stored results'),
}

EVIDENCE = dict(
    level='proof',
    rule='one case = (program, initial store, backend, worker configuration, schedule) -> one recorded clean run to completion '
         '(+ second execute); non-trivial when the trace has more than 4 events; distinct = distinct (program, schedule decisions, backend)',
    explanation='Coq theorems over Model/Exec.v/Deps.v + trace validation of real lock-step runs on 4 backends + comparison of every '
                'value() with plain nested Python calls',
)


def o_c01(sc, res):
    out = X.oracle_sound(res) + X.oracle_complete(res) + X.oracle_values(sc, res)
    out += X.oracle_c02(res.trace, clean_complete=True, ntasks=res.ntasks, prefilled=set(sc.get('prefill', [])))
    # a later execute runs nothing and changes nothing
    if len(res.phase_marks) > 1:
        lo = res.phase_marks[1]
        for i, e in enumerate(res.trace[lo:]):
            if e[0] in ('EStart', 'EDump', 'ELock'):
                out.append({'what': 'a second execute is not idle', 'event': X.ev_show(e), 'at': lo + i})
        if res.snapshots[0]['final'] != res.final:
            out.append({'what': 'a second execute changed the store'})
    for (w, code, dead, intr) in res.workers:
        if code != 0:
            out.append({'what': 'a worker of a clean run exits with a non-zero status', 'worker': w, 'code': code})
    if res.locks:
        out.append({'what': 'a lock is left after a clean run', 'locks': res.locks})
    return out


ORACLES = (o_c01,)


def scenarios(ck):
    rng = ck.rng
    yield X.sanity_scenario()
    for be in X.BACKENDS:
        yield X.sanity_scenario(be)
    n = ck.n(170, 4000)
    for i in range(n):
        nt = rng.randint(1, 8)
        heavy = rng.random() < 0.25
        spec = X.gen_program(rng, max(nt, 4) if heavy else nt, clean=True, rich=rng.choice([0.3, 0.6, 0.9]), use_map=rng.random() < 0.3,
                             chainy=rng.choice([0.2, 0.5, 0.8]), map_heavy=heavy)
        nt = len(spec['tasks'])
        nw = rng.choice([1, 2, 2, 3, 3, 4, 5])
        r = rng.random()
        refs = X.ref_program(spec)
        if r < 0.55:
            pre = []
        elif r < 0.85:
            pre = X.closed_subset(rng, spec, rng.choice([0.3, 0.7]), refs)
        else:
            pre = list(range(nt))           # everything present: the first execute is already idle
        ws = X.gen_workers(rng, nw, patient=rng.random() < 0.5)
        phases = [{'workers': ws, 'policy': X.gen_policy(rng, nw)}]
        if rng.random() < 0.5:
            nw2 = rng.randint(1, 2)
            phases.append({'workers': X.gen_workers(rng, nw2), 'policy': X.gen_policy(rng, nw2)})
        yield {'program': spec, 'backend': X.pick_backend(rng, (4, 3, 2, 3)), 'prefill': pre, 'keep_going': rng.random() < 0.2,
               'keep_failed': rng.random() < 0.2, 'check_values': True, 'phases': phases}


def run(ck):
    ck.prove()
    ck.assumptions = ['task functions are deterministic and side-effect free (free constructors in the generated programs)',
                      'barrier / bvalue / CompoundTask (jugfile loading) are outside this model: covered by C14 / C18']
    b = X.Batch(ck)
    for sc in scenarios(ck):
        res = b.run(sc, ORACLES)
        if res is not None:
            ck.count('prefill:' + ('none' if not sc['prefill'] else 'all' if len(sc['prefill']) == res.ntasks else 'some'))
            ck.count('phases:%d' % len(sc['phases']))
            ck.count('unload:%s' % any(w.get('unload') for ph in sc['phases'] for w in ph['workers']))
            ck.count('policy:' + sc['phases'][0]['policy'].get('flavour', '?'))
            if len(ck.samples) < 3 and len(res.trace) > 30:
                ck.sample({'program': sc['program'], 'backend': sc['backend'], 'events': [X.ev_show(e) for e in res.trace[:30]]})
    X.require_coverage(ck, [X.WAIT_KEY, X.DUMP_KEY], 'lock-step runs')
    b.flush()
    cli_persistence(ck)
    # end to end: generated jugfile TEXTS run by real concurrent `jug execute` processes (file / keep-alive / dict /
    # redis-protocol stand-in backends, pack, late workers, barrier phases) against the same text run with a stub `jug`
    # package in which a Task is a direct call (harness/e2e.py)
    from . import e2e
    e2e.run_section(ck, 28, 400)


# ---- the command-line path: what `jug execute` computed must be there for the NEXT process, on every backend that has
#      a location (file store, keep-alive file store, in-memory store with its backing file) -------------------------
CLI_JUGFILE = '''
from jug import TaskGenerator, Tasklet
@TaskGenerator
def one(x):
    return [x, x + 1]
@TaskGenerator
def two(a, b=0):
    return (a, b)
t1 = one(1)
t2 = two(t1[1], b=t1)
t3 = two([t2, t1[0]])
'''
CLI_EXPECTED = {'t1': [1, 2], 't2': (2, [1, 2]), 't3': ([(2, [1, 2]), 1], 0)}
CLI_READER = '''
import sys, json
from jug import init, value
store, space = init('jf.py', sys.argv[1])
out = {}
for k in ('t1', 't2', 't3'):
    try:
        out[k] = repr(value(space[k]))
    except BaseException as e:
        out[k] = 'ERR ' + type(e).__name__
print('@@' + json.dumps(out))
'''


def cli_persistence(ck):
    import json
    import os
    import subprocess
    import sys
    from . import core, jugrun
    env = dict(os.environ, PYTHONPATH=core.REPO, PYTHONHASHSEED='0')
    main = "import sys; from jug.jug import main; main(['jug'] + sys.argv[1:])"
    for spec in ('jd', 'file_keepalive:jdk', 'dict_store:st.pkl'):
        with jugrun.scratch_dir('jugv_c01cli_') as d:
            with open(os.path.join(d, 'jf.py'), 'w') as f:
                f.write(CLI_JUGFILE)
            with open(os.path.join(d, 'reader.py'), 'w') as f:
                f.write(CLI_READER)
            runs = []
            for args in (['execute', 'jf.py', '--will-cite', '--jugdir', spec, '--nr-wait-cycles', '1', '--wait-cycle-time', '0'],
                         ['check', 'jf.py', '--jugdir', spec]):
                p = subprocess.run([sys.executable, '-c', main] + args, cwd=d, env=env, stdout=subprocess.PIPE,
                                   stderr=subprocess.STDOUT, text=True, timeout=120)
                runs.append((args[0], p.returncode, p.stdout[-300:]))
            p = subprocess.run([sys.executable, 'reader.py', spec], cwd=d, env=env, stdout=subprocess.PIPE,
                               stderr=subprocess.STDOUT, text=True, timeout=120)
            got = None
            for line in p.stdout.splitlines():
                if line.startswith('@@'):
                    got = json.loads(line[2:])
            want = {k: repr(v) for k, v in CLI_EXPECTED.items()}
            ck.count('cli-persistence:' + spec.split(':')[0])
            ck.case_total += 1
            ck.distinct(('cli', spec), True)
            if runs[0][1] != 0 or runs[1][1] != 0 or got != want:
                ck.violation({'kind': 'impl-violation',
                              'what': 'what `jug execute` computed is not there for the next process (%s)' % spec.split(':')[0],
                              'jugdir': spec, 'jugfile': CLI_JUGFILE, 'execute_exit': runs[0][1], 'check_exit_in_a_new_process': runs[1][1],
                              'values_in_a_new_process': got, 'expected': want, 'execute_output_tail': runs[0][2]})


def replay(obj):
    if obj.get('section') == 'e2e':
        from . import e2e
        return e2e.replay(obj)
    return X.replay_scenario(obj, ORACLES)
