"""C16 - tasklets and wrappers are transparent views that carry their dependencies.

Proof: Props/C16.v over Model/Deps.v (Proofs/DepsFacts.v, Proofs/DepsInvalidateFacts.v).
Tie: real jug objects (tasklets of tasklets, task- and tasklet-valued indices, iteratetask,
return_tuple, slices of slices of mapped sequences, negative indices, CustomHash around containers,
NoHash, identity, containers) built over base tasks with chosen results, some stored and some not;
the observed outcome of value() (a value / AssertionError of Task.load = missing / any other
exception = raised) and Task.dependencies() of a consumer versus the model's resolve / impl_deps
evaluated in coqc.
Search (independent of Coq): value() versus the same operations applied in plain Python to the chosen
results; every result the evaluation reads belongs to a declared dependency; the declared
dependencies are exactly the tasks underneath (read off the generator's syntax); can_run() of the
consumer is false while any is missing; store.list() never contains a key of a derived object; real
`jug execute` / `jug invalidate` runs on a dict store: the consumer is not started before everything
underneath is stored, receives the right value, and loses its result when a task underneath is
invalidated."""
import contextlib
import os
import signal
import sys

from . import core
from . import jugrun
from . import depsgen
import jug.jug
import jug.task
from jug import Task, value
from jug.backends.dict_store import dict_store

EVIDENCE = dict(
    level='proof',
    rule='cases = EVERY argument structure of <= 3 (quick) / 4 (thorough) nodes over 2 base tasks + a mapped sequence in 2 / 4 store states, '
         'plus random argument structures (depth <= 3, indices themselves arguments) over 4 base tasks + a mapped sequence with '
         'per-block stored flags, a random subset of results stored; non-trivial = the argument contains a derived object '
         '(tasklet / mapped sequence or slice / wrapper) or a container of tasks; distinct = distinct (store, argument) literals; '
         'plus real `jug execute`/`jug invalidate` scenarios on a dict store',
    explanation='Coq: resolution reads only declared dependencies, never meets a missing result when they are all stored, is stable under '
                'store extension, commutes with indexing/wrapping at any nesting, mapped-sequence slices = list slices, the walk declares '
                'exactly the tasks underneath, a consumer is invalidated with them; '
                'tie: value() outcome and dependencies() of the real objects == model; direct oracles on the real code',
)

MODNAME = 'c16jugfile'
DERIVED_TAGS = ('AGetitem', 'AFun', 'AMapSeq', 'AMapSlice', 'ACustom', 'ANoHash', 'AOpaque')


# ---------------------------------------------------------------- observation
def observe_value(o):
    """-> ('ok', v) | ('missing',) | ('raised', name).  Task.load asserts can_load(): AssertionError = missing result."""
    try:
        return ('ok', value(o))
    except AssertionError:
        return ('missing',)
    except Exception as e:
        return ('raised', type(e).__name__)


def same(a, b):
    try:
        return repr(depsgen.canon(a)) == repr(depsgen.canon(b)) and type(a) == type(b)
    except Exception:
        return False


def same_outcome(obs, ref):
    if obs[0] != ref[0]:
        return False
    if obs[0] == 'ok':
        return same(obs[1], ref[1])
    return True          # the kind of exception raised by an operation is not part of the property


def outcome_lit(obs, w):
    if obs[0] == 'ok':
        return '(Ok %s)' % depsgen.enc_val(obs[1], w.tids, w.atoms)
    return 'Missing' if obs[0] == 'missing' else 'Raised'


def hx(h):
    return h.decode('ascii') if isinstance(h, bytes) else str(h)


def check_case(w, spec, how='pos'):
    """All direct oracles on one (world, spec).  Returns (problems, info): problems = list of
    (what, details) - empty when the real code behaves; info carries what the Coq case needs."""
    problems = []
    o = w.realise(spec)
    w.unload_all()
    c = depsgen.consumer_task(o, how)
    deps = [d.hash() for d in c.dependencies()]
    can_run = c.can_run()
    cl_obs = None
    if hasattr(o, 'can_load') and not isinstance(o, (list, tuple, dict)):
        try:
            cl_obs = bool(o.can_load())
        except Exception as e:
            cl_obs = 'raised ' + type(e).__name__
    w.unload_all()
    obs = observe_value(o)
    ref, reads, oom = w.reference(spec)
    occ = w.occ(spec)
    tid = lambda h: w.tids(h)
    # 1: transparency of values
    if not same_outcome(obs, ref):
        problems.append(('value() of a derived object differs from the operation applied to the underlying values',
                         {'observed': repr(obs), 'expected': repr(ref)}))
    # 2: every result the evaluation reads is a declared dependency
    undeclared = [h for h in reads if h not in deps]
    if undeclared:
        problems.append(('a task whose result the argument resolution reads is not among the consumer\'s dependencies',
                         {'undeclared_tids': sorted(tid(h) for h in undeclared), 'declared_tids': sorted(set(tid(h) for h in deps))}))
    # 2b: the declared dependencies are exactly the tasks underneath
    if set(deps) != occ:
        problems.append(('Task.dependencies() of the consumer differs from the tasks underneath its argument',
                         {'declared_tids': sorted(set(tid(h) for h in deps)), 'underneath_tids': sorted(tid(h) for h in occ)}))
    # 2c: the consumer waits: can_run() iff everything underneath is stored
    exp_run = all(w.is_stored(h) for h in occ)
    if can_run != exp_run:
        problems.append(('can_run() of the consumer is %s although %s' % (can_run, 'everything underneath is stored' if exp_run else 'a task underneath has no result'),
                         {'missing_tids': sorted(tid(h) for h in occ if not w.is_stored(h))}))
    # 2d: can_load() of the derived object itself
    cl_exp = w.can_load_expected(spec)
    if cl_exp is not None and cl_obs is not None and cl_obs != cl_exp:
        problems.append(('can_load() of a derived object is %s, expected %s' % (cl_obs, cl_exp), {}))
    # 2e: the range a slice of a mapped sequence carries is Python's
    if spec[0] == 'mapslice':
        got = (o.start, o.stop, o.stride)
        if got != w._range(spec[1], spec[2]):
            problems.append(('a slice of a mapped sequence carries the wrong range', {'observed': repr(got), 'expected': repr(w._range(spec[1], spec[2]))}))
    return problems, dict(obj=o, consumer=c, deps=deps, obs=obs, ref=ref, reads=reads, oom=oom, oom_reason=w.oom_reason, occ=occ)


def replay_obj(w, spec, how, what, kind, extra):
    d = {'kind': kind, 'what': what, 'world': w.describe(), 'spec': depsgen.pyrepr(spec), 'how': how}
    d.update(extra)
    return d


# ---------------------------------------------------------------- real jug commands, in-process
@contextlib.contextmanager
def process_state():
    argv, path = list(sys.argv), list(sys.path)
    mod = sys.modules.get(MODNAME)
    term = signal.getsignal(signal.SIGTERM)
    try:
        yield
    finally:
        sys.argv[:] = argv
        sys.path[:] = path
        if mod is None:
            sys.modules.pop(MODNAME, None)
        else:
            sys.modules[MODNAME] = mod
        try:
            signal.signal(signal.SIGTERM, term)
        except (ValueError, TypeError):
            pass
        from jug.hooks.register import reset_all_hooks
        reset_all_hooks()


def call_main(argv):
    """jug.jug.main(['jug'] + argv) in-process -> (exit code, stdout, stderr)"""
    del jug.task.alltasks[:]
    with process_state():
        with jugrun.quiet() as (out, err):
            try:
                jug.jug.main(['jug'] + list(argv))
                code = 'no-exit'
            except SystemExit as e:
                code = e.code
            finally:
                # what the end of the process does: a file-backed dict store saves itself when it is collected
                st = jug.task.Task.store
                if st is not None and hasattr(st, 'close'):
                    st.close()
                jug.task.Task.store = None
    return code, out.getvalue(), err.getvalue()


def store_keys(path):
    st = dict_store(path)
    ks = set(st.list())
    st.backend = None
    return ks


EXEC_FLAGS = ['--will-cite', '--nr-wait-cycles', '1', '--wait-cycle-time', '0', '--keep-going']


def scenario(desc, spec, how, prefill, invalidate_idx):
    """One real run: prefill the dict store with the results of `prefill` (indices into the task list
    of the world), `jug execute --target consumer`, full `jug execute`, `jug invalidate --target X`.
    Returns a list of (what, details)."""
    problems = []
    with jugrun.scratch_dir('c16') as d:
        jf = os.path.join(d, MODNAME + '.py')
        sp = os.path.join(d, 'store.pkl')
        jugdir = 'dict_store:' + sp
        depsgen.write_jugfile(jf, desc, spec, how)
        # the world as the harness sees it (same hashes as inside the jugfile)
        w = depsgen.World(None, desc=desc, dump=False)
        o = w.realise(spec)
        alltasks = w.all_tasks()         # after realise: identity(plain value) adds a task
        c = depsgen.consumer_task(o, how)
        ch = c.hash()
        occ = w.occ(spec)
        for t in alltasks:       # from now on "stored" means: in the scenario's store
            w._stored[t.hash()] = False
        st = dict_store(sp)
        for i in prefill:
            t = alltasks[i]
            st.dump(w._results[t.hash()], t.hash())
            w._stored[t.hash()] = True
        st.close()
        ref, reads, oom = w.reference(spec)
        exp_run = all(w.is_stored(h) for h in occ)
        # ---- A: only the consumer is offered to the execution loop
        code, out, err = call_main(['execute', jf, '--jugdir', jugdir, '--target', r'/\.consumer$/'] + EXEC_FLAGS)
        calls = [k for n, k in depsgen.CALLS if n == 'consumer']
        keys = store_keys(sp)
        if not exp_run:
            if calls or ch in keys or code not in (None, 0):
                problems.append(('jug execute started the consumer of a derived object before everything underneath was stored',
                                 {'exit': repr(code), 'consumer_called': bool(calls), 'consumer_stored': ch in keys,
                                  'missing': sorted(hx(h) for h in occ if not w.is_stored(h)), 'log': err[-600:]}))
        elif not (w.mutating and how == 'nested'):
            if ref[0] == 'ok':
                if ch not in keys or len(calls) != 1 or code not in (None, 0):
                    problems.append(('jug execute did not run a consumer whose underlying tasks were all stored',
                                     {'exit': repr(code), 'log': err[-600:]}))
            elif ch in keys or code in (None, 0):
                problems.append(('a consumer whose argument resolution raises was reported as executed', {'exit': repr(code), 'expected': repr(ref)}))
        # ---- B: everything
        for t in alltasks:
            w._stored[t.hash()] = True
        ref, reads, oom = w.reference(spec)
        code, out, err = call_main(['execute', jf, '--jugdir', jugdir] + EXEC_FLAGS + ['--nr-wait-cycles', '2'])
        keys = store_keys(sp)
        calls = [k for n, k in depsgen.CALLS if n == 'consumer']
        legit = set(t.hash() for t in alltasks) | {ch}
        if not keys <= legit:
            problems.append(('store contains a key that is not a task (a derived object was stored)', {'keys': sorted(hx(k) for k in keys - legit)}))
        if not set(t.hash() for t in alltasks) <= keys:
            problems.append(('jug execute left an underlying task without result', {'exit': repr(code), 'log': err[-600:]}))
        for k in calls:
            if k is not None and not occ <= set(k):
                problems.append(('the consumer function was entered while a task underneath its argument had no result',
                                 {'missing': sorted(hx(h) for h in occ - set(k))}))
        if w.mutating and how == 'nested':
            pass        # the view is evaluated twice and its first evaluation changes the defaultdict underneath
        elif ref[0] == 'ok':
            if ch not in keys:
                problems.append(('jug execute did not produce the consumer\'s result', {'exit': repr(code), 'log': err[-600:]}))
            else:
                st = dict_store(sp)
                got = st.load(ch)
                st.backend = None
                a = depsgen.canon(ref[1])
                exp = {'pos': ('consumed', (a,), []), 'kw': ('consumed', (), [('k', a)]),
                       'nested': ('consumed', (1, [a, {'x': (a,)}]), [])}[how]
                if repr(got) != repr(exp):
                    problems.append(('the consumer received a value different from the operation applied to the underlying results',
                                     {'observed': repr(got), 'expected': repr(exp)}))
        elif ch in keys:
            problems.append(('a consumer whose argument resolution raises has a result', {'expected': repr(ref)}))
        # ---- C: invalidate one task (by function name) and see what goes
        before = keys
        if invalidate_idx < len(w.base):
            target = r'/\.src%d$/' % invalidate_idx
            hit = {w.base[invalidate_idx][0].hash()}
        else:
            target = r'/\._jug_map$/'
            hit = set(b.hash() for m in w.maps for b in m[3])
        code, out, err = call_main(['invalidate', jf, '--jugdir', jugdir, '--target', target])
        after = store_keys(sp)
        exp_removed = before & (hit | ({ch} if (occ & hit) else set()))
        if before - after != exp_removed:
            problems.append(('jug invalidate of a task underneath a derived object did not remove exactly that task and the consumer',
                             {'target': target, 'removed': sorted(hx(k) for k in before - after), 'expected': sorted(hx(k) for k in exp_removed),
                              'consumer': hx(ch), 'consumer_depends_on_target': bool(occ & hit)}))
    return problems


# ---------------------------------------------------------------- consumers of distinct views are distinct tasks
HASH_WORLD = {
    'results': [{'pos': [[3, 5], [8, 9]], 'neg': [[-3, -5], [-8, -9]], 'pairs': ((1, 2), (10, 20), (100, 200)),
                 0: [[7, 8], [9, 10]], 1: [[70, 80], [90, 100]]},
                ((1, 2), (10, 20), (100, 200)), 1, 0],
    'stored': [True, True, True, True],
    'maps': [{'xs': [0, 1, 2, 3, 4, 5], 'bs': 2, 'stored': [True, True, True]}],
}


def gen_sibling_group(rng):
    """derived objects over ONE root task with the SAME last operation and different paths above it, plus
    the same expression written again / in an equivalent form"""
    def idx(b, v):
        return ('getitem', b, ('val', v))
    if rng.random() < 0.65:
        root = ('task', 0)
        firsts = [lambda b, k=k: idx(b, k) for k in ('pos', 'neg', 0, 1)]
        seconds = [lambda b, j=j: idx(b, j) for j in (0, 1, -1)] + [lambda b: ('iteratetask', b, 2, 1), lambda b: ('return_tuple', b, 2, 0)]
        paths = []
        for f in rng.sample(firsts, rng.randint(2, 4)):
            if rng.random() < 0.6:
                paths.append(lambda b, f=f, g=rng.choice(seconds): g(f(b)))
            else:
                paths.append(f)
        if rng.random() < 0.4:
            paths.append(lambda b, j=rng.randrange(3): idx(idx(b, 'pairs'), j))
    else:
        root = ('task', 1)
        paths = [lambda b, j=j: idx(b, j) for j in rng.sample([0, 1, 2, -1, -2], rng.randint(2, 4))]
        if rng.random() < 0.5:
            paths.append(lambda b, j=rng.randrange(3): ('iteratetask', b, 3, j))
        if rng.random() < 0.5:
            paths.append(lambda b, j=rng.randrange(3): ('return_tuple', b, 3, j))
    last = rng.choice([lambda b: idx(b, 0), lambda b: idx(b, 1), lambda b: idx(b, -1), lambda b: idx(b, slice(0, 1)),
                       lambda b: ('fun', b, 'wrap'), lambda b: ('fun', b, ('getcheck', 0, 2)), lambda b: ('return_tuple', b, 2, 1),
                       lambda b: ('iteratetask', b, 2, 0), lambda b: ('getitem', b, ('task', 2)), lambda b: ('getitem', b, ('task', 3)),
                       lambda b: ('custom', idx(b, 0)), lambda b: ('getitem', b, ('getitem', ('task', 1), ('val', 0)))])
    specs = [last(p(root)) for p in paths]
    if rng.random() < 0.45:
        # the same base sliced in ways that look alike: negative strides with no / zero / explicit start and stop
        base = rng.choice([root] + [p(root) for p in paths])
        pool = [(None, None, -1), (0, None, -1), (None, None, -2), (0, None, -2), (-1, None, -1), (1, None, -1), (None, 0, -1),
                (None, None, None), (None, None, 1), (0, None, None), (None, 2, None), (0, 2, None), (0, 2, 1), (None, None, 2), (0, None, 2),
                (None, -1, -1), (2, None, -1)]
        k = rng.choice([-1, -1, -2, -3])
        must = [(None, None, k), (0, None, k), (-1, None, k)]      # "no start" is not "start 0" for a negative stride
        specs = [idx(base, slice(*sl)) for sl in must + [x for x in rng.sample(pool, rng.randint(2, 5)) if x not in must]]
        if rng.random() < 0.5:
            specs = [idx(x, 0) if rng.random() < 0.5 else ('fun', x, 'wrap') for x in specs]      # the slice one level down
    extra = rng.random()
    if extra < 0.35:
        specs.append(read_back(specs[0]))                       # the same expression built again
    elif extra < 0.55:
        taskish = [x for x in specs if x[0] in ('getitem', 'iteratetask', 'fun', 'return_tuple')]
        if taskish:
            specs.append(('identity', rng.choice(taskish)))       # identity(tasklet) is that tasklet
    elif extra < 0.7:
        specs += [('mapslice', 0, [(0, 4, None)]), ('mapslice', 0, [(None, 4, 1)]), ('mapslice', 0, [(0, 4, 2)]),
                  ('mapelem', 0, [], 1), ('mapelem', 0, [], 3), ('mapelem', 0, [(1, None, None)], 0)]
    rng.shuffle(specs)
    return specs


def _ix(b, v):
    return ('getitem', b, ('val', v))


# minimised past failures of the consumer-hash section (seeded C16-m3, C16-m8), run first in every tier
HASH_CORPUS = [
    [_ix(_ix(('task', 0), k), 0) for k in ('pos', 'neg', 0, 1)] + [_ix(_ix(_ix(('task', 0), 'pairs'), j), 1) for j in (0, 1)],
    [_ix(('task', 1), slice(*sl)) for sl in [(None, None, -1), (0, None, -1), (None, None, -2), (0, None, -2), (-1, None, -1),
                                              (None, 2, None), (0, 2, None), (0, 2, 1), (None, None, None), (None, None, 1)]],
    [_ix(_ix(_ix(('task', 0), 'pairs'), slice(*sl)), 0) for sl in [(None, None, -1), (0, None, -1), (2, None, -1), (None, None, -3), (0, None, -3)]],
]


def read_back(spec):
    return depsgen.read_spec(depsgen.pyrepr(spec))


def hash_pairs(w, specs, how):
    """-> (problems, hashes, canons): consumers of structurally different derived objects must have different
    hashes, consumers of the same expression the same hash (specs outside the fragment are left out)"""
    problems = []
    items = []
    extra = {}
    for sp in specs:
        cn = w.canon_spec(sp)
        if cn is None:
            continue
        c = depsgen.consumer_task(w.realise(sp), how)
        items.append((sp, cn, c.hash()))
        # slices compared up to what Python guarantees equal for every length; value with everything stored
        extra[id(sp)] = (w.canon_spec(sp, norm=True), w.reference(sp)[0])
    for a in range(len(items)):
        for b in range(a + 1, len(items)):
            (s1, c1, h1), (s2, c2, h2) = items[a], items[b]
            (n1, r1), (n2, r2) = extra[id(s1)], extra[id(s2)]
            if n1 != n2 and h1 == h2:
                problems.append(('consumers of two different derived objects have the same hash (one of them would never run and get the other\'s result)',
                                 {'spec_a': depsgen.pyrepr(s1), 'spec_b': depsgen.pyrepr(s2), 'hash': hx(h1)}))
            elif h1 == h2 and r1[0] == 'ok' and r2[0] == 'ok' and not same(r1[1], r2[1]):
                problems.append(('consumers of two derived objects with different values have the same hash',
                                 {'spec_a': depsgen.pyrepr(s1), 'spec_b': depsgen.pyrepr(s2), 'value_a': repr(r1[1]), 'value_b': repr(r2[1])}))
            if c1 == c2 and h1 != h2:
                problems.append(('the same derived expression built twice gives its consumers different hashes',
                                 {'spec_a': depsgen.pyrepr(s1), 'spec_b': depsgen.pyrepr(s2)}))
    return problems, items


def hash_group(desc, specs, how, execute=True):
    """hash oracle on a group of derived objects + (execute) a real `jug execute` of all their consumers on a
    dict store: every consumer has its OWN result = f(reference value of its own argument), one entry per
    distinct consumer."""
    w = depsgen.World(None, desc=desc, dump=False)
    for t in w.all_tasks():
        w._stored[t.hash()] = True
    problems, items = hash_pairs(w, specs, how)
    if not execute or not items:
        return problems
    with jugrun.scratch_dir('c16h') as d:
        jf = os.path.join(d, MODNAME + '.py')
        sp = os.path.join(d, 'store.pkl')
        depsgen.write_jugfile_group(jf, desc, [s for s, _, _ in items], how)
        code, out, err = call_main(['execute', jf, '--jugdir', 'dict_store:' + sp] + EXEC_FLAGS + ['--nr-wait-cycles', '2'])
        w = depsgen.World(None, desc=desc, dump=False)
        objs = [w.realise(s) for s, _, _ in items]
        for t in w.all_tasks():
            w._stored[t.hash()] = True
        keys = store_keys(sp)
        st = dict_store(sp)
        expected_keys = set()
        for (s_, cn, h) in items:
            ref, reads, oom = w.reference(s_)
            if ref[0] != 'ok':
                continue
            expected_keys.add(h)
            a = depsgen.canon(ref[1])
            exp = {'pos': ('consumed', (a,), []), 'kw': ('consumed', (), [('k', a)]), 'nested': ('consumed', (1, [a, {'x': (a,)}]), [])}[how]
            if h not in keys:
                problems.append(('a consumer of a derived object has no result of its own after jug execute', {'spec_a': depsgen.pyrepr(s_), 'exit': repr(code), 'log': err[-400:]}))
            else:
                got = st.load(h)
                if repr(got) != repr(exp):
                    problems.append(('the stored result of a consumer is not its function applied to ITS OWN argument',
                                     {'spec_a': depsgen.pyrepr(s_), 'observed': repr(got), 'expected': repr(exp)}))
        st.backend = None
        consumer_keys = keys - set(t.hash() for t in w.all_tasks())
        if not consumer_keys <= set(h for _, _, h in items):
            problems.append(('store contains a key that is not a task (a derived object was stored)', {'keys': sorted(hx(k) for k in consumer_keys - set(h for _, _, h in items))}))
        # slices that Python guarantees equal (t[:3], t[0:3:1]) may or may not share an entry
        nmax = len(set(cn for (s_, cn, h) in items if h in expected_keys))
        nmin = len(set(w.canon_spec(s_, norm=True) for (s_, cn, h) in items if h in expected_keys))
        if not nmin <= len(consumer_keys & expected_keys) <= nmax:
            problems.append(('the store does not hold one result per distinct consumer', {'entries': len(consumer_keys & expected_keys), 'distinct_consumers': [nmin, nmax]}))
    return problems


def gen_scenario(ck, w, spec):
    rng = ck.rng
    ntasks = len(w.all_tasks())
    occ_idx = [i for i, t in enumerate(w.all_tasks()) if t.hash() in w.occ(spec)]
    r = rng.random()
    if r < 0.3:
        prefill = list(range(ntasks))
    elif r < 0.65 and occ_idx:
        drop = rng.choice(occ_idx)                      # everything but one task underneath
        prefill = [i for i in range(ntasks) if i != drop]
    else:
        prefill = [i for i in range(ntasks) if rng.random() < 0.5]
    choices = list(range(len(w.base))) + ([len(w.base)] if any(m[3] for m in w.maps) else [])
    under = [i for i in choices if (i < len(w.base) and w.base[i][0].hash() in w.occ(spec)) or (i == len(w.base) and any(b.hash() in w.occ(spec) for m in w.maps for b in m[3]))]
    inv = rng.choice(under) if under and rng.random() < 0.75 else rng.choice(choices)
    how = rng.choice(['pos', 'pos', 'kw', 'nested'])
    return how, prefill, inv


# ---------------------------------------------------------------- exhaustive small scope
def enum_specs(max_size):
    """every argument structure with at most max_size nodes over a fixed alphabet (2 base tasks, one
    mapped sequence): leaves, tasklet forms over task-like bases, wrappers and containers"""
    leaves_any = [('val', 1), ('val', 'a'), ('val', depsgen.Pt(1, 'a')), ('task', 0), ('task', 1), ('mapseq', 0),
                  ('mapslice', 0, [(1, None, 2)]), ('nohash_task', 0), ('opaque', [0])]
    anys = {1: leaves_any}
    taskish = {1: [('task', 0), ('task', 1)]}
    for n in range(2, max_size + 1):
        t = []
        for nb in range(1, n - 1):
            for b in taskish[nb]:
                for ix in anys[n - 1 - nb]:
                    t.append(('getitem', b, ix))
        for b in anys[n - 1]:
            t.append(('fun', b, 'wrap'))
            t.append(('fun', b, ('getcheck', 0, 2)))
            t.append(('return_tuple', b, 2, 1))
        for b in taskish[n - 1]:
            t.append(('iteratetask', b, 2, 1))
            t.append(('identity', b))
        a = list(t)
        for x in anys[n - 1]:
            a.append(('custom', x))
            a.append(('list', [x]))
            a.append(('tuple', [x]))
            a.append(('dict', [('a', x)]))
        for nx in range(1, n - 1):
            for x in anys[nx]:
                for y in anys[n - 1 - nx]:
                    a.append(('list', [x, y]))
        taskish[n] = t
        anys[n] = a
    return [x for n in range(1, max_size + 1) for x in anys[n]]


EXH_RESULTS = [{'a': [10, (20, 30)], 0: (1, 2), 1: 'z'}, 0]
EXH_WORLDS = [
    {'results': EXH_RESULTS, 'stored': [True, True], 'maps': [{'xs': [0, 1, 2, 3, 4], 'bs': 2, 'stored': [True, True, True]}]},
    {'results': EXH_RESULTS, 'stored': [True, False], 'maps': [{'xs': [0, 1, 2, 3, 4], 'bs': 2, 'stored': [True, False, True]}]},
    {'results': [[5, 6], 'a'], 'stored': [False, True], 'maps': [{'xs': [0, 1, 2, 3, 4], 'bs': 2, 'stored': [False, True, True]}]},
    {'results': [(7, {'a': 8}), 1], 'stored': [True, True], 'maps': [{'xs': [0, 1, 2, 3, 4], 'bs': 2, 'stored': [True, True, False]}]},
]
# base results that are instances of container subclasses (indexed, sliced, unpacked, handed over whole)
SUB_WORLDS = [
    {'results': [depsgen.Pt([5, 6], depsgen.OrderedDict([('a', 1)])), 1], 'stored': [True, True],
     'maps': [{'xs': [0, 1, 2], 'bs': 2, 'stored': [True, True]}]},
    {'results': [depsgen.defaultdict(int, {'a': depsgen.MyList([1, 2]), 1: 0}), 'a'], 'stored': [True, True],
     'maps': [{'xs': [0, 1, 2], 'bs': 2, 'stored': [True, False]}]},
]


# minimised past failures, run first in every tier and every exhaustive world
CORPUS = [
    # D20: _getitem.__call__ resolved its base's VALUE again and so loaded a Task object inside it
    ('getitem', ('fun', ('nohash_task', 0), 'wrap'), ('val', 0)),
    ('getitem', ('fun', ('nohash_task', 0), 'wrap'), ('val', 1)),
    ('getitem', ('fun', ('nohash_task', 0), 'wrap'), ('task', 1)),
    ('iteratetask', ('fun', ('nohash_task', 0), 'wrap'), 2, 1),
    # D4 / D7 / D16: dependencies hidden behind a slice of a mapped sequence, a task-valued index, CustomHash
    ('mapslice', 0, [(1, None, 2), (None, None, -1)]),
    ('getitem', ('task', 0), ('task', 1)),
    ('getitem', ('task', 0), ('getitem', ('task', 0), ('task', 1))),
    ('custom', ('list', [('task', 1), ('getitem', ('task', 0), ('val', 'a'))])),
    ('dict', [('a', ('custom', ('task', 0))), (0, ('fun', ('mapslice', 0, [(0, 3, None)]), 'wrap'))]),
    # seeded C16-m5: value() rebuilt instances of list/tuple/dict SUBCLASSES as plain containers
    ('val', depsgen.Pt(1, 2)),
    ('val', depsgen.MyList([1, [2]])),
    ('custom', ('val', depsgen.MyTuple((1, 'a')))),
    ('custom', ('list', [('val', depsgen.OrderedDict([('b', 1), ('a', 2)])), ('task', 1)])),
    ('nohash_val', depsgen.defaultdict(list, {'a': [1]})),
    ('dict', [('a', ('val', depsgen.defaultdict(int, {0: 1}))), ('b', ('val', depsgen.MyDict({'a': 0})))]),
    ('identity_val', depsgen.Pt(3, (4,))),
    ('identity_val', depsgen.OrderedDict([('a', 1)])),
    ('subopaque', 'Pt', [0]),
    ('subopaque', 'MyList', [0, 1]),
    ('subopaque', 'OrderedDict', [1]),
    ('custom', ('subopaque', 'defaultdict', [0])),
    ('getitem', ('task', 0), ('val', depsgen.Pt(0, 0))),
    # a defaultdict result indexed with a missing key changes the (cached) result every later reader sees
    ('list', [('task', 0), ('getitem', ('task', 0), ('val', 'zz')), ('task', 0)]),
]


# ---------------------------------------------------------------- the check
class Collector:
    def __init__(self, ck):
        self.ck = ck
        self.cases = []
        self.meta = []

    def case(self, w, spec, how, st_cache, family):
        """direct oracles + one Coq case; returns (nontrivial?, added?)"""
        ck = self.ck
        try:
            problems, info = check_case(w, spec, how)
        except Exception as e:
            ck.violation(replay_obj(w, spec, how, 'building the derived object or its consumer raised %s' % type(e).__name__, 'impl-violation',
                                    {'error': repr(e)}))
            return False, False
        lit = w.lit(spec)
        nontriv = any(x in lit for x in DERIVED_TAGS + ('AList', 'ATuple', 'ADict'))
        for tag in DERIVED_TAGS:
            if tag in lit:
                ck.count('has:' + tag)
        ck.count(family + ':' + spec[0])
        ck.count('value:' + info['obs'][0])
        ck.count('consumer:' + how)
        for what, details in problems:
            ck.violation(replay_obj(w, spec, how, what, 'impl-violation', dict(details, arg=lit)))
        if info['oom']:
            ck.count('outside-model(%s)' % info['oom_reason'])
            return nontriv, False
        try:
            obs_lit = outcome_lit(info['obs'], w)
        except ValueError:
            ck.count('skipped:unencodable')
            return nontriv, False
        if 'st' not in st_cache:
            st_cache['st'] = w.st_literal()
        st = st_cache['st']
        ck.distinct((st, lit), nontriv)
        # the model describes the argument; the consumer may embed it (keyword, nested containers): same walk
        self.cases.append('(%s, %s, %s, %s)' % (st, lit, obs_lit, core.listlit(['%d%%positive' % w.tids(h) for h in info['deps']])))
        self.meta.append(replay_obj(w, spec, how, '', 'correspondence',
                                    {'arg': lit, 'store': st, 'observed': repr(info['obs']), 'deps': sorted(set(w.tids(h) for h in info['deps']))}))
        return nontriv, True


def history(ck, col, w, specs_hows, rng, family):
    """One process, one set of view OBJECTS, two store states: evaluate every view, let the underlying tasks be
    recomputed with other results (removed / added / changed THROUGH THE STORE, as another worker or an
    invalidate + re-run would), Task.unload() or a fresh Task.load() on the base tasks, evaluate the SAME
    objects again: the second value must be the operation applied to the CURRENT results.  The second
    evaluation is also a Coq case against the second store."""
    built = []
    for spec, how in specs_hows:
        try:
            o = w.realise(spec)
            built.append((spec, how, o, depsgen.consumer_task(o, how)))
        except Exception:
            continue
    if not built:
        return
    desc1 = w.describe()
    w.unload_all()
    first = [observe_value(o) for _, _, o, _ in built]
    desc2 = w.gen_state2(rng) if rng is not None else None
    if desc2 is None:
        # deterministic variant for the fixed worlds: rotate the results, shift the mapped values
        d = w.desc
        desc2 = {'results': d['results'][1:] + d['results'][:1], 'stored': [True] * len(d['stored']),
                 'maps': [{'xs': md['xs'], 'bs': md['bs'], 'shift': 100, 'stored': [True] * len(md['stored'])} for md in d['maps']]}
    w.apply_state(desc2)
    reload_mode = 'unload' if rng is None or rng.random() < 0.6 else 'load'

    def reload():
        # what this process does to see the new results: on the base TASKS only (nothing ever calls Tasklet.unload)
        for t in w.all_tasks():
            if reload_mode == 'load' and w.is_stored(t.hash()):
                t.load()
            else:
                t.unload()
    st2 = w.st_literal()
    for (spec, how, o, c), obs1 in zip(built, first):
        reload()        # every evaluation starts from the store (a defaultdict result may be changed by a reader)
        obs2 = observe_value(o)
        ref2, reads, oom = w.reference(spec)
        occ = w.occ(spec)
        lit = w.lit(spec)
        ck.count(family + ':history')
        rp = lambda what, details: dict(replay_obj(w, spec, how, what, 'impl-violation', dict(details, arg=lit)), world=desc1, world2=depsgen.pyrepr(desc2),
                                        reload=reload_mode)
        if not same_outcome(obs2, ref2):
            ck.violation(rp('value() of a derived object evaluated again after its base was recomputed is not the operation applied to the current results',
                            {'first': repr(obs1), 'observed': repr(obs2), 'expected': repr(ref2)}))
        exp_run = all(w.is_stored(h) for h in occ)
        w.unload_all()
        can_run = c.can_run()
        if can_run != exp_run:
            ck.violation(rp('can_run() of the consumer after its base was recomputed is %s, expected %s' % (can_run, exp_run), {}))
        elif can_run and not (w.mutating and how == 'nested'):
            # (a view over a defaultdict that invents the missing entry gives another answer the second time it is
            #  evaluated: the nested consumer holds the view twice)
            reload()
            try:
                got = ('ok', c.run(save=False))
            except AssertionError:
                got = ('missing',)
            except Exception as e:
                got = ('raised', type(e).__name__)
            if ref2[0] == 'ok':
                a = depsgen.canon(ref2[1])
                exp = ('ok', {'pos': ('consumed', (a,), []), 'kw': ('consumed', (), [('k', a)]), 'nested': ('consumed', (1, [a, {'x': (a,)}]), [])}[how])
            else:
                exp = ref2[:1]
            if repr(got[:2] if got[0] == 'ok' else got[:1]) != repr(exp):
                ck.violation(rp('a consumer run after its base was recomputed received stale or wrong data', {'observed': repr(got), 'expected': repr(exp)}))
            c.unload()
        if oom:
            continue
        try:
            obs_lit = outcome_lit(obs2, w)
        except ValueError:
            continue
        deps = [d.hash() for d in c.dependencies()]
        ck.distinct((st2, lit), True)
        col.cases.append('(%s, %s, %s, %s)' % (st2, lit, obs_lit, core.listlit(['%d%%positive' % w.tids(h) for h in deps])))
        col.meta.append(dict(replay_obj(w, spec, how, '', 'correspondence', {'arg': lit, 'store': st2, 'observed': repr(obs2),
                                                                             'deps': sorted(set(w.tids(h) for h in deps))}),
                             world=desc1, world2=depsgen.pyrepr(desc2), reload=reload_mode))


def check_store_keys(ck, w):
    keys = set(w.store.list())
    legit = set(t.hash() for t in w.all_tasks())
    if not keys <= legit:
        ck.violation({'kind': 'impl-violation', 'what': 'store contains a key that is not a task (a derived object was stored)', 'keys': repr(keys - legit)})


def run(ck):
    ck.prove()
    ck.assumptions = ['task results are plain Python values (lists, tuples, dicts, atoms, slices); indexing INTO a str/bytes result, bool used as an '
                      'index and return_tuple over a dict/str (all legal Python) are outside the model: such cases go through the direct oracles only',
                      'the kind of exception an operation raises is not compared (any exception other than the missing-result assertion = Raised)']
    nworlds = ck.n(300, 4000)
    per = 10
    nscen = ck.n(120, 2500)
    col = Collector(ck)
    scen_pool = []
    hash_pool = []
    # ---- exhaustive: every structure of <= 3 (quick) / 4 (thorough) nodes, in worlds with different results missing
    specs = enum_specs(ck.n(3, 4))
    for desc in SUB_WORLDS:
        w = depsgen.World(None, desc=desc)
        cache = {}
        for spec in CORPUS + enum_specs(2) + [('getitem', ('task', 0), ('val', sl)) for sl in (slice(0, 1), slice(None, None, -1))]:
            col.case(w, spec, 'pos', cache, 'subclass-world')
        check_store_keys(ck, w)
        history(ck, col, w, [(sp, 'pos') for sp in CORPUS + enum_specs(2)], None, 'subclass-world')
    for desc in (EXH_WORLDS[:2] if ck.tier != 'thorough' else EXH_WORLDS):
        w = depsgen.World(None, desc=desc)
        cache = {}
        for spec in CORPUS:
            col.case(w, spec, 'nested', cache, 'corpus')
        for spec in specs:
            col.case(w, spec, 'pos', cache, 'exhaustive')
        check_store_keys(ck, w)
        history(ck, col, w, [(sp, 'nested') for sp in CORPUS + enum_specs(3)], None, 'exhaustive')
    ck.count('exhaustive-specs', len(specs))
    # ---- random
    for wi in range(nworlds):
        w = depsgen.World(ck.rng, nbase=4, nmaps=1, stored_prob=ck.rng.choice([1.0, 0.85, 0.6]))
        cache = {}
        group = []
        hist = []
        for k in range(per):
            spec = w.gen_spec(3)
            how = ck.rng.choice(['pos', 'pos', 'pos', 'kw', 'nested'])
            nontriv, added = col.case(w, spec, how, cache, 'spec')
            if w.canon_spec(spec) is not None:
                group.append(spec)
            if nontriv and len(hist) < 4:
                hist.append((spec, how))
            # (a container subclass holding Task objects is hashed by pickling them: not a usable jugfile argument)
            if nontriv and "'subopaque'" not in repr(spec) and len(scen_pool) < 4 * nscen and ck.rng.random() < 0.5:
                scen_pool.append((w.desc, spec))
        # ---- derived objects are never stored themselves
        check_store_keys(ck, w)
        if len(group) >= 2:
            hash_pool.append((w.desc, group))
        if hist:
            desc_before = w.desc
            history(ck, col, w, hist, ck.rng, 'spec')
            check_store_keys(ck, w)
    cases, meta = col.cases, col.meta
    if meta:
        ck.sample({k: meta[len(meta) // 2][k] for k in ('arg', 'store', 'observed', 'deps')})
        ck.sample({k: meta[(2 * len(meta)) // 3][k] for k in ('arg', 'store', 'observed', 'deps')})
    # ---- real jug execute / invalidate
    ck.rng.shuffle(scen_pool)
    for desc, spec in scen_pool[:nscen]:
        w = depsgen.World(None, desc=desc, dump=False)
        how, prefill, inv = gen_scenario(ck, w, spec)
        ck.count('scenario:' + spec[0])
        try:
            problems = scenario(desc, spec, how, prefill, inv)
        except Exception as e:
            problems = [('the execute/invalidate scenario crashed: %s' % type(e).__name__, {'error': repr(e)})]
        for what, details in problems:
            ck.violation(dict({'kind': 'impl-violation', 'what': what, 'world': depsgen.pyrepr(desc), 'spec': depsgen.pyrepr(spec), 'how': how,
                               'scenario': {'prefill': prefill, 'invalidate': inv}}, **details))
    ck.count('scenarios(execute+invalidate)', len(scen_pool[:nscen]))
    # ---- consumers of distinct views are distinct tasks: sibling groups (hash oracle + real execute) ...
    ngroups = ck.n(24, 400)
    for gi in range(ngroups):
        if gi < len(HASH_CORPUS):
            specs, how = HASH_CORPUS[gi], ('pos', 'kw', 'nested')[gi % 3]
        else:
            specs, how = gen_sibling_group(ck.rng), ck.rng.choice(['pos', 'pos', 'kw', 'nested'])
        ck.count('hash-group:size', len(specs))
        try:
            problems = hash_group(HASH_WORLD, specs, how, execute=True)
        except Exception as e:
            problems = [('the consumer-hash scenario crashed: %s' % type(e).__name__, {'error': repr(e)})]
        for what, details in problems:
            ck.violation(dict({'kind': 'impl-violation', 'what': what, 'world': depsgen.pyrepr(HASH_WORLD), 'how': how,
                               'hash_group': depsgen.pyrepr(specs)}, **details))
    ck.count('hash-groups(execute)', ck.n(24, 400))
    # ... and random pairs (hash oracle only)
    npairs = 0
    for desc, group in hash_pool:
        w = depsgen.World(None, desc=desc, dump=False)
        for t in w.all_tasks():
            w._stored[t.hash()] = True
        try:
            problems, items = hash_pairs(w, group, 'pos')
        except Exception as e:
            problems, items = [('the consumer-hash oracle crashed: %s' % type(e).__name__, {'error': repr(e)})], []
        npairs += len(items) * (len(items) - 1) // 2
        for what, details in problems:
            ck.violation(dict({'kind': 'impl-violation', 'what': what, 'world': depsgen.pyrepr(desc), 'how': 'pos',
                               'hash_group': depsgen.pyrepr(group), 'hash_only': True}, **details))
    ck.count('hash-pairs(random)', npairs)
    jugrun.fresh()
    preamble = '''
Definition run_case (c : list (tid * val) * arg * res val * list tid) : bool :=
  match c with (l, a, obs, deps) =>
    res_eqb val_eqb (resolve (st_of l) a) obs && tids_seteq (impl_deps a) deps
  end.'''
    fails = ck.cases('resolve_and_deps', 'From JugV Require Import Model.MapReduce Model.Slice Model.Deps.',
                     'list (tid * val) * arg * res val * list tid', 'run_case', cases, shard=300, preamble=preamble)
    for i in (fails or []):
        ck.violation(dict(meta[i], what='value()/dependencies() of the real objects differ from the model'))


def replay(obj):
    """Re-execute a recorded case against the repository under test: all direct oracles (and the
    execute/invalidate scenario when the replay has one).  Returns 1 when the real code misbehaves."""
    if 'hash_group' in obj:
        problems = hash_group(depsgen.read_spec(obj['world']), depsgen.read_spec(obj['hash_group']), obj.get('how', 'pos'),
                              execute=not obj.get('hash_only'))
        for what, details in problems:
            print('VIOLATED:', what, details)
        if not problems:
            print('consumer hashes and stored results are as expected on this group')
        jugrun.fresh()
        return 1 if problems else 0
    if 'world2' in obj:
        # a history: evaluate, recompute the base tasks with other results, unload/load, evaluate the same object again
        w = depsgen.World(None, desc=depsgen.read_spec(obj['world']))
        spec = depsgen.read_spec(obj['spec'])
        o = w.realise(spec)
        w.unload_all()
        obs1 = observe_value(o)
        w.apply_state(depsgen.read_spec(obj['world2']))
        for t in w.all_tasks():
            if obj.get('reload') == 'load' and w.is_stored(t.hash()):
                t.load()
            else:
                t.unload()
        obs2 = observe_value(o)
        ref2 = w.reference(spec)[0]
        print('argument          :', w.lit(spec))
        print('first evaluation  :', obs1)
        print('second evaluation :', obs2, ' (after the underlying tasks were recomputed and %sed)' % obj.get('reload', 'unload'))
        print('expected now      :', ref2)
        jugrun.fresh()
        if not same_outcome(obs2, ref2):
            print('VIOLATED: value() of a derived object evaluated again after its base was recomputed is not the operation applied to the current results')
            return 1
        return 0
    if 'world' not in obj or 'spec' not in obj:
        print('replay: nothing to re-execute in this file:', obj.get('no_longer_checks', obj))
        return 2
    desc = depsgen.read_spec(obj['world'])
    spec = depsgen.read_spec(obj['spec'])
    how = obj.get('how', 'pos')
    rc = 0
    if 'scenario' in obj:
        problems = scenario(desc, spec, how, obj['scenario']['prefill'], obj['scenario']['invalidate'])
        for what, details in problems:
            print('VIOLATED:', what, details)
            rc = 1
    w = depsgen.World(None, desc=desc)
    print('argument        :', w.lit(spec))
    problems, info = check_case(w, spec, how)
    print('value() observed:', info['obs'])
    print('value() expected:', info['ref'], '(plain Python over the chosen results)')
    print('dependencies    :', sorted(set(w.tids(h) for h in info['deps'])), ' tasks underneath:', sorted(w.tids(h) for h in info['occ']))
    for what, details in problems:
        print('VIOLATED:', what, details)
        rc = 1
    if rc == 0:
        print('the direct oracles hold on this case; a correspondence replay also needs the model: bin/check C16 with VERIF_SEED=%s' % obj.get('seed'))
    jugrun.fresh()
    return rc
