"""C16 - tasklets and wrappers are transparent views that carry their dependencies.

Proof: Props/C16.v over Model/Deps.v.
Tie: real jug objects (tasklets of tasklets, task-valued indices, slices of mapped sequences,
CustomHash/NoHash/identity, containers) built over base tasks with chosen results, some stored and
some not; observed value() (or exception) and Task.dependencies() of a consumer versus the model's
resolve / impl_deps evaluated in coqc.
Search: value() versus the same Python operation applied to the chosen results, and "every result
the reference evaluation reads belongs to a declared dependency"; store.list() has no tasklet keys."""
from . import core
from . import depsgen
from . import jugrun
from jug import Task, value

EVIDENCE = dict(
    level='proof',
    rule='cases = random argument structures (depth <= 3) over 4 base tasks + a mapped sequence, with a random subset of results stored; '
         'non-trivial = the argument contains a derived object (tasklet / mapped slice / wrapper) or a container of tasks; distinct = distinct literals',
    explanation='Coq: resolution reads only declared dependencies, is defined when they are all stored, and commutes with indexing/wrapping; '
                'tie: value() and dependencies() of the real objects == model',
)


def observe_value(o):
    try:
        return ('ok', value(o))
    except BaseException as e:   # AssertionError (missing result), IndexError, KeyError, TypeError, ValueError
        if isinstance(e, (KeyboardInterrupt, SystemExit)):
            raise
        return ('err', type(e).__name__)


def reference(w, exp):
    w.reads = set()
    try:
        return ('ok', exp()), set(w.reads)
    except BaseException as e:
        if isinstance(e, (KeyboardInterrupt, SystemExit)):
            raise
        return ('err', type(e).__name__), set(w.reads)


def same(a, b):
    try:
        return a == b and type(a) == type(b)
    except Exception:
        return False


def run(ck):
    ck.prove()
    ck.assumptions = ['task results are plain Python values (lists, tuples, dicts, atoms); NumPy results are out of the model of indexing']
    nworlds = ck.n(120, 3000)
    per = 10
    cases, meta = [], []
    for wi in range(nworlds):
        w = depsgen.World(ck.rng, nbase=4, nmaps=1, stored_prob=ck.rng.choice([1.0, 0.85, 0.6]))
        st = None
        for k in range(per):
            o, lit, exp = w.gen_arg(3)
            # unload cached results so that every case reads the store
            for t, _, _ in w.base:
                t.unload()
            for m in w.maps:
                for b in m[3]:
                    b.unload()
            c = Task(depsgen.consumer, o)
            deps = [d.hash() for d in c.dependencies()]
            obs = observe_value(o)
            ref, reads = reference(w, exp)
            nontriv = any(x in lit for x in ('AGetitem', 'AFun', 'AMap', 'ACustom', 'ANoHash', 'AOpaque', 'AList', 'ATuple', 'ADict'))
            ck.distinct(lit, nontriv)
            for tag in ('AGetitem', 'AFun', 'AMapSeq', 'AMapSlice', 'ACustom', 'ANoHash', 'AOpaque'):
                if tag in lit:
                    ck.count('has:' + tag)
            ck.count('value:' + obs[0])
            # ---- direct oracle 1: transparency of values
            if obs[0] != ref[0] or (obs[0] == 'ok' and not same(obs[1], ref[1])):
                ck.violation({'kind': 'impl-violation', 'what': 'value() of a derived object differs from the operation applied to the underlying values',
                              'arg': lit, 'observed': repr(obs), 'expected': repr(ref)})
            # ---- direct oracle 2: every result the evaluation reads is a declared dependency
            missing = [h for h in reads if h not in deps]
            if missing:
                ck.violation({'kind': 'impl-violation', 'what': 'a task whose result the argument resolution reads is not among the consumer\'s dependencies',
                              'arg': lit, 'undeclared_tids': [w.tids(h) for h in missing], 'declared_tids': sorted(w.tids(h) for h in deps)})
            try:
                obs_lit = core.optlit(depsgen.enc_val(obs[1], w.tids, w.atoms)) if obs[0] == 'ok' else 'None'
            except ValueError:
                ck.count('skipped:unencodable')
                continue
            if st is None:
                st = w.st_literal()
            cases.append('(%s, %s, %s, %s)' % (st, lit, obs_lit, core.listlit(['%d%%positive' % w.tids(h) for h in deps])))
            meta.append({'arg': lit, 'store': st, 'observed': repr(obs), 'deps': sorted(w.tids(h) for h in deps)})
        # ---- direct oracle 3: derived objects are never stored themselves
        keys = set(w.store.list())
        legit = set(t.hash() for t, _, _ in w.base) | set(b.hash() for m in w.maps for b in m[3])
        if not keys <= legit:
            ck.violation({'kind': 'impl-violation', 'what': 'store contains a key that is not a task (a tasklet was stored)', 'keys': repr(keys - legit)})
    ck.sample(meta[len(meta) // 2])
    ck.sample(meta[len(meta) // 3])
    preamble = '''
Definition st_of (l : list (positive * val)) (t : tid) : option val :=
  (fix go (l : list (positive * val)) := match l with [] => None | (k, v) :: r => if Pos.eqb k t then Some v else go r end) l.
Definition run_case (c : list (positive * val) * arg * option val * list tid) : bool :=
  match c with (l, a, obs, deps) =>
    option_eqb val_eqb (resolve (st_of l) a) obs && tids_seteq (impl_deps a) deps
  end.'''
    fails = ck.cases('resolve_and_deps', 'From JugV Require Import Model.MapReduce Model.Slice Model.Deps.',
                     'list (positive * val) * arg * option val * list tid', 'run_case', cases, shard=300, preamble=preamble)
    for i in (fails or []):
        ck.violation({'kind': 'correspondence', 'what': 'value()/dependencies() of the real objects differ from the model', **meta[i]})


def replay(obj):
    print('replay of C16 cases needs the generating seed: run  VERIF_SEED=%s bin/check C16' % obj.get('seed'))
    print(obj.get('arg'))
    return 2
