"""C18 - a compound task equals its expansion and collapses once computed.

Proof: Props/C18.v over Model/Loader.v (compounds are [Compound h cargs body k] nodes whose builders
are arbitrary staged programs: nested compounds, barriers / bvalue inside, tuple or constant results).
Tie: generated jugfiles with CompoundTaskGenerator builders x start stores {empty, some inner results,
all inner results, collapsed (only what is in scope at the end), everything, random, some with a
non-sequential value, some with a key no task has} x lock states {none; stale locks on the compounds'
hashes (a worker killed between storing the value and releasing the lock); locks held / marked failed
by others on any hashes of the program: compounds, inner tasks, tasks of other branches} x random
sequences of  load / one phase (init + execution_loop) / `jug execute` / `jug cleanup` /
`jug cleanup --keep-locks` / `jug status`  run with the REAL code on dict and file stores; after every step the
loaded task list (by interned real hash), the __jug__hasbarrier__ flag, the tasks executed (hook
execute.task-executed1), the whole store (keys and values) and the number of complete tasks are
compared in coqc with Model.Loader (load / exec_all on the tasks whose lock is free / run_phases_l /
cleanup).  The model's loader has no lock parameter: whatever the locks, what is loaded (collapsed or
expanded) must be [load store program].
Search: oracles on the real objects, independent of Coq: a builder ran although the compound's hash
was stored (marker at the top of every builder); value stored under a compound's hash vs. a plain
Python evaluation of the builder's result; a second `jug execute` runs something; cleanup removed the
result of a loaded task / kept a key that no loaded task has / changed what is loaded or check; locks of
others changed by load / phase / execute / cleanup --keep-locks, or left by plain cleanup; a task run although
its lock is held by someone else."""
import os
import shutil

from . import core
from .core import natlit, boollit
from . import jugrun
from . import loadergen as lg
from .c14 import tuplify, perturb
import jug
import jug.jug
import jug.task
import jug.options
from jug.backends.dict_store import dict_store
from jug.backends.file_store import file_store

EVIDENCE = dict(
    level='proof',
    rule='one evaluation = one step (load / phase / execute / cleanup / cleanup --keep-locks / status) of a sequence run '
         'with the real code on one (jugfile, start store, locks held / failed by others, backend); non-trivial when the '
         'jugfile has a compound on its sequential path; distinct = distinct (program term, start store, locks, step sequence)',
    explanation='Coq theorems over the loader model (compound = builder in place + one task with the probe hash; '
                'collapse; cleanup) + differential evaluation against CompoundTaskGenerator / compound_task_execute / '
                'execute / cleanup / status of jug on generated builders',
)

# twice(x) = (double(x), double(x)) of jug/tests/jugfiles/compound.py, then a consumer; nested variant
TWICE = {'op': 'def', 'var': 't1', 'fn': 'f', 'args': [{'c': 1}, {'c': 0}],
         'k': {'op': 'compound', 'var': 'c2', 'name': 'comp2', 'params': ['t1'],
               'body': {'op': 'mark', 'n': 3, 'kind': 'plain',
                        'k': {'op': 'def', 'var': 't4', 'fn': 'f', 'args': [{'t': 't1'}, {'c': 1}],
                              'k': {'op': 'def', 'var': 't5', 'fn': 'f', 'args': [{'t': 't1'}, {'c': 1}],
                                    'k': {'op': 'ret', 'arg': {'tup': [{'t': 't4'}, {'t': 't5'}]}}}}},
               'k': {'op': 'def', 'var': 't6', 'fn': 'tsum', 'args': [{'t': 'c2'}],
                     'k': {'op': 'ret', 'arg': {'c': 0}}}}}
NESTED = {'op': 'def', 'var': 't1', 'fn': 'g', 'args': [{'c': 1}, {'c': 2}],
          'k': {'op': 'compound', 'var': 'c2', 'name': 'comp2', 'params': ['t1'],
                'body': {'op': 'mark', 'n': 3, 'kind': 'plain',
                         'k': {'op': 'def', 'var': 't4', 'fn': 'f', 'args': [{'t': 't1'}, {'c': 2}],
                               'k': {'op': 'compound', 'var': 'c5', 'name': 'comp5', 'params': ['t4'],
                                     'body': {'op': 'mark', 'n': 6, 'kind': 'plain',
                                              'k': {'op': 'def', 'var': 't7', 'fn': 'g', 'args': [{'t': 't4'}, {'t': 't4'}],
                                                    'k': {'op': 'barrier',
                                                          'k': {'op': 'mark', 'n': 8, 'kind': 'bar',
                                                                'k': {'op': 'def', 'var': 't9', 'fn': 'pair', 'args': [{'t': 't7'}, {'t': 't4'}],
                                                                      'k': {'op': 'ret', 'arg': {'t': 't9'}}}}}}},
                                     'k': {'op': 'def', 'var': 't10', 'fn': 'pfst', 'args': [{'t': 'c5'}],
                                           'k': {'op': 'ret', 'arg': {'tup': [{'t': 't10'}, {'c': 1}]}}}}}},
                'k': {'op': 'def', 'var': 't11', 'fn': 'tsum', 'args': [{'t': 'c2'}],
                      'k': {'op': 'ret', 'arg': {'c': 0}}}}}
CORPUS = [('twice', TWICE), ('nested-with-barrier', NESTED)]

PREAMBLE = lg.COQ_PREAMBLE + '''
Inductive cop := OLoad | OPhase | OExecute | OCleanup | OCleanupKeep | ODeps (ds : list (list tid)) | OInvalidate (sel : list tid).
Definition tidset_eqb (a b : list tid) : bool := forallb (fun x => mem_tid x b) a && forallb (fun x => mem_tid x a) b.
(* after the step: alltasks (ids), __jug__hasbarrier__, tasks executed, the store, number of loaded tasks
   with a result, number without *)
Definition cobs := (list tid * bool * list tid * store * nat * nat)%type.
Definition ncomplete (st : store) (ts : list task) : nat := List.length (filter (fun t => stored st (tid_of t)) ts).
(* [locks]: the hashes whose lock is held or marked failed by someone else.  [load], [cleanup] do not take them. *)
Fixpoint run_ops (p : jprog) (st : store) (locks : list tid) (ops : list (cop * cobs)) : bool :=
  match ops with
  | [] => true
  | (op, (ts, hb, ex, sto, nc, ni)) :: r =>
      let l := load st p in
      match op with
      | OLoad =>
          pos_list_eqb (ids (l_tasks l)) ts && Bool.eqb (l_hasbarrier l) hb && pos_list_eqb [] ex && store_eqb st sto &&
          Nat.eqb (ncomplete st (l_tasks l)) nc && Nat.eqb (List.length (l_tasks l) - ncomplete st (l_tasks l)) ni &&
          run_ops p st locks r
      | OPhase =>
          let '(st1, e) := exec_all st (unlocked locks (l_tasks l)) in
          pos_list_eqb (ids (l_tasks l)) ts && Bool.eqb (l_hasbarrier l) hb && pos_list_eqb e ex && store_eqb st1 sto &&
          run_ops p st1 locks r
      | OExecute =>
          let '(st1, exs) := run_phases_l locks 12 st p in
          pos_list_eqb (List.concat exs) ex && store_eqb st1 sto && run_ops p st1 locks r
      | OCleanup =>
          let st1 := cleanup st p in
          pos_list_eqb (ids (l_tasks l)) ts && Bool.eqb (l_hasbarrier l) hb && store_eqb st1 sto && run_ops p st1 [] r
      | OCleanupKeep =>
          let st1 := cleanup st p in
          pos_list_eqb (ids (l_tasks l)) ts && Bool.eqb (l_hasbarrier l) hb && store_eqb st1 sto && run_ops p st1 locks r
      | ODeps ds =>
          (* Task.dependencies() of every loaded task = the tasks under its arguments (a collapsed compound: those of the call) *)
          pos_list_eqb (ids (l_tasks l)) ts && Bool.eqb (l_hasbarrier l) hb &&
          list_eqb tidset_eqb (map (fun t => atids_list (targs t)) (l_tasks l)) ds && store_eqb st sto && run_ops p st locks r
      | OInvalidate sel =>
          let st1 := invalidate (fun t => mem_tid t sel) st p in
          pos_list_eqb (ids (l_tasks l)) ts && Bool.eqb (l_hasbarrier l) hb && store_eqb st1 sto && run_ops p st1 locks r
      end
  end.
Definition chk_seq (c : jprog * store * list tid * list (cop * cobs)) : bool := let '(p, st, locks, ops) := c in run_ops p st locks ops.
'''
CASE_TYPE = 'jprog * store * list tid * list (cop * cobs)'
DEEP_SLACK = 170                       # Python frames left to jug on programs with long dependency chains (~4 per link)
OPS = ('load', 'phase', 'execute', 'cleanup', 'cleanup_keep', 'deps', 'invalidate', 'invalidate_shell')
OP_COQ = {'load': 'OLoad', 'phase': 'OPhase', 'execute': 'OExecute', 'cleanup': 'OCleanup', 'cleanup_keep': 'OCleanupKeep'}    # deps / invalidate carry data


class Env:
    def __init__(self, backend, root):
        self.backend = backend
        self.jd = os.path.join(root, 'jd')
        if backend == 'file':
            shutil.rmtree(self.jd, ignore_errors=True)
            self.dstore = None
        else:
            self.dstore = dict_store()

    def open(self):
        return file_store(self.jd) if self.backend == 'file' else self.dstore

    def items(self):
        s = self.open()
        r = lg.store_items(s)
        if self.backend == 'file':
            s.close()
        return r

    def locks(self):
        s = self.open()
        r = lg.list_locks(s)
        if self.backend == 'file':
            s.close()
        return r


def real_phase(sc, store, slack=None):
    """jug.init + execution_loop once (what one iteration of ExecuteCommand's loop does)"""
    from jug.hooks.register import reset_all_hooks
    from jug.hooks import register_hook
    r = lg.real_init(sc, store, slack=slack)
    executed = []
    register_hook('execute.task-executed1', lambda t: executed.append(lg.hx(t.hash())))
    try:
        with jugrun.quiet(), lg.no_zero_sleep():
            opts = lg.exec_options(sc)
            with lg.low_recursion(slack):
                jug.jug.execution_loop(list(jug.task.alltasks), opts)
    finally:
        reset_all_hooks()
    return r, executed


def real_execute_hooked(sc, target, via_main, slack=None):
    from jug.hooks import register_hook
    executed = []
    register_hook('execute.task-executed1', lambda t: executed.append(lg.hx(t.hash())))
    code, mlog, out = lg.real_execute(sc, target, via_main=via_main, slack=slack)      # resets the hooks at the end
    return code, mlog, out, executed


def real_cleanup(sc, store, keep_locks=False, slack=None):
    from jug.subcommands import cmdapi
    r = lg.real_init(sc, store, slack=slack)
    opts = jug.options.parse(['cleanup', sc.jugfile, '--jugdir', 'dict_store'] + (['--keep-locks'] if keep_locks else []))
    with jugrun.quiet():
        with lg.low_recursion(slack):
            cmdapi.run('cleanup', options=opts, store=r['store'], jugspace=r['space'])
    return r


def name_matches(target, name):
    from jug.utils import prepare_task_matcher
    return bool(prepare_task_matcher(target)(name))


def real_invalidate(sc, store, target, shell=False, slack=None):
    """`jug invalidate --target <target>` (InvalidateCommand), or what the jug shell's invalidate(t) does for every loaded
    task of that name.  Returns the load it was run on."""
    from jug.subcommands import cmdapi
    r = lg.real_init(sc, store, slack=slack)
    with jugrun.quiet():
        with lg.low_recursion(slack):
            if shell:
                from jug.subcommands.shell import invalidate as shell_invalidate
                reverse = {}
                for t in list(r['objs']):
                    if name_matches(target, t.name):
                        shell_invalidate(list(r['objs']), reverse, t)
            else:
                opts = jug.options.parse(['invalidate', sc.jugfile, '--jugdir', 'dict_store', '--target', target])
                cmdapi.run('invalidate', options=opts, store=r['store'], jugspace=r['space'])
    return r


def real_status(sc, target, slack=None):
    """`jug status --short` -> (complete, not complete)"""
    import re
    from jug.subcommands.status import status as status_cmd
    del jug.task.alltasks[:]
    opts = jug.options.parse(['status', sc.jugfile, '--jugdir', 'dict_store', '--short'])
    opts.jugdir = target
    old = jug.task.Task.store
    import sys
    path = list(sys.path)
    try:
        with jugrun.quiet() as (out, err):
            with lg.low_recursion(slack):
                n = status_cmd.run(options=opts)
    finally:
        jug.task.Task.store = old
        sys.path[:] = path
    txt = out.getvalue()
    m = re.search(r'All tasks complete \((\d+) tasks\)', txt)
    if m:
        return int(m.group(1)), 0, n
    m = re.search(r'(\d+) tasks waiting to be run, (\d+) failed, (\d+) complete, \((none|\d+) active\)', txt)
    if not m:
        raise lg.HarnessError('cannot parse jug status output: %r' % txt[-200:])
    active = 0 if m.group(4) == 'none' else int(m.group(4))
    return int(m.group(3)), int(m.group(1)) + int(m.group(2)) + active, n


class SeqRun:
    def __init__(self, ck, sc, name, prog, it, term, log, scope, bmarks, slack=None):
        self.ck, self.sc, self.name, self.prog, self.slack = ck, sc, name, prog, slack
        self.it, self.term, self.log, self.scope = it, term, log, scope
        self.bmarks = dict((n, [it.hash_of_desc[d] for d in ds]) for n, ds in bmarks.items())
        self.R = []
        seen = set()
        for d, v in log:
            h = it.hash_of_desc[d]
            if h not in seen:
                seen.add(h)
                self.R.append((h, v))
        self.comp_hashes = [it.hash_of_desc[d] for d, _ in log if d[1].startswith('comp')]
        self.large = len(self.R) > 40

    def viol(self, what, **kw):
        self.ck.violation(dict(dict({'kind': 'impl-violation', 'what': what, 'program': self.name}, **self.prog_fields()), **kw))

    def prog_fields(self):
        if self.large:
            return {'prog_flat': lg.flatten(self.prog), 'jugfile': lg.render_python(self.prog)[len(lg.PRELUDE):], 'slack': self.slack}
        return {'prog': self.prog, 'jugfile': lg.render_python(self.prog), 'slack': self.slack}

    def builder_oracle(self, marks, before, ctx):
        for (n, kind, _) in marks:
            # (a builder called several times builds several compounds: it must not run when ALL of them are stored)
            if n in self.bmarks and all(h in before for h in self.bmarks[n]):
                self.viol('a builder ran although the hash of its compound is stored', compound=self.bmarks[n][0], marker=n, **ctx)

    def run(self, start, ops, backend, root, held=(), failed=()):
        try:
            return self._run(start, ops, backend, root, held, failed)
        except (lg.HarnessError, SystemExit):
            raise
        except lg.ExecTimeout:
            from jug.hooks.register import reset_all_hooks
            reset_all_hooks()
            self.viol('jug execute did not finish within %d s' % lg.EXEC_TIME_LIMIT,
                      start=[[h, v] for h, v in start], backend=backend, ops=list(ops), held=list(held), failed=list(failed))
            return None
        except Exception as e:                     # raised by the code under test outside the step itself
            from jug.hooks.register import reset_all_hooks
            reset_all_hooks()
            self.viol('jug raised an exception', exception='%s: %s' % (type(e).__name__, str(e)[:300]),
                      start=[[h, v] for h, v in start], backend=backend, ops=list(ops), held=list(held), failed=list(failed))
            return None

    def _run(self, start, ops, backend, root, held=(), failed=()):
        """start: [(hash, value)], held / failed: hashes whose lock another worker holds / has marked failed,
        ops: list of op names.  Returns (coq literal, meta) or None."""
        ck, it = self.ck, self.it
        env = Env(backend, root)
        s = env.open()
        lg.fill_store(s, start)
        lg.set_locks(s, held=held, failed=failed)
        if backend == 'file':
            s.close()
        agrees = all(dict(self.R).get(h) == v for h, v in start)
        steps, metas = [], []
        ctx0 = {'start': [[h, v] for h, v in start], 'backend': backend, 'ops': list(ops), 'held': sorted(held), 'failed': sorted(failed)}
        locks_now = (sorted(held), sorted(failed))
        desc_of = dict((it.hash_of_desc[d], d) for d in it.descs)
        for k, op in enumerate(ops):
            op, _, target = op.partition(':')
            opcoq = OP_COQ.get(op)
            ctx = dict(ctx0, step=k)
            before = env.items()
            blocked = set(locks_now[0]) | set(locks_now[1])
            s = env.open()
            tasks, hb, executed = [], False, []
            try:
                if op == 'load':
                    r = lg.real_init(self.sc, s, slack=self.slack)
                    tasks, hb = r['tasks'], r['hasbarrier']
                    self.builder_oracle(r['marks'], before, ctx)
                elif op == 'phase':
                    r, executed = real_phase(self.sc, s, self.slack)
                    tasks, hb = r['tasks'], r['hasbarrier']
                    self.builder_oracle(r['marks'], before, ctx)
                elif op == 'execute':
                    via_main = backend == 'file' and (ck.dist.get('step: execute (file)', 0) % 2 == 0)
                    if backend == 'file':
                        s.close()
                    code, mlog, out, executed = real_execute_hooked(self.sc, env.jd if backend == 'file' else s, via_main, self.slack)
                    if code != 0:
                        self.viol('jug execute exited with an error', code=code, output=out[-500:], **ctx)
                        return None
                    if backend == 'file':
                        s = env.open()
                elif op in ('cleanup', 'cleanup_keep'):
                    r = real_cleanup(self.sc, s, keep_locks=(op == 'cleanup_keep'), slack=self.slack)
                    tasks, hb = r['tasks'], r['hasbarrier']
                    self.builder_oracle(r['marks'], before, ctx)
                elif op == 'deps':
                    r = lg.real_init(self.sc, s, slack=self.slack)
                    tasks, hb = r['tasks'], r['hasbarrier']
                    deps = [sorted(set(lg.hx(d.hash()) for d in t.dependencies())) for t in r['objs']]
                    opcoq = '(ODeps [%s])' % '; '.join('[%s]' % '; '.join(str(it.hash_id(h)) for h in ds) for ds in deps)
                    for h, ds in zip(tasks, deps):
                        if h in self.comp_hashes and h in before and h in desc_of:
                            want = sorted(set(it.hash_of_desc[x] for x in lg.desc_deps(desc_of[h])))
                            if ds != want:
                                self.viol('a collapsed compound does not have the tasks under the arguments of its call as dependencies',
                                          compound=h, dependencies=ds, expected=want, **ctx)
                elif op in ('invalidate', 'invalidate_shell'):
                    if not target:
                        # the name of a loaded task, preferably one under the arguments of a compound
                        r0 = lg.real_init(self.sc, s, slack=self.slack)
                        under = set()
                        for h in r0['tasks']:
                            if h in self.comp_hashes and h in desc_of:
                                under.update(it.hash_of_desc[x] for x in lg.desc_deps(desc_of[h]))
                        names = sorted(set(nm for h, nm in zip(r0['tasks'], r0['names']) if h in under))
                        allnames = sorted(set(r0['names']))
                        rng = self.ck.rng
                        target = rng.choice(names) if (names and rng.random() < 0.6) else (rng.choice(allnames) if allnames else 'jvjf.f')
                        ctx0['ops'][k] = '%s:%s' % (op, target)
                        ctx = dict(ctx0, step=k)
                    r = real_invalidate(self.sc, s, target, shell=(op == 'invalidate_shell'), slack=self.slack)
                    tasks, hb = r['tasks'], r['hasbarrier']
                    self.builder_oracle(r['marks'], before, ctx)
                    sel = sorted(set(h for h, nm in zip(tasks, r['names']) if name_matches(target, nm)))
                    opcoq = '(OInvalidate [%s])' % '; '.join(str(it.hash_id(h)) for h in sel)
                    # what has to go at least, by the descriptors of the program (not by Task.dependencies()): the selected tasks
                    # and every loaded task with one of those under its arguments; a collapsed compound: the arguments of its call
                    bad = set(sel)
                    for h in tasks:
                        if h in desc_of and not (h in self.comp_hashes and h not in before):
                            if any(it.hash_of_desc[x] in bad for x in lg.desc_deps(desc_of[h])):
                                bad.add(h)
                    inv_expected = sorted(h for h in bad if h in before)
            except SystemExit:
                self.viol('the jugfile failed to load', **ctx)
                return None
            except lg.ExecTimeout:
                from jug.hooks.register import reset_all_hooks
                reset_all_hooks()
                self.viol('jug execute did not finish within %d s' % lg.EXEC_TIME_LIMIT, **ctx)
                return None
            except lg.HarnessError:
                raise
            except Exception as e:                 # the code under test raised: a finding, not a harness failure
                from jug.hooks.register import reset_all_hooks
                reset_all_hooks()
                self.viol('jug raised an exception during %s' % op, exception='%s: %s' % (type(e).__name__, str(e)[:300]), **ctx)
                return None
            if backend == 'file':
                s.close()
            after = env.items()
            nc = ni = 0
            if op == 'load':
                nc = sum(1 for h in tasks if h in after)
                ni = len(tasks) - nc
                sc_, si_, ret = real_status(self.sc, env.jd if backend == 'file' else env.dstore, self.slack)
                if (sc_, si_) != (nc, ni) or ret != nc:
                    self.viol('jug status counts differ from the loaded tasks with / without a result',
                              status=[sc_, si_, ret], loaded=[nc, ni], **ctx)
            # ---- oracles on the real code
            if op in ('load', 'cleanup') and after != before and op == 'load':
                self.viol('loading the jugfile changed the store', **ctx)
            # locks that are not this worker's: only plain cleanup removes them; this worker leaves none of its own
            locks_after = env.locks()
            want = ([], []) if op == 'cleanup' else locks_now
            if locks_after != want:
                self.viol('locks after the step are not what they should be (others\' locks kept, except by plain cleanup; '
                          'none of this worker left)', locks_before=list(locks_now), locks_after=list(locks_after), op=op, **ctx)
            locks_now = locks_after
            ran_blocked = [h for h in executed if h in blocked]
            if ran_blocked:
                self.viol('a task was executed although its lock is held / marked failed by someone else', keys=sorted(ran_blocked), op=op, **ctx)
            if op in ('invalidate', 'invalidate_shell'):
                left = [h for h in inv_expected if h in after]
                if left:
                    self.viol('jug invalidate left the result of a task that has an invalidated task under its arguments '
                              '(a collapsed compound: under the arguments of its call)', target=target, keys=left,
                              collapsed_compounds=[h for h in left if h in self.comp_hashes], **ctx)
                lost = [h for h in before if h not in after and h not in tasks]
                if lost:
                    self.viol('jug invalidate removed a result that belongs to no loaded task', target=target, keys=lost, **ctx)
            if op in ('cleanup', 'cleanup_keep'):
                keep = set(tasks)
                bad = [h for h in before if h in keep and after.get(h) != before[h]] + [h for h in after if h not in keep]
                if bad:
                    self.viol('cleanup removed the result of a loaded task or kept a key no loaded task has', keys=sorted(bad)[:40], **ctx)
                s2 = env.open()
                r2 = lg.real_init(self.sc, s2, slack=self.slack)
                if r2['tasks'] != tasks or r2['hasbarrier'] != hb:
                    self.viol('after cleanup the jugfile loads differently', before_cleanup=tasks[:60], after_cleanup=r2['tasks'][:60], **ctx)
                if backend == 'file':
                    s2.close()
            if op == 'execute':
                exp = dict(self.R)
                if agrees:
                    top = [it.hash_of_desc[d] for d, _ in self.scope] if not blocked else []
                    bad = [h for h in after if (h not in exp and h not in before) or (h in exp and after[h] != exp[h])] + \
                          [h for h in top if h not in after] + [h for h in before if h not in after]
                    if bad:
                        self.viol('after jug execute a compound (or another task) is missing or has a value different from '
                                  'the plain evaluation of its builder', keys=sorted(set(bad))[:40], expected=sorted(exp.items())[:60],
                                  observed=sorted(after.items())[:60], **ctx)
                # a second execute must run nothing
                s2 = env.jd if backend == 'file' else env.dstore
                code, mlog, out, ex2 = real_execute_hooked(self.sc, s2, False, self.slack)
                again = env.items()
                if ex2 or again != after or code != 0:
                    self.viol('a second jug execute executed tasks or changed the store', executed=ex2, **ctx)
            steps.append('(%s, ([%s], %s, [%s], %s, %s, %s))' % (
                opcoq, '; '.join(str(it.hash_id(h)) for h in tasks), boollit(hb),
                '; '.join(str(it.hash_id(h)) for h in executed), lg.coq_store(sorted(after.items()), it), natlit(nc), natlit(ni)))
            metas.append({'op': op if not target else '%s:%s' % (op, target), 'tasks': tasks, 'hasbarrier': hb, 'executed': executed, 'store_after': sorted(after.items())})
            ck.count('step: %s%s' % (op, ' (file)' if backend == 'file' else ''))
            if blocked:
                ck.count('steps with locks of others present')
            if op in ('load', 'phase', 'cleanup', 'cleanup_keep', 'deps', 'invalidate', 'invalidate_shell'):
                ncoll = sum(1 for h in self.comp_hashes if h in before and h in tasks)
                nexp = sum(1 for h in self.comp_hashes if h not in before and h in tasks)
                if ncoll:
                    ck.count('loads with a collapsed compound')
                if any(h in blocked and h in before and h in tasks for h in self.comp_hashes):
                    ck.count('loads with a collapsed compound whose lock is held / failed')
                if nexp:
                    ck.count('loads with an expanded compound')
        lk = '[%s]' % '; '.join(str(it.hash_id(h)) for h in sorted(set(held) | set(failed)))
        lit = '(%s,\n %s,\n %s,\n [%s])' % (self.term, lg.coq_store(start, it), lk, ';\n  '.join(steps))
        meta = dict(ctx0, steps=metas)
        ck.distinct((self.term, lg.coq_store(start, it), lk, tuple(ctx0['ops'])), bool(self.comp_hashes))
        return lit, meta, len(steps)


def start_states(sr, rng):
    """named start stores for one program"""
    R = sr.R
    comp = set(sr.comp_hashes)
    top = set(sr.it.hash_of_desc[d] for d, _ in sr.scope)
    inner = [kv for kv in R if kv[0] not in comp]
    states = [('empty', []),
              ('all inner results', list(inner)),
              ('some inner results', [kv for kv in inner if rng.random() < 0.5]),
              ('collapsed: only what is in scope at the end', [kv for kv in R if kv[0] in top]),
              ('only the compounds', [kv for kv in R if kv[0] in comp]),
              ('everything', list(R)),
              ('random', [kv for kv in R if rng.random() < 0.5])]
    return states


JUNK = '0123456789abcdef0123456789abcdef01234567'      # a key no task of any generated program has


def lock_state(sr, start, rng):
    """(name, held, failed): locks other workers hold / have marked failed when the sequence starts"""
    r = rng.random()
    allh = [h for h, _ in sr.R]
    # hashes of tasks of branches the sequential run does not take, too
    other = [h for h in sr.it.id_of_hash if h not in set(allh)]
    have = set(h for h, _ in start)
    if r < 0.5 or not allh:
        return 'none', [], []
    if r < 0.68:
        # a worker was killed after storing the value of a compound, before releasing its lock (or is between the two)
        st = [h for h in sr.comp_hashes if h in have] or list(sr.comp_hashes)
        return 'stale locks on compounds', sorted(set(h for h in st if rng.random() < 0.8) or set(st[:1])), []
    if r < 0.76:
        st = [h for h in sr.comp_hashes if rng.random() < 0.7] or list(sr.comp_hashes[:1])
        return 'failed locks on compounds', [], sorted(set(st))
    pool = allh + other[:3]
    k = rng.choice([1, 1, 2, 3])
    pick = rng.sample(pool, min(k, len(pool)))
    if r < 0.88:
        return 'held on any hashes', sorted(pick), []
    if r < 0.94:
        return 'failed on any hashes', [], sorted(pick)
    cut = rng.randrange(len(pick) + 1)
    return 'held and failed', sorted(pick[:cut]), sorted(pick[cut:])


def gen_ops(rng):
    n = rng.choice([3, 4, 4, 5, 6])
    ops = []
    for i in range(n):
        ops.append(rng.choice(['load', 'phase', 'phase', 'execute', 'cleanup', 'cleanup_keep', 'cleanup_keep', 'deps',
                               'invalidate', 'invalidate_shell']))
    if 'cleanup' not in ops and 'cleanup_keep' not in ops:
        ops[rng.randrange(n)] = rng.choice(['cleanup', 'cleanup_keep'])
    if rng.random() < 0.3:
        # the history of a changed input: run; reload (compounds collapsed); [discard the inner results;] invalidate a task,
        # preferably one a compound was built from; run again
        ops = ['execute', 'deps'] + (['cleanup'] if rng.random() < 0.5 else []) + \
              [rng.choice(['invalidate', 'invalidate', 'invalidate_shell']), 'load', 'execute']
    return ops + ['load']


def run(ck):
    ck.prove()
    ck.trusted_base = core.DEFAULT_TRUSTED_BASE + [
        'C18: one worker (what others leave behind enters as start stores and as locks held / marked failed on any hash); task identifiers are the real hashes predicted with jug.task.Task(...).hash() on stub functions '
        '(the probe hash of a compound is Task(builder, args).hash()); values are integers mod 3 and pairs; builders '
        'return a task, a nested compound, a tuple of tasks and constants, or a constant',
    ]
    ck.assumptions = ['C18_compound_value: hypotheses of C14_reload_loop', 'C18_cleanup_*: Python scoping (wf [] p)']
    rng = ck.rng
    nprog = ck.n(110, 1500)
    nseq = ck.n(4, 5)
    home = os.environ.get('HOME')
    cases, metas = [], []
    nsteps = 0
    with jugrun.scratch_dir('jugv_c18_') as root:
        os.environ['HOME'] = root
        sc = lg.Scratch(root)
        try:
            progs = list(CORPUS)
            tries = 0
            while len(progs) < nprog + len(CORPUS) and tries < 20 * nprog:
                tries += 1
                style = tries % 3
                if style == 0:
                    prog = lg.generate(rng, max_tasks=6, max_b=2, max_comp=2, branch_depth=1, compound_bias=3.0, barrier_bias=0.5, kw_bias=0.5)
                elif style == 1:
                    prog = lg.generate(rng, max_tasks=7, max_b=3, max_comp=3, branch_depth=1, compound_bias=2.0, barrier_bias=1.2, kw_bias=0.7)
                else:
                    prog = lg.generate(rng, max_tasks=6, max_b=1, max_comp=3, branch_depth=0, compound_bias=4.0, barrier_bias=0.3, kw_bias=0.7)
                log = lg.seq_oracle(prog)[0]
                if not any(d[1].startswith('comp') for d, _ in log):
                    continue
                progs.append(('gen%d' % tries, prog))
            progs = [(n, p, None) for n, p in progs]
            for i in range(ck.n(5, 30)):
                # builders called on the end of a long dependency chain nothing has hashed yet, a chain (and a barrier)
                # inside the builder; loaded / run / cleaned with ~170 Python frames left (loadergen.Deep; defect D21)
                progs.append(('deep%d' % i, lg.generate_deep(rng, first='compound', rounds=rng.choice([1, 2, 2]), max_tasks=330,
                                                  nfirst=(0, 0, 1, 1, 2)), DEEP_SLACK))
            for name, prog, slack in progs:
                it = lg.Interner(prog)
                term = lg.render_coq(prog, it)
                log, scope, nb, _ = lg.seq_oracle(prog)
                sr = SeqRun(ck, sc, name, prog, it, term, log, scope, lg.builder_marks(prog), slack=slack)
                sc.write(prog)
                states = start_states(sr, rng)
                if sr.large:
                    chosen = [states[0]] + rng.sample(states[1:], 2)
                else:
                    chosen = states if name in dict(CORPUS) else ([states[0]] + rng.sample(states[1:], nseq - 1))
                for j, (sname, start) in enumerate(chosen):
                    start = list(start)
                    if start and rng.random() < 0.12:
                        q = rng.randrange(len(start))
                        start[q] = (start[q][0], perturb(start[q][1], rng))
                        ck.count('start: with a non-sequential value')
                    if rng.random() < 0.08:
                        start.append((JUNK, rng.randrange(lg.M)))
                        ck.count('start: with a key no task has')
                    backend = 'file' if (len(cases) % 5 == 3 and not sr.large) else 'dict'
                    lname, held, failed = lock_state(sr, start, rng)
                    ops = gen_ops(rng)
                    if sr.large and j == 0:
                        # a long program from the empty store, through the collapse and the reloads, to the end and once more
                        ops = ['execute', 'load', 'execute', 'cleanup_keep', 'load']
                        held, failed, lname = [], [], 'none'
                    res = sr.run(start, ops, backend, root, held, failed)
                    ck.count('start: %s' % sname)
                    ck.count('locks: %s' % lname)
                    if res is None:
                        continue
                    lit, meta, k = res
                    meta['start_kind'] = sname
                    meta['locks_kind'] = lname
                    cases.append(lit)
                    metas.append((sr, meta))
                    nsteps += k
                ck.count('programs')
                if sr.large:
                    ck.count('programs with long dependency chains (low recursion limit)')
                ck.count('programs with %d compound(s) on the sequential path' % min(len(sr.comp_hashes), 4))
                if any(isinstance(v, tuple) for d, v in log if d[1].startswith('comp')):
                    ck.count('programs with a tuple-valued compound')
                if nb:
                    ck.count('programs with barrier/bvalue')
                if len(ck.samples) < 4 and len(sr.comp_hashes) >= 2 and not sr.large:
                    ck.sample({'jugfile': lg.render_python(prog)[len(lg.PRELUDE):], 'sequential_values': [[repr(d), v] for d, v in log],
                               'sequence': metas[-1][1]})
            jugrun.fresh()
        finally:
            sc.close()
            if home is None:
                os.environ.pop('HOME', None)
            else:
                os.environ['HOME'] = home
    small = [i for i, (sr, _) in enumerate(metas) if not sr.large]
    big = [i for i, (sr, _) in enumerate(metas) if sr.large]
    f1 = ck.cases('seq', lg.COQ_IMPORTS, CASE_TYPE, 'chk_seq', [cases[i] for i in small], shard=24, preamble=PREAMBLE)
    f2 = ck.cases('seq_long', lg.COQ_IMPORTS, CASE_TYPE, 'chk_seq', [cases[i] for i in big], shard=2, preamble=PREAMBLE) if big else []
    fails = sorted([small[j] for j in (f1 or [])] + [big[j] for j in (f2 or [])])
    for i in fails:
        sr, meta = metas[i]
        o = dict({'kind': 'correspondence', 'what': 'compound: model and jug disagree on a load/execute/cleanup sequence',
                  'program': sr.name, 'start': meta['start'], 'backend': meta['backend'], 'ops': meta['ops'],
                  'held': meta['held'], 'failed': meta['failed']}, **sr.prog_fields())
        if not sr.large:
            o.update({'interning': sr.it.table(), 'steps': meta['steps'], 'coq_case': cases[i]})
        ck.violation(o)
    ck.case_total = nsteps


# ---------------------------------------------------------------------------- replay
def replay(obj):
    prog = obj['prog'] if obj.get('prog') else lg.unflatten(obj['prog_flat'])
    rc = 0
    with jugrun.scratch_dir('jugv_c18r_') as root:
        home = os.environ.get('HOME')
        os.environ['HOME'] = root
        sc = lg.Scratch(root)
        try:
            ck = lg.ReplayCheck('C18', obj.get('seed', 0))
            it = lg.Interner(prog)
            term = lg.render_coq(prog, it)
            log, scope, nb, _ = lg.seq_oracle(prog)
            sr = SeqRun(ck, sc, obj.get('program', 'replay'), prog, it, term, log, scope, lg.builder_marks(prog), slack=obj.get('slack'))
            sc.write(prog)
            if sr.large:
                print('(long program: %d statements, %d results on the sequential path; recursion slack %s)'
                      % (lg.nstatements(prog), len(sr.R), sr.slack))
            else:
                print(lg.render_python(prog)[len(lg.PRELUDE):])
                print('sequential values:', [(it.desc_id(d), v) for d, v in log])
            start = [(h, tuplify(v)) for h, v in obj.get('start', [])]
            res = sr.run(start, obj.get('ops', ['load', 'execute', 'load', 'cleanup', 'load']), obj.get('backend', 'dict'), root,
                         obj.get('held', []), obj.get('failed', []))
            if obj.get('held') or obj.get('failed'):
                print('locks of others: held', [it.hash_id(h) for h in obj.get('held', [])], 'failed', [it.hash_id(h) for h in obj.get('failed', [])])
            if res is not None:
                for st in res[1]['steps']:
                    if sr.large:
                        print(' %-8s %d tasks hasbarrier %s executed %d store %d' % (st['op'], len(st['tasks']), st['hasbarrier'], len(st['executed']), len(st['store_after'])))
                        continue
                    print(' %-8s tasks %s hasbarrier %s executed %s store %s' % (
                        st['op'], [it.hash_id(h) for h in st['tasks']], st['hasbarrier'], [it.hash_id(h) for h in st['executed']],
                        [(it.hash_id(h), v) for h, v in st['store_after']]))
            jugrun.fresh()
        finally:
            sc.close()
            if home is None:
                os.environ.pop('HOME', None)
            else:
                os.environ['HOME'] = home
    for o in ck.found:
        print('VIOLATED on the real code:', o.get('what'), dict((k, o[k]) for k in ('compound', 'marker', 'keys', 'executed', 'step', 'locks_before', 'locks_after', 'target', 'dependencies', 'expected') if k in o))
        rc = 1
    if res is None:
        return 1
    mrc, out = core.make(['Model/Loader.vo'])
    fails = ck.cases('replay', lg.COQ_IMPORTS, CASE_TYPE, 'chk_seq', [res[0]], preamble=PREAMBLE) if mrc == 0 else None
    print('model vs observed:', 'agree' if fails == [] else ('DISAGREE' if fails else 'could not evaluate'))
    if fails != []:
        rc = 1
    return rc
