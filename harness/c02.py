"""C02 - a task is executed at most once and never by two workers at the same time.

Proof: Props/C02.v over Model/Exec.v (guarded transition system of the execution protocol).
Tie (trace validation): generated programs are realised as real jug Task objects, 2-4 workers run the REAL
`jug.jug.execution_loop` as threads in lock-step under generated schedules (random with bias, round-robin,
stalls, late joiners, a worker parked right before its lock()/re-check/dump/unlock while the others run on)
over proxy store / lock objects wrapping dict_store, file_store, packed file_store and redis_store (fake
server); coqc checks that every recorded trace is accepted by `Model.Exec.run` and that the final store is the
model's and sequential.
Search (independent of Coq): invocation log of the task functions - no two overlapping executions of one
task, no start after a result was stored, exactly one execution per task in complete clean runs, also across
repeated executes."""
from . import exectrace as X

# hypotheses of this property's theorems that are other properties of the list: their ties are re-run (reduced) by
# harness/main.py after this module's run(); a failure there is reported as a violation of this property
HYPOTHESES = {
    'C04': (0.5, 'the lock primitive of every backend is exclusive and its failed marker sticky'),
    'C06': (0.4, 'can_load / load tell the truth about what was dumped (a stored result is never reported missing)'),
}

EVIDENCE = dict(
    level='proof',
    rule='one case = (program, initial store, schedule) -> one recorded multi-worker run of the real execution_loop; '
         'non-trivial when the trace has more than 4 events; distinct = distinct (program, schedule decisions, backend)',
    explanation='Coq theorems over the guarded transition system Model/Exec.v + trace validation of real lock-step runs '
                '(4 backends) against it + invocation-log oracles on the real code',
)


def o_c02(sc, res):
    clean = all(code == 0 and not dead and not intr for (_, code, dead, intr) in res.workers)
    return X.oracle_c02(res.trace, clean_complete=clean, ntasks=res.ntasks, prefilled=set(sc.get('prefill', [])))


def o_basic(sc, res):
    return X.oracle_sound(res) + X.oracle_complete(res)


ORACLES = (o_c02, o_basic)


def adversarial_policy(rng, nw):
    """park one worker right before a protocol step while the others run on"""
    k = rng.randrange(nw)
    kind = rng.choice(['lock', 'lock', 'lock', 'can_load', 'dump', 'unlock', 'start', 'ret'])
    d = {'seed': rng.randrange(1 << 30), 'base': rng.choice(['random', 'rr', 'serial']), 'flavour': 'adversarial:' + kind,
         'stall_at': [[k, kind, rng.choice([20, 60, 200, 1000]), occ] for occ in sorted(rng.sample(range(6), rng.randint(1, 3)))]}
    if rng.random() < 0.4:
        # another worker joins late, and a long time has gone by since the parked one took its lock
        late = rng.randint(10, 120)
        d['late'] = {str((k + 1) % nw): late}
        d['time_passes'] = [[rng.randint(5, late), rng.choice(X.LONG_TIMES)]]
    elif rng.random() < 0.5:
        X.add_time_passes(rng, d)
    return d


def scenarios(ck):
    rng = ck.rng
    n_random = ck.n(70, 1000)
    n_adv = ck.n(90, 1000)
    n_repeat = ck.n(25, 250)
    yield X.sanity_scenario()
    for i in range(n_random):
        nt = rng.randint(2, 6)
        spec = X.gen_program(rng, nt, clean=True, rich=rng.choice([0.2, 0.6]), use_map=rng.random() < 0.15)
        nw = rng.randint(2, 4)
        yield {'program': spec, 'backend': X.pick_backend(rng), 'prefill': X.closed_subset(rng, spec, 0.3) if rng.random() < 0.3 else [],
               'keep_going': rng.random() < 0.3, 'keep_failed': rng.random() < 0.3,
               'phases': [{'workers': X.gen_workers(rng, nw), 'policy': X.gen_policy(rng, nw)}]}
    for i in range(n_adv):
        nt = rng.randint(1, 4)
        spec = X.gen_program(rng, nt, clean=True, rich=0.3) if rng.random() < 0.6 else \
            X.small_program(rng.choice(['one', 'chain2', 'chain3', 'fork', 'join', 'indep2', 'indep3', 'diamond']))
        nw = rng.randint(2, 3)
        yield {'program': spec, 'backend': X.pick_backend(rng), 'prefill': [],
               'keep_going': False, 'keep_failed': False,
               'phases': [{'workers': [{'nr_wait': rng.choice([1, 2, 4]), 'unload': rng.random() < 0.3} for _ in range(nw)],
                           'policy': adversarial_policy(rng, nw)}]}
    for i in range(n_repeat):
        nt = rng.randint(2, 5)
        spec = X.gen_program(rng, nt, clean=True, rich=0.4)
        phases = []
        for _ in range(rng.randint(2, 3)):
            nw = rng.randint(1, 3)
            phases.append({'workers': X.gen_workers(rng, nw), 'policy': X.gen_policy(rng, nw)})
        yield {'program': spec, 'backend': X.pick_backend(rng), 'prefill': [], 'keep_going': False, 'keep_failed': False, 'phases': phases}


def enumerated(ck, b):
    """ALL interleavings (at store / lock call granularity) of 2 workers on a 1-task program; all schedules with a bounded number of
    preemptions for 2-3 task programs and for 3 workers"""
    plans = ck.n([('one', 2, 1, 3, 'dict')],
                 [('one', 2, 1, None, 'dict'), ('one', 2, 2, None, 'file'), ('one', 2, 1, 4, 'redis'), ('one', 3, 1, 2, 'dict'),
                  ('indep2', 2, 1, 2, 'dict'), ('chain2', 2, 1, 2, 'redis'), ('fork', 2, 1, 2, 'dict'),
                  ('chain3', 2, 1, 2, 'dict'), ('join', 2, 1, 1, 'dict')])
    for shape, nw, nr_wait, bound, backend in plans:
        sc0 = {'program': X.small_program(shape), 'backend': backend, 'prefill': [], 'keep_going': False, 'keep_failed': False, 'coarse': True,
               'phases': [{'workers': [{'nr_wait': nr_wait} for _ in range(nw)], 'policy': {}}]}
        runs, done = X.enumerate_schedules(b, sc0, ORACLES, max_preempt=bound, max_runs=ck.n(600, 4000))
        ck.count('enumerated:%s x %d workers, %s: %d schedules%s' % (shape, nw, 'all interleavings' if bound is None else '<= %d preemptions' % bound,
                                                                    runs, '' if done else ' (budget reached, not exhaustive)'))


def run(ck):
    ck.prove()
    ck.assumptions = ['task functions are deterministic and side-effect free (free constructors in the generated programs)',
                      'store and lock operations are atomic at the granularity of one store/lock call (C04-C06 cover the inside of a call)']
    b = X.Batch(ck)
    for sc in scenarios(ck):
        res = b.run(sc, ORACLES)
        if res is not None:
            ck.count('policy:' + sc['phases'][0]['policy'].get('flavour', sc['phases'][0]['policy'].get('base', '?')).split(':')[0])
            if sc['backend'] == 'redis' and any(n.startswith('time-passes') for n in res.notes):
                ck.count('redis runs in which a long time passes between scheduling points')
            if len(ck.samples) < 3 and len(res.trace) > 20:
                ck.sample({'program': sc['program'], 'backend': sc['backend'], 'events': [X.ev_show(e) for e in res.trace[:40]]})
    enumerated(ck, b)
    X.require_coverage(ck, [X.WAIT_KEY, X.DUMP_KEY], 'lock-step runs')
    b.flush()
    # exactly-once with REAL processes (harness/e2e.py): every task function appends one line per call to a log; after
    # 1-4 concurrent `jug execute` processes (+ pack, late workers, a final idle execute) each call line occurs exactly once
    from . import e2e
    e2e.run_section(ck, 16, 200)


def replay(obj):
    if obj.get('section') == 'e2e':
        from . import e2e
        return e2e.replay(obj)
    return X.replay_scenario(obj, ORACLES)
