"""C11 - a failing task stores nothing, blocks only its dependents, and is accounted for.

Proof: Props/C11.v over Model/Exec.v.
Tie (trace validation): programs with raising functions (kind FkRaise) and with tasklet operations that raise
during argument resolution, all four combinations of keep_going / keep_failed, 1-4 lock-step workers running the
REAL execution_loop over the four backends, optionally followed by the real `cleanup --failed-only` and a
second execute; every trace must be accepted by Model.Exec.run (ERaise only when the model's task_run raises,
EFailMark / EUnlock according to the flags, exit codes).
Search: nothing stored for a failed task; no dependent started; with keep_going every independent task
completes; exit status non-zero iff the worker saw a failure; lock free / failed afterwards; a failed-marked
task is never locked or executed again until released; after release it is retried."""
from . import exectrace as X

# hypotheses of this property's theorems that are other properties of the list: their ties are re-run (reduced) by
# harness/main.py after this module's run(); a failure there is reported as a violation of this property
HYPOTHESES = {
    'C04': (0.5, 'a failed marker is sticky on every backend until explicitly released'),
}

EVIDENCE = dict(
    level='proof',
    rule='one case = (program with failing tasks, flags, schedule) -> one recorded multi-worker run; non-trivial when the trace '
         'has more than 4 events; distinct = distinct (program, schedule decisions, backend)',
    explanation='Coq theorems over Model/Exec.v + trace validation of real lock-step runs with failing tasks x keep_going x keep_failed '
                '+ direct oracles on store, locks, exit codes and invocation log',
)


def o_all(sc, res):
    return X.oracle_c11(sc, res) + X.oracle_sound(res) + X.oracle_c02(res.trace)


ORACLES = (o_all,)


def scenarios(ck):
    rng = ck.rng
    yield X.sanity_scenario()
    n_small = ck.n(80, 1200)
    n_rand = ck.n(120, 3000)
    shapes = ['one', 'chain2', 'chain3', 'fork', 'join', 'indep2', 'indep3', 'diamond']
    for i in range(n_small):
        shape = rng.choice(shapes)
        n = len(X.small_program(shape)['tasks'])
        fail = set(rng.sample(range(n), rng.randint(1, min(2, n))))
        spec = X.small_program(shape, fail)
        yield mk(rng, spec)
    # a long dependency chain (already stored) next to the failing task, under a lowered recursion limit: handling the failure must not
    # depend on how deep the rest of the DAG is (rare and cheap: the chain is pre-filled)
    for i in range(ck.n(4, 30)):
        order = ['R', 'D', 'C', 'U']
        rng.shuffle(order)
        if order.index('C') < order.index('R') and rng.random() < 0.7:
            order.remove('C')                  # mostly: the consumer of the deep chain is still queued when R fails
            order.append('C')
        order.remove('D')
        order.insert(order.index('R') + 1 + (rng.random() < 0.5 and order.index('R') + 1 < len(order)), 'D')
        n = rng.choice([220, 260])
        spec = X.deep_chain_program(n, order)
        nw = rng.choice([1, 1, 2])
        yield {'program': spec, 'backend': X.pick_backend(rng, (5, 2, 0, 2)), 'prefill': list(range(n)), 'keep_going': True, 'keep_failed': rng.random() < 0.5,
               'recursion_slack': 150, 'deep': True,
               'phases': [{'workers': X.gen_workers(rng, nw), 'policy': X.gen_policy(rng, nw)}]}
    # wide programs: a failing task with 130-250 dependents queued in front of independent tasks (the scheduler looks at most 128 blocked
    # tasks ahead before it falls back to a full scan; rare and cheap: the dependents never run)
    for i in range(ck.n(2, 12)):
        nd = rng.choice([130, 135, 160, 250])
        spec = X.wide_program(nd, rng.randint(2, 4), fail=True, before=rng.choice([0, 0, 1]))
        nw = rng.choice([1, 1, 2])
        yield {'program': spec, 'backend': X.pick_backend(rng, (6, 1, 0, 2)), 'prefill': [], 'keep_going': True, 'keep_failed': rng.random() < 0.5,
               'wide': True, 'phases': [{'workers': [{'nr_wait': rng.choice([1, 2])} for _ in range(nw)], 'policy': X.gen_policy(rng, nw, 'random')}]}
    for i in range(n_rand):
        spec = X.gen_program(rng, rng.randint(2, 7), clean=rng.random() < 0.3, rich=rng.choice([0.3, 0.7]),
                             p_raise=rng.choice([0.15, 0.3, 0.5]), use_map=rng.random() < 0.1)
        yield mk(rng, spec)


def mk(rng, spec):
    kg, kf = rng.random() < 0.5, rng.random() < 0.5
    nw = rng.randint(1, 4)
    phases = [{'workers': X.gen_workers(rng, nw, patient=rng.random() < 0.7), 'policy': X.gen_policy(rng, nw)}]
    r = rng.random()
    if r < 0.45:
        nw2 = rng.randint(1, 2)
        pre = 'release_failed' if (kf and rng.random() < 0.6) else None
        phases.append({'pre': pre, 'workers': X.gen_workers(rng, nw2), 'policy': X.gen_policy(rng, nw2)})
    refs = X.ref_program(spec)
    return {'program': spec, 'backend': X.pick_backend(rng, (5, 3, 1, 3)),
            'prefill': X.closed_subset(rng, spec, 0.3, refs) if rng.random() < 0.2 else [],
            'keep_going': kg, 'keep_failed': kf, 'phases': phases}


def run(ck):
    ck.prove()
    ck.assumptions = ['task functions are deterministic: a function that raises, raises on every call with the same arguments']
    b = X.Batch(ck)
    for sc in scenarios(ck):
        res = b.run(sc, ORACLES)
        if res is not None:
            ck.count('flags:kg=%d,kf=%d' % (sc['keep_going'], sc['keep_failed']))
            if sc.get('wide'):
                ck.count('wide programs (more than 128 blocked tasks queued ahead of a runnable one)')
            if sc.get('deep'):
                ck.count('deep-chain programs (lowered recursion limit)')
            ck.count('raises-in-run:%d' % min(3, sum(1 for e in res.trace if e[0] == 'ERaise')))
            if len(sc['phases']) > 1:
                ck.count('second-phase:' + str(sc['phases'][1].get('pre')))
            if len(ck.samples) < 3 and any(e[0] == 'ERaise' for e in res.trace):
                ck.sample({'program': sc['program'], 'flags': [sc['keep_going'], sc['keep_failed']], 'events': [X.ev_show(e) for e in res.trace[:40]]})
    # the real `jug execute` command (exit status, barrier passes, cleanup --failed-only) in subprocesses on a file store
    X.require_coverage(ck, [X.WAIT_KEY, X.DUMP_KEY], 'lock-step runs')
    b.flush()
    from . import execproc
    execproc.failure_runs(ck, ck.n(10, 60))


def replay(obj):
    if obj.get('kind') == 'process-run' or obj.get('kind2') == 'process-run':
        from . import execproc
        return execproc.replay(obj)
    return X.replay_scenario(obj, ORACLES)
