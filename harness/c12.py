"""C12 - a worker asked to stop exits without leaving locks or partial results.

Proof: Props/C12.v over Model/Exec.v (EInterrupt is enabled in every protocol state of a live worker outside the
lock-release / exception-handler instants; afterwards only EUnlock of the held lock and EExit are enabled).
Tie (trace validation): for small programs EVERY scheduling point of a worker (inside the task function, inside the
wait loop's sleep, in the execute.task-pre-execute / execute.task-executed1 hooks, and right before each store call)
is used in turn as the instant at which SystemExit (what the SIGTERM handler raises) or KeyboardInterrupt is raised
in the real execution_loop, with and without a second live worker, then a later worker finishes; the REAL exit
checks of jug.hooks.exit_checks (exit_after_n_tasks, JUG_MAX_TASKS through exit_env_vars, exit_after_time,
exit_when_true, exit_if_file_exists) stop workers the same way.  Every trace must be accepted by the model.
Search (independent of Coq): the interrupted worker leaves execution_loop, holds no lock afterwards (events and
real lock table), stores nothing after the stop request; the later worker completes everything with the values of
plain sequential evaluation.  Thorough tier: real `jug execute` processes on a file store get real SIGTERM / SIGINT."""
from . import exectrace as X

# hypotheses of this property's theorems that are other properties of the list: their ties are re-run (reduced) by
# harness/main.py after this module's run(); a failure there is reported as a violation of this property
HYPOTHESES = {
    'C05': (0.5, 'dump is all-or-nothing: a write that does not complete leaves no readable result'),
}

EVIDENCE = dict(
    level='proof',
    rule='one case = (program, worker configuration, schedule, stop instant / exit check) -> one recorded run + follow-up run; '
         'non-trivial when a stop request was delivered; distinct = distinct (program, schedule decisions, backend)',
    explanation='Coq theorems over Model/Exec.v + trace validation of real lock-step runs with SystemExit / KeyboardInterrupt raised at every '
                'scheduling point and by the real exit checks + direct oracles on locks, store and follow-up run',
)


def o_c12(sc, res):
    out = X.oracle_c12(sc, res) + X.oracle_unexplained_results(sc, res) + X.oracle_sound(res) + X.oracle_c02(res.trace)
    if sc.get('finisher'):
        out += X.oracle_complete(res)
    return out


ORACLES = (o_c12,)
SHAPES = ['one', 'chain2', 'chain3', 'fork', 'join', 'indep2', 'diamond']
ACTIONS = ['intr:sys:1', 'intr:kbd', 'intr:sys:0']


def finisher(rng):
    return {'workers': [{'nr_wait': 3, 'unload': rng.random() < 0.3}], 'policy': {'base': 'serial'}}


def base_scenario(rng, spec, nw, backend):
    return {'program': spec, 'backend': backend, 'prefill': [], 'keep_going': rng.random() < 0.5, 'keep_failed': rng.random() < 0.5,
            'finisher': True,
            'phases': [{'workers': [{'nr_wait': rng.choice([2, 3]), 'unload': rng.random() < 0.3} for _ in range(nw)],
                        'policy': {'seed': rng.randrange(1 << 30), 'base': rng.choice(['random', 'rr']), 'flavour': 'systematic'}},
                       finisher(rng)]}


def systematic(ck, b, nbases, stride):
    """every scheduling point of worker 0 of small programs as the stop instant"""
    rng = ck.rng
    for i in range(nbases):
        shape = SHAPES[i % len(SHAPES)]
        spec = X.small_program(shape) if rng.random() < 0.7 else X.gen_program(rng, rng.randint(1, 3), clean=True, rich=0.3)
        nw = 1 if i % 3 == 0 else 2
        sc0 = base_scenario(rng, spec, nw, X.pick_backend(rng, (5, 3, 1, 2)))
        if i % 3 == 2:
            # the other worker is parked inside the first task's function: worker 0 ends up in the wait loop (sleep)
            sc0['phases'][0]['policy'].update({'base': 'reverse', 'stall_at': [[1, 'ret', rng.choice([25, 60]), 0]]})
            sc0['phases'][0]['workers'][0]['nr_wait'] = rng.choice([2, 4])
        # with a single worker and one wait cycle nothing ever sleeps: make a sleep reachable with an initially held lock? no: use 2 workers
        try:
            res0 = X.run_scenario(sc0)
        except X.HarnessError as e:
            ck.broken.append('exec harness error: %s' % str(e)[:200])
            continue
        kinds = res0.kinds[0]
        points = [n for n, k in enumerate(kinds) if k in X.INTR_POINTS]
        off = rng.randrange(stride)
        chosen = sorted(set(points[off::stride]) | set(n for n in points if kinds[n] in X.RARE_KINDS))
        for n in chosen:
            sc = X.copy.deepcopy(sc0)
            k = kinds[n]
            act = 'intr:sys:0' if k.startswith('hook') else rng.choice(ACTIONS[:2])
            sc['phases'][0]['policy']['inject'] = [[0, n, act]]
            sc['phases'][0]['policy']['flavour'] = 'stop-at:' + k
            res = b.run(sc, ORACLES)
            if res is not None:
                ck.count('stop-flags:kg=%d,kf=%d,%s' % (sc['keep_going'], sc['keep_failed'], act))
                delivered = any(e[0] == 'EInterrupt' for e in res.trace)
                ck.count('stop-at:%s%s' % (k, '' if delivered else ' (schedule diverged: not delivered)'))
                ck.count('mechanism:' + act)
                t = None
                for j, e in enumerate(res.trace):
                    if e[0] == 'EInterrupt':
                        t = X.holding_at(res.trace, e[1], j)
                ck.count('stopped-while-holding-a-lock' if t is not None else 'stopped-while-holding-no-lock')


def real_hooks(ck, b, n):
    rng = ck.rng
    for i in range(n):
        spec = X.gen_program(rng, rng.randint(2, 6), clean=True, rich=0.4, chainy=0.5) if rng.random() < 0.7 else X.small_program(rng.choice(SHAPES))
        nt = len(spec['tasks'])
        which = rng.choice(['max_tasks', 'env_max_tasks', 'time0', 'when_true', 'file'])
        if which == 'file':
            hook = ['real', 'execute.task-pre-execute', 'file', rng.randrange(nt)]
        else:
            hook = ['real', 'execute.task-executed1', which, rng.randint(1, max(1, nt - 1))]
        nw = rng.randint(1, 3)
        ws = [{'nr_wait': rng.choice([2, 3]), 'unload': rng.random() < 0.3} for _ in range(nw)]
        for w in ws:
            if w is ws[0] or rng.random() < 0.4:
                w['hook'] = hook
        sc = {'program': spec, 'backend': X.pick_backend(rng, (4, 3, 1, 2)), 'prefill': [], 'keep_going': False, 'keep_failed': False, 'finisher': True,
              'phases': [{'workers': ws, 'policy': X.gen_policy(rng, nw)}, finisher(rng)]}
        res = b.run(sc, ORACLES)
        if res is not None:
            ck.count('exit-check:%s%s' % (which, '' if any(e[0] == 'EInterrupt' for e in res.trace) else ' (did not fire)'))


def random_stops(ck, b, n):
    """bigger programs, several workers, stop requests at random eligible instants of random workers, failing tasks mixed in"""
    rng = ck.rng
    for i in range(n):
        clean = rng.random() < 0.7
        spec = X.gen_program(rng, rng.randint(2, 6), clean=clean, rich=0.5, p_raise=0.0 if clean else 0.3)
        nw = rng.randint(1, 4)
        pol = X.gen_policy(rng, nw)
        pol['inject_kind'] = [[rng.randrange(nw), rng.choice(X.INTR_STRICT + X.INTR_POINTS), rng.randint(0, 3), rng.choice(ACTIONS)]
                              for _ in range(rng.randint(1, 2))]
        sc = {'program': spec, 'backend': X.pick_backend(rng, (4, 3, 1, 2)), 'prefill': [], 'keep_going': rng.random() < 0.5,
              'keep_failed': (not clean) and rng.random() < 0.4, 'finisher': clean,
              'phases': [{'workers': X.gen_workers(rng, nw), 'policy': pol}, finisher(rng)]}
        res = b.run(sc, ORACLES)
        if res is not None:
            ck.count('random-stop:%s' % ('delivered' if any(e[0] == 'EInterrupt' for e in res.trace) else 'not-reached'))


def run(ck):
    ck.prove()
    ck.assumptions = ['the stop request is not delivered inside lock.get() / lock.release() / lock.fail() themselves nor inside the exception handler '
                      '(the property excludes those instants; in the lock-step runs SystemExit is raised right BEFORE the store / lock call)']
    b = X.Batch(ck)
    b.run(X.sanity_scenario(), ORACLES)
    systematic(ck, b, ck.n(14, 120), ck.n(2, 1))
    real_hooks(ck, b, ck.n(40, 600))
    random_stops(ck, b, ck.n(40, 1500))
    for sc, res, _ in b.items[:400]:
        if len(ck.samples) < 3 and any(e[0] == 'EInterrupt' for e in res.trace):
            ck.sample({'program': sc['program'], 'backend': sc['backend'], 'events': [X.ev_show(e) for e in res.trace[:40]]})
    X.require_coverage(ck, ['stop-at:%s' % k for k in ('sleep', 'pickle', 'ret', 'start', 'dump', 'lock', 'can_load', 'hook_pre', 'hook_exec1')],
                       'stop request at every kind of scheduling point')
    b.flush()
    # real `jug execute` processes on a file store, real SIGTERM / SIGINT (the only tier that goes through ExecuteCommand.run,
    # i.e. the SIGTERM handler registration and --no-check-environment)
    from . import execproc
    execproc.signal_runs(ck, ck.n(7, 40))
    X.require_coverage(ck, ['process-run:term:in-function:delivered', 'process-run:int:in-function:delivered'], 'real signals inside a task function')


def replay(obj):
    if obj.get('kind') == 'process-run' or obj.get('kind2') == 'process-run':
        from . import execproc
        return execproc.replay(obj)
    return X.replay_scenario(obj, ORACLES)
