"""Fail-closed translator: regenerates coq/Gen/*.v from /repo's current source on every run.
Each extractor pattern-matches the Python AST of one small region; an unrecognised shape raises
TranslateError, which the checks treat exactly like a broken proof."""
import ast
import os

from . import core


class TranslateError(Exception):
    pass


def _write_if_changed(path, text):
    old = open(path).read() if os.path.exists(path) else None
    if old != text:
        os.makedirs(os.path.dirname(path), exist_ok=True)
        with open(path, 'w') as f:
            f.write(text)


EXTRACTORS = []   # list of (gen_file_name, function() -> coq text)


def extractor(name):
    def deco(f):
        EXTRACTORS.append((name, f))
        return f
    return deco


def parse(rel):
    path = os.path.join(core.REPO, rel)
    return ast.parse(open(path).read(), filename=path)


def _load_extractors():
    import importlib
    here = os.path.dirname(os.path.abspath(__file__))
    for f in sorted(os.listdir(here)):
        if f.startswith('translate_') and f.endswith('.py'):
            importlib.import_module('harness.' + f[:-3])


def regenerate_all():
    _load_extractors()
    msgs = []
    ok = True
    for name, fn in EXTRACTORS:
        path = os.path.join(core.COQ, 'Gen', name)
        try:
            text = fn()
        except Exception as e:   # fail closed: emit a file that does not define what the theorems need
            ok = False
            msgs.append('%s: %s: %s' % (name, type(e).__name__, e))
            text = '(* translator failed: %s *)\n' % str(e).replace('*)', '* )')
        _write_if_changed(path, '(* GENERATED from /repo by harness/translate.py on every run. Do not edit. *)\n' + text)
    global LAST_FAILED
    LAST_FAILED = {m.split(':', 1)[0]: m for m in msgs}      # Gen file name -> message
    return ok, '; '.join(msgs)


LAST_FAILED = {}
