"""C03 - no task starts before all its dependencies are complete; it sees their results.

Proof: Props/C03.v over Model/Exec.v + Model/Deps.v (EStart needs every dependency of the dependency walk stored;
the dependency walk contains every task occurring in the arguments; what the function receives is `resolve`
of the arguments against the store).
Tie (trace validation): programs with rich argument structures (keyword / nested container arguments, tasklets of
tasklets, task(let)-valued indices, return_tuple checks, mapped sequences and their slices, CustomHash, NoHash,
identity); schedules in which the worker holding a dependency is stalled inside the dependency (locked, running,
returned-but-not-dumped, dumped-but-not-unlocked) or has not started it, while the other workers examine the
dependents; all four backends.  Every EStart / ERet / ERaise of the recorded run is checked by the model's guards.
Search (independent of Coq): at every function start (and at the begin of argument resolution) every task found
by walking the REAL argument objects has a stored result, and the received arguments (recorded by the free
constructor) equal the stored results with the tasklet operations applied in plain Python."""
from . import exectrace as X

# hypotheses of this property's theorems that are other properties of the list: their ties are re-run (reduced) by
# harness/main.py after this module's run(); a failure there is reported as a violation of this property
HYPOTHESES = {
    'C16': (1.0, 'tasklets, containers and wrappers declare exactly the tasks their value needs and resolve to the operation applied to the results'),
}

EVIDENCE = dict(
    level='proof',
    rule='one case = (program, schedule) -> one recorded multi-worker run; non-trivial when some task with a dependency is started; '
         'distinct = distinct (program, schedule decisions, backend)',
    explanation='Coq theorems over Model/Exec.v/Deps.v + trace validation of real lock-step runs with stalled dependency workers '
                '+ direct dependency / argument oracles on the real argument objects',
)


def o_c03(sc, res):
    out = X.oracle_sound(res) + X.oracle_c02(res.trace)
    refs = res.refs
    for i, e in enumerate(res.trace):
        if e[0] == 'EStart':
            ts = sc['program']['tasks'][e[2] - 1]
            stored = set(x[2] for x in res.trace[:i] if x[0] == 'EDump') | set(t for t, _ in res.r0)
            miss = sorted(d + 1 for d in X.task_deps_spec(ts) if (d + 1) not in stored)
            if miss:
                out.append({'what': 'task started before a task occurring in its arguments was stored (event order)', 'task': e[2],
                            'worker': e[1], 'missing': miss, 'at': i})
    return out


ORACLES = (o_c03,)


def stalled_dep_policy(rng, nw):
    """worker k is parked inside / around a dependency while the others go on examining the dependents"""
    k = rng.randrange(nw)
    kind = rng.choice(['start', 'ret', 'dump', 'unlock', 'lock', 'can_load', 'load'])
    d = {'seed': rng.randrange(1 << 30), 'base': rng.choice(['random', 'rr', 'random']), 'flavour': 'stalled-dep:' + kind,
         'stall_at': [[k, kind, rng.choice([30, 100, 400]), occ] for occ in sorted(rng.sample(range(5), rng.randint(1, 3)))]}
    if rng.random() < 0.3:
        d['late'] = {str(rng.randrange(nw)): rng.randint(5, 80)}
    return d


def stalled_task_policy(rng, spec, nw):
    """whoever executes a task that others depend on is parked inside it (before the function starts, inside it, before the
    dump, before the unlock) while the other workers go on examining the dependents"""
    used = set()
    for ts in spec['tasks']:
        used |= X.task_deps_spec(ts)
    cands = sorted(used) or [0]
    picks = rng.sample(cands, min(len(cands), rng.randint(1, 2)))
    if rng.random() < 0.5:
        picks = [max(cands)] + [p for p in picks if p != max(cands)][:1]        # the dependency defined last is the one most likely still running
    return {'seed': rng.randrange(1 << 30), 'base': rng.choice(['random', 'rr', 'random']), 'flavour': 'stalled-task',
            'stall_task': [[rng.choice(['start', 'ret', 'ret', 'dump', 'unlock', 'lock']), t + 1, rng.choice([60, 200, 600])] for t in picks]}


def scenarios(ck):
    rng = ck.rng
    yield X.sanity_scenario()
    n_rich = ck.n(100, 1200)
    n_map = ck.n(90, 1200)
    n_fail = ck.n(40, 500)
    for i in range(n_map):
        # consumers of mapped sequences: whole, elements, chunks, slices ending inside a block, reversed slices, slices of slices
        nt = rng.randint(4, 8)
        spec = X.gen_program(rng, nt, clean=True, rich=rng.choice([0.4, 0.8]), map_heavy=True, chainy=rng.choice([0.3, 0.6]))
        nw = rng.randint(2, 4)
        r = rng.random()
        pol = stalled_task_policy(rng, spec, nw) if r < 0.6 else (stalled_dep_policy(rng, nw) if r < 0.8 else X.gen_policy(rng, nw))
        yield {'program': spec, 'backend': X.pick_backend(rng, (5, 2, 1, 2)), 'prefill': [], 'keep_going': rng.random() < 0.3, 'keep_failed': False,
               'phases': [{'workers': [{'nr_wait': rng.choice([1, 2, 3, 6]), 'unload': rng.random() < 0.4} for _ in range(nw)], 'policy': pol}]}
    # wide programs: 130+ tasks waiting on one slow dependency, independent tasks queued behind them (crosses the scheduler's bounded
    # look-ahead of 128 blocked tasks); the executor of the dependency is parked inside it
    for i in range(ck.n(1, 8)):
        nd = rng.choice([130, 140, 170])
        spec = X.wide_program(nd, rng.randint(2, 3), fail=False, before=rng.choice([0, 1]))
        yield {'program': spec, 'backend': X.pick_backend(rng, (6, 1, 0, 2)), 'prefill': [], 'keep_going': False, 'keep_failed': False, 'wide': True,
               'phases': [{'workers': [{'nr_wait': 2}, {'nr_wait': rng.choice([1, 2])}],
                           'policy': {'seed': rng.randrange(1 << 30), 'base': 'rr', 'flavour': 'stalled-task', 'stall_task': [['ret', 1, rng.choice([700, 1200])]]}}]}
    for i in range(ck.n(25, 400)):
        # the same single-path shape with operations that fail at resolution (tuple / list indices holding a task, bad indices): the failing
        # look-up still has to wait for everything it names
        nt = rng.randint(3, 6)
        spec = X.gen_program(rng, nt, clean=False, rich=1.0, single_path=0.8, chainy=0.2)
        nw = rng.randint(2, 3)
        yield {'program': spec, 'backend': X.pick_backend(rng, (6, 2, 1, 2)), 'prefill': [], 'keep_going': rng.random() < 0.7, 'keep_failed': rng.random() < 0.3,
               'phases': [{'workers': [{'nr_wait': rng.choice([2, 3, 6])} for _ in range(nw)], 'policy': stalled_task_policy(rng, spec, nw)}]}
    for i in range(ck.n(90, 1500)):
        # single-path programs: most tasks take exactly one task-carrying argument (a tasklet chain, a container, a mapped slice ...), so
        # every dependency edge enters through one syntactic path only; the executor of one of the dependencies is parked inside it
        nt = rng.randint(3, 7)
        spec = X.gen_program(rng, nt, clean=True, rich=1.0, single_path=0.8, use_map=rng.random() < 0.25, chainy=0.2)
        nw = rng.randint(2, 4)
        pol = stalled_task_policy(rng, spec, nw) if rng.random() < 0.75 else stalled_dep_policy(rng, nw)
        yield {'program': spec, 'backend': X.pick_backend(rng, (6, 2, 1, 2)), 'prefill': [], 'keep_going': rng.random() < 0.3, 'keep_failed': False,
               'phases': [{'workers': [{'nr_wait': rng.choice([2, 3, 6]), 'unload': rng.random() < 0.4} for _ in range(nw)], 'policy': pol}]}
    for i in range(n_rich):
        nt = rng.randint(2, 7)
        spec = X.gen_program(rng, nt, clean=True, rich=rng.choice([0.7, 0.9, 1.0]), use_map=rng.random() < 0.4, chainy=rng.choice([0.3, 0.6]))
        nw = rng.randint(2, 4)
        r = rng.random()
        pol = stalled_dep_policy(rng, nw) if r < 0.4 else (stalled_task_policy(rng, spec, nw) if r < 0.75 else X.gen_policy(rng, nw))
        yield {'program': spec, 'backend': X.pick_backend(rng, (5, 2, 1, 2)), 'prefill': X.closed_subset(rng, spec, 0.3) if rng.random() < 0.2 else [],
               'keep_going': rng.random() < 0.3, 'keep_failed': False,
               'phases': [{'workers': [{'nr_wait': rng.choice([1, 2, 3, 6]), 'unload': rng.random() < 0.4} for _ in range(nw)], 'policy': pol}]}
    for i in range(n_fail):
        # argument structures whose resolution raises (invalid index, task-valued index on a free object, failed check)
        nt = rng.randint(2, 6)
        spec = X.gen_program(rng, nt, clean=False, rich=0.9, p_raise=0.1, use_map=rng.random() < 0.2)
        nw = rng.randint(1, 3)
        yield {'program': spec, 'backend': X.pick_backend(rng, (5, 2, 1, 2)), 'prefill': [], 'keep_going': rng.random() < 0.7, 'keep_failed': rng.random() < 0.3,
               'phases': [{'workers': X.gen_workers(rng, nw), 'policy': stalled_dep_policy(rng, nw) if rng.random() < 0.5 else X.gen_policy(rng, nw)}]}


def shape_of(a, acc):
    k = a[0]
    acc.add(k)
    if k == 'getitem' and a[2][0] in ('tuple', 'list'):
        acc.add('index-is-a-container-holding-tasks')
    if k in ('list', 'tuple'):
        for x in a[1]:
            shape_of(x, acc)
    elif k == 'dict':
        for _, x in a[1]:
            shape_of(x, acc)
    elif k == 'getitem':
        shape_of(a[1], acc)
        if a[2][0] != 'val':
            acc.add('index-is-task(let)')
        shape_of(a[2], acc)
    elif k in ('fun', 'custom', 'identity'):
        if k == 'fun':
            acc.add('fun:' + a[2][0])
        shape_of(a[1], acc)
    elif k == 'mapslice':
        blocks, bs, ln, sls = a[1], a[2], a[3], a[4]
        r = range(*slice(*sls[0]).indices(ln))
        for sl in sls[1:]:
            r = r[slice(*sl)]
        if len(sls) > 1:
            acc.add('mapslice:slice-of-slice')
        if len(r) == 0:
            acc.add('mapslice:empty')
        else:
            acc.add('mapslice:reversed' if r.step < 0 else 'mapslice:forward')
            if r.step < 0 and r[-1] == 0:
                acc.add('mapslice:reversed-down-to-element-0')
            hi = max(r[0], r[-1]) + 1
            if hi % bs != 0 and hi < ln:
                acc.add('mapslice:ends-inside-a-block')
            if len(set(p // bs for p in r)) < len(blocks):
                acc.add('mapslice:does-not-touch-every-block')


def run(ck):
    ck.prove()
    ck.assumptions = ['task functions are deterministic and side-effect free (free constructors that record what they receive)']
    b = X.Batch(ck)
    for sc in scenarios(ck):
        res = b.run(sc, ORACLES)
        if res is not None:
            acc = set()
            for ts in sc['program']['tasks']:
                for a in ts['args']:
                    shape_of(a, acc)
                for _, a in ts['kwargs']:
                    acc.add('kwarg')
                    shape_of(a, acc)
            for k in acc:
                ck.count('arg:' + k)
            ck.count('policy:' + sc['phases'][0]['policy'].get('flavour', '?').split(':')[0])
            if sc.get('wide'):
                ck.count('wide programs (130+ tasks waiting on one parked dependency)')
            ck.count('starts-with-deps', sum(1 for e in res.trace if e[0] == 'EStart' and X.task_deps_spec(sc['program']['tasks'][e[2] - 1])))
            # how often a dependent was examined while its dependency was locked / unfinished
            held = {}
            for e in res.trace:
                if e[0] == 'ELock' and e[3]:
                    held[e[2]] = e[1]
                elif e[0] == 'EUnlock':
                    held.pop(e[2], None)
                elif e[0] == 'ECanLoad' and not e[3] and e[2] in held and held[e[2]] != e[1]:
                    ck.count('dependency-seen-missing-while-locked-by-another')
            if len(ck.samples) < 3 and len(res.trace) > 30:
                ck.sample({'program': sc['program'], 'backend': sc['backend'], 'events': [X.ev_show(e) for e in res.trace[:30]]})
    X.require_coverage(ck, [X.WAIT_KEY, X.DUMP_KEY], 'lock-step runs')
    b.flush()


def replay(obj):
    return X.replay_scenario(obj, ORACLES)
