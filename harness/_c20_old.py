"""C20 - every command resolves options and the store location the same way.

Proof: Props/C20.v (Model/Options.v, Gen/OptionTable.v regenerated from /repo by translate_c20.py).
Tie: the real jug.options.parse(args, optionsfile=StringIO(cfg)) is run for every subcommand on
generated (options on the command line, configuration file, positional words, date) inputs; every
resolved attribute, the expanded jugdir, sys.argv and the error class are compared with
Model.Options.run on the generated table inside coqc.  backends.select is compared with
Model.Options.backend_of.
Search (independent of Coq): a plain Python restatement of the property
    value = command line ?? coerce(type of default, configuration file) ?? default
is compared with parse(), (a) systematically for every option x every combination of layers and
(b) on the random cases; the store location is compared across all subcommands."""
import collections
import contextlib
import datetime as _dt
import io
import logging
import re
import sys
import traceback

from . import core
from . import jugrun
from . import translate_c20 as TR
from .core import listlit

import jug.options as O                       # noqa: E402  (jugrun put /repo first on sys.path)
import jug.backends.select                    # noqa: E402,F401
from jug.subcommands import cmdapi            # noqa: E402

SEL = sys.modules['jug.backends.select']      # (jug.backends.select the attribute is the function)

EVIDENCE = dict(
    level='proof',
    rule='case = (subcommand, options on the command line in order, positional words, configuration file entries, date); '
         'observed = error class or (every option attribute, expanded jugdir, sys.argv).  A case is non-trivial when the '
         'command line or the configuration file sets at least one option; distinct = distinct case tuples.  '
         'systematic = every option x {absent, present} on the command line x {absent, present(values)} in the configuration file.',
    explanation='Coq theorems over the option-table model (general in the table; side conditions decided for the table '
                'generated from the source) + differential evaluation of the model against jug.options.parse and '
                'backends.select + direct search with a Python restatement of the precedence rule',
)

MISSING = object()
RESERVED = {'next', '_autoinit', 'update', 'copy'}     # attributes of Options objects, not options
FALSE_STRINGS = ('', '0', 'false', 'off')              # the documented/tested meaning (test_options.test_bool)


# ----------------------------------------------------------------------------- Gallina literals
def cs(s):
    if not all(32 <= ord(ch) <= 126 for ch in s):
        raise ValueError('non printable-ASCII string in a case: %r' % (s,))
    return '"%s"' % s.replace('"', '""')


def cval(v):
    if v is MISSING:
        return 'None'
    if v is None:
        return '(Some VNone)'
    if isinstance(v, bool):
        return '(Some (VBool %s))' % ('true' if v else 'false')
    if isinstance(v, int):
        return '(Some (VInt (%d)%%Z))' % v
    if isinstance(v, str):
        return '(Some (VStr %s))' % cs(v)
    if isinstance(v, list) and all(isinstance(x, str) for x in v):
        return '(Some (VList %s))' % listlit([cs(x) for x in v])
    return '(Some (VOther %s))' % cs(getattr(v, '__name__', type(v).__name__))


def jval(v):
    """JSON-able, canonical rendering of an observed / expected value."""
    if v is MISSING:
        return '<no such attribute>'
    if v is None or isinstance(v, (bool, int, str)):
        return v
    if isinstance(v, list):
        return [jval(x) for x in v]
    return '<%s>' % getattr(v, '__name__', type(v).__name__)


# ----------------------------------------------------------------------------- running the real code
class _FakeDatetime:
    def __init__(self, date):
        self._d = _dt.datetime.strptime(date, '%Y-%m-%d')

    def now(self):
        return self._d


def _options_frame(exc):
    """Name of the innermost function of jug/options.py on the traceback."""
    name = None
    for fr in traceback.extract_tb(exc.__traceback__):
        if fr.filename.replace('\\', '/').endswith('jug/options.py'):
            name = fr.name
    return name


def run_real(args, cfg_text, date, keys):
    """-> ('arg-error',) | ('coerce-error',) | ('format-error',) | ('ok', {key: value}, argv)"""
    root = logging.getLogger()
    saved = (sys.argv[:], root.level, O.datetime)
    O.datetime = _FakeDatetime(date)
    try:
        try:
            with jugrun.quiet():
                opts = O.parse(list(args), io.StringIO(cfg_text))
        except SystemExit:
            return ('arg-error',)
        except (ValueError, TypeError, KeyError) as e:
            where = _options_frame(e)
            if where == 'read_configuration_file':
                return ('coerce-error',)
            if where == 'parse':
                return ('format-error',)
            raise
        attrs = {k: getattr(opts, k, MISSING) for k in keys}
        return ('ok', attrs, list(sys.argv))
    finally:
        sys.argv[:] = saved[0]
        root.level = saved[1]
        O.datetime = saved[2]


def live_defaults(keys):
    return {k: getattr(O.default_options, k, MISSING) for k in keys}


# ----------------------------------------------------------------------------- the case
Case = collections.namedtuple('Case', 'sub opts pos layout cfg date')
# opts: list of (flag, raw) in command-line order; pos: positional words; layout: how they are arranged;
# cfg: list of (section, key, value) in file order


def render_opt(rng, e, flag, raw):
    if e is not None and e['action'] != 'store':
        return [flag]
    if e is None and raw is None:
        return [flag]
    if raw.startswith('-') or rng.random() < 0.4:
        return ['%s=%s' % (flag, raw)]
    return [flag, raw]


def render_cfg(cfg):
    secs = collections.OrderedDict()
    for s, k, v in cfg:
        secs.setdefault(s, []).append((k, v))
    out = []
    for s, items in secs.items():
        out.append('[%s]' % s)
        for k, v in items:
            out.append('%s=%s' % (k, v))
    return '\n'.join(out) + '\n'


def cfg_in_file_order(cfg):
    """The entries in the order configparser yields them (sections grouped, first occurrence order)."""
    secs = collections.OrderedDict()
    for s, k, v in cfg:
        secs.setdefault(s, []).append((s, k, v))
    return [x for items in secs.values() for x in items]


def case_lit(case, outcome_lit):
    return ('({| c_sub := %s; c_opts := %s; c_pos := %s |}, %s, %s, %s)'
            % (cs(case.sub), listlit(['(%s, %s)' % (cs(f), cs(r or '')) for f, r in case.opts]),
               listlit([cs(p) for p in case.pos]),
               listlit(['(%s, %s, %s)' % (cs(s), cs(k), cs(v)) for s, k, v in case.cfg]), cs(case.date), outcome_lit))


def outcome_lit(obs, keys):
    if obs[0] == 'arg-error':
        return 'OArgError'
    if obs[0] == 'coerce-error':
        return 'OCoerceError'
    if obs[0] == 'format-error':
        return 'OFormatError'
    return '(OOk %s %s)' % (listlit([cval(obs[1][k]) for k in keys]), listlit([cs(a) for a in obs[2]]))


# ----------------------------------------------------------------------------- the property, restated in Python
def py_new_name(section, key):
    if section == 'main':
        return key.replace('-', '_')
    return section.replace('-', '_') + '_' + key.replace('-', '_')


class Unconvertible(Exception):
    pass


def py_coerce(default, s):
    """The configuration string converted to the type of the default (specification)."""
    if default is MISSING or default is None:
        return s
    if isinstance(default, bool):
        return s.lower() not in FALSE_STRINGS
    if isinstance(default, int):
        try:
            return int(s)
        except ValueError:
            raise Unconvertible()
    if isinstance(default, str):
        return s
    raise Unconvertible()


TEMPLATE_TOKEN = re.compile(r'%%|%\(jugfile\)s|%\(date\)s|%|[^%]+')


def py_expand(template, stem, date):
    out = []
    for m in TEMPLATE_TOKEN.finditer(template):
        t = m.group(0)
        if t == '%%':
            out.append('%')
        elif t == '%(jugfile)s':
            out.append(stem)
        elif t == '%(date)s':
            out.append(date)
        elif t == '%':
            return None
        else:
            out.append(t)
    return ''.join(out)


def expected(case, tab, defaults, keys):
    """-> ('arg-error',) | ('coerce-error',) | ('format-error',) | ('ok', {key: value}, argv, {key: layer it came from})"""
    if case.sub not in tab['subcommands']:
        return ('arg-error',)
    entries = [e for e in tab['specific'] if e['sub'] == case.sub] + tab['common']
    byflag = {}
    for e in entries:
        for f in e['flags']:
            byflag.setdefault(f, e)
    given = {}
    seen = []
    for flag, raw in case.opts:
        e = byflag.get(flag)
        if e is None:
            return ('arg-error',)
        for e2 in seen:
            if e['mutex'] is not None and e2['mutex'] == e['mutex'] and e2 is not e:
                return ('arg-error',)
        seen.append(e)
        if e['action'] == 'store':
            if e['type'] == 'int':
                try:
                    given[e['dest']] = int(raw)
                except ValueError:
                    return ('arg-error',)
            else:
                given[e['dest']] = raw
        elif e['action'] == 'store_const':
            c = e['const']
            given[e['dest']] = None if c[0] == 'none' else c[1]
        elif e['action'] == 'store_true':
            given[e['dest']] = True
        elif e['action'] == 'store_false':
            given[e['dest']] = False
    for e in entries:
        if e['required'] and not any(e2 is e for e2 in seen):
            return ('arg-error',)
    if case.pos:
        given['jugfile'] = case.pos[0]
    extra = list(case.pos[1:])
    given[tab['subdest']] = case.sub
    cfgmap = {}
    for s, k, v in cfg_in_file_order(case.cfg):
        name = py_new_name(s, k)
        try:
            py_coerce(defaults.get(name, MISSING), v)
        except Unconvertible:
            return ('coerce-error',)
        cfgmap[name] = v
    exp, src = {}, {}
    for k in set(keys) | {'jugdir', 'jugfile'}:
        if k == 'user_args':                      # the positional remainder, not an option
            exp[k], src[k] = extra, 'command line'
        elif k in given:
            exp[k], src[k] = given[k], 'command line'
        elif k in cfgmap:
            exp[k], src[k] = py_coerce(defaults.get(k, MISSING), cfgmap[k]), 'configuration file'
        else:
            exp[k], src[k] = defaults.get(k, MISSING), 'default'
    if not isinstance(exp['jugdir'], str) or not isinstance(exp['jugfile'], str):
        return ('format-error',)
    jugfile = exp['jugfile']
    d = py_expand(exp['jugdir'], jugfile[:-3], case.date)
    if d is None:
        return ('format-error',)
    exp['jugdir'] = d
    return ('ok', {k: exp[k] for k in keys}, [jugfile] + extra, src,
            {'command line': {k: jval(v) for k, v in given.items()}, 'configuration file': cfgmap})


def same(a, b):
    return type(a) is type(b) and a == b if (a is not MISSING and b is not MISSING) else (a is b)


def compare(ck, case, args, obs, exp, keys, defaults, family):
    """Direct oracle.  Reports at most one violation per case; returns True when they agree."""
    def report(what, option, e, o, layers=None):
        ck.violation({'kind': 'impl-violation', 'what': what, 'family': family, 'option': option,
                      'args': args, 'config_text': render_cfg(case.cfg), 'date': case.date,
                      'layers': layers, 'expected': jval(e), 'observed': jval(o),
                      'how_to_run': 'bin/check C20 --replay <this file>'})
        return False
    if obs[0] != exp[0]:
        return report('outcome class differs: expected %s, observed %s' % (exp[0], obs[0]), None, exp[0], obs[0])
    if obs[0] != 'ok':
        return True
    for k in keys:
        e, o = exp[1][k], obs[1][k]
        if not same(e, o):
            lay = {'command line': exp[4]['command line'].get(k, '<absent>'),
                   'configuration file': exp[4]['configuration file'].get(k, '<absent>'),
                   'default': jval(defaults.get(k, MISSING)), 'expected value comes from': exp[3].get(k)}
            cfg_s = exp[4]['configuration file'].get(k)
            if k == 'jugdir':
                what = 'expanded jugdir differs'
            elif exp[3].get(k) == 'configuration file' and isinstance(e, bool) and o is bool(cfg_s):
                what = 'configuration boolean converted as bool(str), not as _str_to_bool'
            elif exp[3].get(k) == 'configuration file' and same(o, defaults.get(k, MISSING)):
                what = 'configuration file ignored although the option is absent from the command line'
            else:
                what = 'option value is not command line ?? coerce(configuration file) ?? default'
            return report(what, k, e, o, lay)
    if obs[2] != exp[2]:
        return report('sys.argv is not [jugfile] + extra arguments', 'sys.argv', exp[2], obs[2])
    return True


# ----------------------------------------------------------------------------- generators
INT_OK = ['0', '1', '7', '23', '150', ' 42 ', '+5', '-3', '1_000', '007']
INT_BAD = ['abc', '', '1.5', '1__0', '_1', '0x10', '--3', '5-']
CFG_INT_OK = ['0', '5', '23', '+7', '-2', '1_000', '007']
CFG_INT_BAD = ['abc', '', '1.5', 'off']
BOOL_STRINGS = ['off', '0', 'False', 'false', 'FALSE', 'Off', 'oFf', '', 'true', 'True', 'yes', 'on', '1', 'no', '2', 'ON']
GENERIC = ['x', '', 'a b', 'Task.name', 'off', '0', "it's", 'q"uote', '%(date)s', 'caf=e', 'info', '8081', '-lead']
JUGFILES = ['jugfile.py', 'proj.py', 'a.py', 'x', 'ab', 'abc', 'dir/jf.py', 'my jug.py', 'p.PY', 'j%s.py', 'q"f.py', 'primes.py']
EXTRA_PLAIN = ['a', 'b c', '1', 'k=v', 'out.txt', '']
EXTRA_ANY = EXTRA_PLAIN + ['--x', '-v', '--pdb', '--jugdir=zz', '-']
TPL_PIECES = ['jd', 'data/', '%(jugfile)s', '%(date)s', '%%', '.jugdata', 'x-', '(', ')s']
TPL_HEADS = ['redis://h:1/', 'redis:', 'dict_store', 'dict_store:', 'file_keepalive:', 'dict_stor', 'Redis:']
TPL_BAD_TAILS = ['%(nope)s', 'a%', '%(jugfile', '%(jugfile)d', '%(date)z', '%(jugfile)', '%(Date)s']
DATES = ['2026-09-27', '2024-02-29', '1999-12-31']
UNKNOWN_NAMES = ['unknown_key', 'weird_sec_some_key', 'jugdirx']


def gen_template(rng):
    parts = []
    if rng.random() < 0.3:
        parts.append(rng.choice(TPL_HEADS))
    for _ in range(rng.choice([0, 1, 1, 2, 3])):
        parts.append(rng.choice(TPL_PIECES))
    if rng.random() < 0.07:
        parts.append(rng.choice(TPL_BAD_TAILS))
    return ''.join(parts)


def cmd_value(rng, e):
    if e['type'] == 'int':
        return rng.choice(INT_BAD) if rng.random() < 0.04 else rng.choice(INT_OK)
    if e['dest'] == 'jugdir':
        return gen_template(rng)
    if e['dest'] == 'verbose':
        return rng.choice(['info', 'debug', 'INFO', 'quiet', 'x', ''])
    return rng.choice(GENERIC)


def cfg_value(rng, name, default):
    if isinstance(default, bool):
        return rng.choice(BOOL_STRINGS)
    if isinstance(default, int):
        return rng.choice(CFG_INT_BAD) if rng.random() < 0.05 else rng.choice(CFG_INT_OK)
    if name == 'jugdir':
        return gen_template(rng)
    if name == 'jugfile':
        return rng.choice(JUGFILES)
    if name == 'verbose':
        return rng.choice(['info', 'DEBUG', 'quiet', 'zz'])
    return rng.choice([g for g in GENERIC if g == g.strip()])


def cfg_spelling(rng, name):
    """A (section, key) that read_configuration_file maps to `name`."""
    def dash(s):
        return ''.join('-' if (ch == '_' and rng.random() < 0.5) else ch for ch in s)
    cuts = [i for i, ch in enumerate(name) if ch == '_' and 0 < i < len(name) - 1]
    if cuts and rng.random() < 0.6:
        i = rng.choice(cuts)
        sec, key = name[:i], name[i + 1:]
        if sec.replace('-', '_') != 'main' and not sec.startswith('_') and sec.upper() != 'DEFAULT':
            return dash(sec) if not dash(sec).startswith('-') else sec, dash(key)
    return 'main', dash(name)


class Gen:
    def __init__(self, ck, tab, loaded):
        self.rng = ck.rng
        self.tab = tab
        self.subs = loaded
        self.optmap = {}
        for sub in tab['subcommands']:
            for e in [e for e in tab['specific'] if e['sub'] == sub] + tab['common']:
                for f in e['flags']:
                    self.optmap.setdefault((sub, f), e)
        self.all_flags = sorted({f for e in tab['specific'] + tab['common'] for f in e['flags']})
        names = [k for k, _ in tab['main_defaults']] + [k for k, _ in tab['sub_defaults']] \
            + [e['dest'] for e in tab['specific'] + tab['common']]
        self.names = sorted({n for n in names if n not in RESERVED and n == n.lower()})

    def entries(self, sub):
        return [e for e in self.tab['specific'] if e['sub'] == sub] + self.tab['common']

    def some_config(self, defaults, n=None):
        rng = self.rng
        if n is None:
            n = rng.choice([0, 0, 1, 2, 3, 5, 8])
        cfg, used = [], set()
        for _ in range(n):
            r = rng.random()
            if r < 0.06:
                name = rng.choice(UNKNOWN_NAMES)
            elif r < 0.08:
                name = 'print_out'
            else:
                name = rng.choice([x for x in self.names if x != 'print_out'])
            sec, key = cfg_spelling(rng, name)
            if (sec, key) in used or not key or key[0] in '#;[' or key != key.lower():
                continue
            used.add((sec, key))
            cfg.append((sec, key, cfg_value(rng, name, defaults.get(name, MISSING))))
        return cfg_in_file_order(cfg)

    def some_opts(self, sub):
        rng = self.rng
        optionals = [e for e in self.entries(sub) if e['flags']]
        p = rng.choice([0.0, 0.1, 0.25, 0.5, 0.9])
        chosen = []
        for e in optionals:
            if rng.random() < p or (e['required'] and rng.random() < 0.93):
                chosen.append(e)
                if rng.random() < 0.07:
                    chosen.append(e)
        if rng.random() < 0.9:          # mostly respect mutually exclusive groups
            seen, kept = {}, []
            for e in chosen:
                if e['mutex'] is not None and seen.setdefault(e['mutex'], e) is not e:
                    continue
                kept.append(e)
            chosen = kept
        rng.shuffle(chosen)
        opts = [(rng.choice(e['flags']), cmd_value(rng, e) if e['action'] == 'store' else '') for e in chosen]
        if rng.random() < 0.03:         # an option this subcommand does not have
            mine = [f for e in optionals for f in e['flags']]
            foreign = [f for f in self.all_flags + ['--no-such-option'] if not any(m.startswith(f) for m in mine)]
            if foreign:
                opts.insert(rng.randrange(len(opts) + 1), (rng.choice(foreign), ''))
        return opts

    def some_pos(self):
        rng = self.rng
        r = rng.random()
        if r < 0.3:
            return [], ('plain', None)
        jf = rng.choice(JUGFILES)
        if r < 0.65:
            extras = [rng.choice(EXTRA_PLAIN) for _ in range(rng.choice([0, 0, 1, 2, 3]))]
            return [jf] + extras, ('plain', None)
        extras = [rng.choice(EXTRA_ANY) for _ in range(rng.choice([0, 1, 2, 3]))]
        if r < 0.85:
            return [jf] + extras, ('dashdash-first', None)
        plain = [rng.choice(EXTRA_PLAIN) for _ in range(rng.choice([0, 1, 2]))]
        return [jf] + plain + extras, ('dashdash-mid', 1 + len(plain))

    def case(self, defaults):
        rng = self.rng
        sub = rng.choice(self.subs) if rng.random() > 0.01 else 'nosuch'
        opts = self.some_opts(sub) if sub != 'nosuch' else []
        pos, layout = self.some_pos()
        return Case(sub, opts, pos, layout, self.some_config(defaults), rng.choice(DATES))

    def argv(self, case):
        """Arrange the case as a command line, only in shapes whose reading is unambiguous:
             sub [opts] [pos...] [opts]            (no positional word starts with '-')
             sub [opts] -- pos...
             sub [opts] jugfile plain... -- rest..."""
        rng = self.rng
        toks = [render_opt(rng, self.optmap.get((case.sub, f)), f, r) for f, r in case.opts]
        kind, k = case.layout
        if kind == 'plain':
            cut = rng.randrange(len(toks) + 1) if case.pos else len(toks)
            if any(p.startswith('-') for p in case.pos):
                raise AssertionError('plain layout with a dash-leading positional')
            # the order of c_opts is the left-to-right order: options before the positionals first
            return [case.sub] + [t for ts in toks[:cut] for t in ts] + list(case.pos) + [t for ts in toks[cut:] for t in ts]
        flat = [t for ts in toks for t in ts]
        if kind == 'dashdash-first':
            return [case.sub] + flat + ['--'] + list(case.pos)
        if kind == 'dashdash-mid':
            return [case.sub] + flat + list(case.pos[:k]) + ['--'] + list(case.pos[k:])
        raise ValueError(kind)


# ----------------------------------------------------------------------------- backends.select
@contextlib.contextmanager
def patched_select():
    """Record which constructor backends.select picks, without creating a store."""
    class R:
        redis_store = staticmethod(lambda url: ('BRedis', url))

    class F:
        file_store = staticmethod(lambda p: ('BFile', p))
        file_keepalive_store = staticmethod(lambda p: ('BFileKeepalive', p))

    def d(*a):
        return ('BDictFile', a[0]) if a else ('BDict',)
    saved = (SEL.redis_store, SEL.file_store, SEL.dict_store)
    SEL.redis_store, SEL.file_store, SEL.dict_store = R, F, d
    try:
        yield
    finally:
        SEL.redis_store, SEL.file_store, SEL.dict_store = saved


def backend_lit(b):
    return b[0] if len(b) == 1 else '(%s %s)' % (b[0], cs(b[1]))


def py_backend(s):
    if s.startswith('redis:'):
        return ('BRedis', s)
    if s == 'dict_store':
        return ('BDict',)
    if s.startswith('dict_store:'):
        return ('BDictFile', s[len('dict_store:'):])
    if s.startswith('file_keepalive:'):
        return ('BFileKeepalive', s[len('file_keepalive:'):])
    return ('BFile', s)


# ----------------------------------------------------------------------------- the check
CHK = ('fun x => match x with (c, cfg, date, obs) => outcome_eqb (run table c cfg date obs_keys) obs end')
IMPORTS = 'From JugV Require Import Model.Options Gen.OptionTable.\nLocal Open Scope string_scope.'
CASE_TYPE = 'cmdline * config * string * outcome'


def setup(ck, lenient=False):
    tab = TR.table(lenient=lenient)
    cmdapi._commands.load_commands()
    loaded = sorted(cmdapi._commands)
    subs = [s for s in tab['subcommands'] if s in loaded]
    missing = [s for s in tab['subcommands'] if s not in loaded]
    dead = set()
    if missing:
        # e.g. an optional package is not installed: the subcommand and the defaults it registers do not exist
        # at run time.  It is skipped (recorded), and the option names only it knows are left alone.
        ck.notes.append('subcommands declared in the source that did not load here (skipped): %s' % missing)
        ck.count('skipped-subcommands', len(missing))
        for m in missing:
            dead |= set(tab['defaults_of'].get(m, []))
            dead |= {e['dest'] for e in tab['specific'] if e['sub'] == m}
    extra = [s for s in loaded if s not in tab['subcommands']]
    if extra:
        ck.notes.append('subcommands loaded from outside jug/subcommands (ignored): %s' % extra)
    g = Gen(ck, tab, subs)
    g.names = [n for n in g.names if n not in dead]
    keys = sorted(set(g.names) | {tab['subdest'], 'user_args'} | set(UNKNOWN_NAMES))
    return tab, g, keys


def run(ck):
    proved = ck.prove()
    # the model and the generated table are needed for the tie even when a proof broke
    rc, out = core.make(['Gen/OptionTable.vo'])
    coq_ok = rc == 0
    if not coq_ok:
        ck.broken.append('Gen/OptionTable.v does not compile: ' + out[-400:].replace('\n', ' | '))
    ck.trusted_base = core.DEFAULT_TRUSTED_BASE + [
        'C20: argparse itself (how a token list is split into options and positional words) is outside the model; the harness '
        'renders each structured command line only in shapes whose reading is unambiguous and the outcome is compared',
        'C20: configparser (file syntax, lower-casing of keys, strict duplicates) is outside the model',
        'C20: harness/translate_c20.py (ast extractor of the option table, fail closed)',
    ]
    ck.assumptions = ['strings are printable ASCII; %-formatting is modelled for literal text, %% and %(key)s only',
                      'argparse prefix abbreviations of option names and -h/--help are not modelled (not generated)']
    try:
        tab, g, keys = setup(ck)
    except TR.TranslateError as e:
        # the strict translation failed (already recorded by prove()): the Coq tie cannot run, but the search for a
        # concrete failing input can - with the option table extracted leniently and the harness's own restatement
        # of the precedence rule as oracle (DESIGN.md 1.4 step 4)
        coq_ok = False
        try:
            tab, g, keys = setup(ck, lenient=True)
        except TR.TranslateError as e2:
            ck.broken.append('option table cannot be extracted even leniently: %s' % e2)
            return
    defaults = live_defaults(keys)
    preamble = 'Definition obs_keys : list string := %s.' % listlit([cs(k) for k in keys])
    lits, metas = [], []

    def one(case, family, args=None):
        if args is None:
            args = g.argv(case)
        obs = run_real(args, render_cfg(case.cfg), case.date, keys)
        exp = expected(case, tab, defaults, keys)
        agree = compare(ck, case, args, obs, exp, keys, defaults, family)
        lits.append(case_lit(case, outcome_lit(obs, keys)))
        metas.append({'family': family, 'args': args, 'config_text': render_cfg(case.cfg), 'date': case.date,
                      'observed': obs[0] if obs[0] != 'ok' else {'argv': obs[2],
                                                                 'attrs': {k: jval(v) for k, v in obs[1].items()}}})
        ck.count('%s:%s' % (family, obs[0]))
        ck.distinct((case.sub, tuple(case.opts), tuple(case.pos), tuple(case.cfg), case.date, case.layout),
                    bool(case.opts or case.cfg))
        return obs, agree

    # ------------------------------------------------------------ (a) systematic: every option x every layer combination
    entries_by_dest = collections.OrderedDict()
    for e in tab['specific'] + tab['common']:
        entries_by_dest.setdefault(e['dest'], e)
    required_for = {sub: [(e['flags'][0], 'tgt') for e in g.entries(sub) if e['required'] and e['flags']] for sub in g.subs}
    for name in g.names:
        d = defaults.get(name, MISSING)
        e = entries_by_dest.get(name)
        if e is not None and e['flags']:
            sub = e['sub'] or 'execute'
        else:
            sub = 'status' if 'status' in g.subs else g.subs[0]
        if sub not in g.subs:
            continue
        if isinstance(d, bool):
            cfg_values = ['off', '0', 'False', '', 'on', 'yes']
        elif isinstance(d, int):
            cfg_values = ['23', '-2', 'abc']
        elif name == 'jugdir':
            cfg_values = ['%(date)s-%(jugfile)s', 'dict_store']
        elif name == 'print_out':
            cfg_values = ['x']
        else:
            cfg_values = ['x', '']
        if name == 'jugfile':
            cmd_variants = [([], []), ([], ['given.py'])]
        elif e is not None and e['flags']:
            raw = ('7' if e['type'] == 'int' else 'cmd') if e['action'] == 'store' else ''
            cmd_variants = [([], []), ([(e['flags'][-1], raw)], [])]
        else:
            cmd_variants = [([], [])]
        for opts, pos in cmd_variants:
            for v in [None] + cfg_values:
                base = [o for o in required_for.get(sub, []) if not any(o[0] == f for f, _ in opts)]
                cfg = []
                if v is not None:
                    sec, key = ('main', name) if ck.rng.random() < 0.5 else cfg_spelling(ck.rng, name)
                    cfg = [(sec, key, v)]
                one(Case(sub, base + opts, pos, ('plain', None), cfg, DATES[0]), 'systematic')
                ck.count('systematic-layers:cmd=%d,cfg=%d' % (bool(opts or pos), v is not None))
    # the documented example of docs/source/configuration.rst
    one(Case('status', [], [], ('plain', None), [('status', 'cache', 'off')], DATES[0]), 'systematic')

    # ------------------------------------------------------------ (b) random cases
    n_random = ck.n(1500, 30000)
    for i in range(n_random):
        case = g.case(defaults)
        obs, _ = one(case, 'random')
        if i % 211 == 0 and obs[0] == 'ok':
            ck.sample(metas[-1], limit=4)

    # ------------------------------------------------------------ (c) the same project from every subcommand
    n_loc = ck.n(30, 300)
    loc_cases = []
    for i in range(n_loc):
        cfg = g.some_config(defaults, n=ck.rng.choice([0, 1, 2, 4]))
        if ck.rng.random() < 0.5:
            cfg = cfg_in_file_order(cfg + [('main', 'jugdir', gen_template(ck.rng))]) \
                if not any(py_new_name(s, k) == 'jugdir' for s, k, _ in cfg) else cfg
        jd = [('--jugdir', gen_template(ck.rng))] if ck.rng.random() < 0.5 else []
        pos = [ck.rng.choice(JUGFILES)] if ck.rng.random() < 0.6 else []
        date = ck.rng.choice(DATES)
        seen = {}
        for sub in g.subs:
            own = [o for o in g.some_opts(sub) if g.optmap.get((sub, o[0])) is not None
                   and g.optmap[(sub, o[0])]['dest'] not in ('jugdir',) and g.optmap[(sub, o[0])]['type'] != 'int']
            own = [o for o in own if g.optmap[(sub, o[0])]['mutex'] is None]
            own += [o for o in required_for[sub] if not any(o[0] == f for f, _ in own)]
            extras = [ck.rng.choice(EXTRA_PLAIN) for _ in range(ck.rng.choice([0, 1]))] if pos else []
            case = Case(sub, own + jd, pos + extras, ('plain', None), cfg, date)
            obs, _ = one(case, 'same-project')
            with patched_select():
                loc = (obs[0],) if obs[0] != 'ok' else (obs[1]['jugdir'], SEL.select(obs[1]['jugdir']))
            seen.setdefault(loc, []).append((sub, metas[-1]['args']))
            if obs[0] == 'ok':
                loc_cases.append(loc)
        if len(seen) != 1:
            ck.violation({'kind': 'impl-violation', 'what': 'subcommands of one project address different stores',
                          'config_text': render_cfg(cfg), 'date': date,
                          'locations': [{'location': repr(k), 'commands': v[:3]} for k, v in seen.items()]})
            ck.count('same-project:DIFFERENT')
        else:
            k = next(iter(seen))
            ck.count('same-project:%s' % (k[0] if len(k) == 1 else 'one-location'))

    # ------------------------------------------------------------ evaluate the model on everything observed
    fails = ck.cases('options', IMPORTS, CASE_TYPE, CHK, lits, shard=ck.n(160, 400), preamble=preamble) if coq_ok else None
    for i in (fails or []):
        ck.violation({'kind': 'correspondence', 'what': 'Model.Options.run and jug.options.parse disagree (%s)' % metas[i]['family'],
                      'case': metas[i], 'coq_case': lits[i], 'obs_keys': keys})

    # ------------------------------------------------------------ backends.select vs backend_of
    strs = sorted(set([d for d, _ in loc_cases] + TPL_HEADS + ['', 'jugdata', 'dict_store:x.pkl', 'dict_storex', 'redis:',
                                                                 'file_keepalive:/a/b', 'redis://localhost:6379/0', 'a/redis:', 'dict_store:',
                                                                 # locations that contain a colon themselves
                                                                 'dict_store:a:b', 'dict_store:node7:scratch/x.pkl', 'dict_store::x',
                                                                 'file_keepalive:node7:scratch/jd', 'file_keepalive:2024-05-01T12:30:00.jugdata',
                                                                 'file_keepalive::', 'file_keepalive:dict_store:x', 'node7:scratch/jd']))
    sel_cases = []
    with patched_select():
        for s in strs:
            b = SEL.select(s)
            if b != py_backend(s):
                ck.violation({'kind': 'impl-violation', 'what': 'backends.select picks an unexpected backend', 'jugdir': s,
                              'expected': list(py_backend(s)), 'observed': list(b)})
            sel_cases.append('(%s, %s)' % (cs(s), backend_lit(b)))
    fails = ck.cases('select', IMPORTS, 'string * backend',
                     'fun x => backend_eqb (backend_of (fst x)) (snd x)', sel_cases) if coq_ok else None
    for i in (fails or []):
        ck.violation({'kind': 'correspondence', 'what': 'Model.Options.backend_of and backends.select disagree', 'coq_case': sel_cases[i]})

    if not proved:
        ck.notes.append('proof obligations broke; the systematic search above is the seeded search of DESIGN.md 1.4(4)')


def replay(obj):
    """Re-execute one recorded command line + configuration file against /repo."""
    if 'args' not in obj or 'config_text' not in obj:
        print('replay: nothing executable in this file:', obj.get('kind'), obj.get('no_longer_checks', ''))
        return 2
    opt = obj.get('option')
    keys = [opt] if opt and opt != 'sys.argv' else ['jugdir']
    obs = run_real(obj['args'], obj['config_text'], obj.get('date', DATES[0]), keys)
    if obs[0] != 'ok':
        got = obs[0]
    elif opt == 'sys.argv':
        got = obs[2]
    elif opt:
        got = jval(obs[1][opt])
    else:
        got = 'ok'
    print('args     ', obj['args'])
    print('config   ', repr(obj['config_text']))
    print('option   ', opt, ' layers', obj.get('layers'))
    print('observed ', repr(got))
    print('expected ', repr(obj.get('expected')))
    return 0 if got == obj.get('expected') else 1
