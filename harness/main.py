"""bin/check driver:  python -m harness.main C07 [--tier quick|thorough] [--replay FILE]"""
import argparse
import importlib
import json
import os
import sys
import traceback

from . import core


def main(argv=None):
    ap = argparse.ArgumentParser()
    ap.add_argument('prop')
    ap.add_argument('--tier', default=os.environ.get('VERIF_TIER', 'quick'), choices=['quick', 'thorough'])
    ap.add_argument('--replay', default=None)
    ap.add_argument('--seed', type=int, default=int(os.environ.get('VERIF_SEED', '20260926')))
    a = ap.parse_args(argv)
    mod = importlib.import_module('harness.%s' % a.prop.lower())
    if a.replay:
        os.environ['VERIF_REPLAY'] = '1'      # a replay never deletes replays nor rewrites evidence
        obj = json.load(open(a.replay))
        rc = mod.replay(obj)
        sys.exit(rc)
    ck = core.Check(a.prop, a.tier, a.seed)
    try:
        mod.run(ck)
    except KeyboardInterrupt:
        raise
    except BaseException:
        # a crashing check must not look like a pass - and must not exit silently either (the code under test may
        # call sys.exit() in-process): report it as a broken correspondence
        tb = traceback.format_exc()
        sys.stderr.write(tb)
        ck.broken.append('check crashed: ' + tb[-800:])
    rc = ck.finish(**getattr(mod, 'EVIDENCE', {}))
    sys.exit(rc)


if __name__ == '__main__':
    main()
