"""bin/check driver:  python -m harness.main C07 [--tier quick|thorough] [--replay FILE]"""
import argparse
import importlib
import json
import os
import sys
import time
import traceback

from . import core


def _watchdog(ck, a):
    """A check that does not terminate must not look like anything else: after a generous wall-clock limit (far above
    the slowest observed run; VERIF_WATCHDOG_S overrides) dump every thread's stack to stderr, report the check as
    broken (VIOLATION ... no-failing-input-found, naming the limit) and leave with status 1."""
    import faulthandler
    import threading
    limit = float(os.environ.get('VERIF_WATCHDOG_S', '1100' if a.tier == 'quick' else '2900'))

    def fire():
        try:
            sys.stderr.write('\n[watchdog] check %s (%s) still running after %.0f s - stacks follow\n' % (a.prop, a.tier, limit))
            faulthandler.dump_traceback(file=sys.stderr, all_threads=True)
            ck.broken.append('check did not terminate within %.0f s (watchdog); stacks were written to stderr' % limit)
            ck.finish(**getattr(importlib.import_module('harness.%s' % a.prop.lower()), 'EVIDENCE', {}))
        finally:
            sys.stdout.flush()
            sys.stderr.flush()
            os._exit(1)

    t = threading.Timer(limit, fire)
    t.daemon = True
    t.start()


def main(argv=None):
    ap = argparse.ArgumentParser()
    ap.add_argument('prop')
    ap.add_argument('--tier', default=os.environ.get('VERIF_TIER', 'quick'), choices=['quick', 'thorough'])
    ap.add_argument('--replay', default=None)
    ap.add_argument('--seed', type=int, default=int(os.environ.get('VERIF_SEED', '20260926')))
    a = ap.parse_args(argv)
    mod = importlib.import_module('harness.%s' % a.prop.lower())
    if a.replay:
        os.environ['VERIF_REPLAY'] = '1'      # a replay never deletes replays nor rewrites evidence
        obj = json.load(open(a.replay))
        if obj.get('via_hypothesis'):         # found by the tie of a hypothesis of this property's theorems
            mod = importlib.import_module('harness.%s' % obj['via_hypothesis'].lower())
        rc = mod.replay(obj)
        sys.exit(rc)
    ck = core.Check(a.prop, a.tier, a.seed)
    _watchdog(ck, a)
    try:
        mod.run(ck)
    except KeyboardInterrupt:
        raise
    except BaseException:
        # a crashing check must not look like a pass - and must not exit silently either (the code under test may
        # call sys.exit() in-process): report it as a broken correspondence
        tb = traceback.format_exc()
        sys.stderr.write(tb)
        ck.broken.append('check crashed: ' + tb[-800:])
    # the theorems of this property are about a model with HYPOTHESES that are other properties of this list
    # (e.g. C01/C02: the store is a faithful map = C06, the locks are exclusive = C04): re-run their ties, reduced
    if os.environ.get('VERIF_NO_HYPOTHESES') != '1':
        for dep, (scale, text) in getattr(mod, 'HYPOTHESES', {}).items():
            dmod = importlib.import_module('harness.%s' % dep.lower())
            sub = core.Check(dep, 'quick', a.seed, parent=ck, scale=scale)
            t0 = time.time()
            try:
                dmod.run(sub)
            except KeyboardInterrupt:
                raise
            except BaseException:
                tb = traceback.format_exc()
                sys.stderr.write(tb)
                sub.broken.append('check crashed: ' + tb[-800:])
            ck.absorb(sub, text, time.time() - t0)
    rc = ck.finish(**getattr(mod, 'EVIDENCE', {}))
    sys.exit(rc)


if __name__ == '__main__':
    main()
