"""Translator for C19 (and C04): regenerates coq/Gen/KeepaliveParams.v from /repo's AST.

Extracted CONSTANTS (fail closed: TranslateError when one cannot be found or is not a compile-time constant): the
argument of the one sleep() call in the monitor's main(), the value the counter that is decremented by one is started
and restarted with, the number subtracted from time() in file_keepalive_based_lock.is_failed, and
file_based_lock._FAILED_TIMESTAMP.  They are found by their role, not by their spelling: literals, constant arithmetic,
names of module- or class-level single-assignment constants, annotated assignments, `from m import f` or `m.f`.

STRUCTURE (loop order, comparison operators, order of the primitives of fail/release/get, the Popen call) is compared
with the shapes the model was transcribed from after normalising annotations, local names, super() spellings and logging
arguments; a difference is reported by structure_notes() as a NOTE of the check, not as a failure: the behaviour of the
real loop and lock class is compared with the model by C19's simulated-clock correspondence on every run."""
import ast

from .translate import extractor, parse, TranslateError

MONITOR = 'jug/backends/file_keepalive_monitor.py'
FILE_STORE = 'jug/backends/file_store.py'

# ---- templates: HOLE_<name> matches any constant integer expression and binds <name> ----------
T_PARENT_GONE = '''
def parent_gone_or_changed(pid):
    current_parent = getppid()
    if current_parent != pid or current_parent == 1:
        return True
    try:
        kill(pid, 0)
    except OSError:
        return True
    else:
        return False
'''

T_MAIN = '''
def main():
    lock = argv[1]
    parent = getppid()
    counter = counter_start = HOLE_rounds
    while True:
        sleep(HOLE_period)
        if parent_gone_or_changed(parent):
            break
        counter -= 1
        if counter <= 0:
            counter = counter_start
            try:
                utime(lock, None)
            except OSError:
                break
'''

T_IS_FAILED = '''
def is_failed(self):
    failed_lock = time() - HOLE_expiry
    if self.is_locked():
        try:
            t = os.stat(self.fullname)
        except OSError:
            pass
        else:
            if t.st_mtime <= failed_lock:
                return True
    return False
'''

T_FAIL = '''
def fail(self):
    try:
        os.utime(self.fullname, self._FAILED_TIMESTAMP)
    except OSError:
        return False
    else:
        return True
'''

T_FAILED_TS = '_FAILED_TIMESTAMP = (HOLE_failed_atime, HOLE_failed_mtime)'

# ---- the keep-alive lock's operations as sequences of primitives (Model/Keepalive.v: fail() = EFailStop ; EFailMark,
# release() = kill ; unlink, get() = create ; start the helper) and the start of the helper (start_monitor_launch)
T_KA_FAIL = '''
def fail(self):
    self.stop_monitor()
    return super(file_keepalive_based_lock, self).fail()
'''

T_KA_RELEASE = '''
def release(self):
    self.stop_monitor()
    return super(file_keepalive_based_lock, self).release()
'''

T_KA_GET = '''
def get(self):
    acquired = super(file_keepalive_based_lock, self).get()
    if acquired:
        self.start_monitor()
    return acquired
'''

T_START_MONITOR = '''
def start_monitor(self):
    self.monitor = Popen([sys.executable, "-m", "jug.backends.file_keepalive_monitor", self.fullname])
'''

T_STOP_MONITOR = '''
def stop_monitor(self):
    if self.monitor is None:
        return
    try:
        self.monitor.kill()
    except OSError as e:
        logging.warning('keepalive process failed to die with %s' % e)
    del self.monitor
    self.monitor = None
'''

_SKIP_FIELDS = ('ctx', 'type_comment', 'kind', 'lineno', 'col_offset', 'end_lineno', 'end_col_offset')


def const_eval(node, where, env=None):
    """Value of a constant integer expression (literals, names of single-assignment constants in `env`, + - * //,
    unary -, parentheses)."""
    if isinstance(node, ast.Constant) and type(node.value) is int:
        return node.value
    if isinstance(node, ast.Name) and env is not None and node.id in env:
        return env[node.id]
    if isinstance(node, ast.UnaryOp) and isinstance(node.op, (ast.USub, ast.UAdd)):
        v = const_eval(node.operand, where, env)
        return -v if isinstance(node.op, ast.USub) else v
    if isinstance(node, ast.BinOp) and isinstance(node.op, (ast.Add, ast.Sub, ast.Mult, ast.FloorDiv)):
        a, b = const_eval(node.left, where, env), const_eval(node.right, where, env)
        if isinstance(node.op, ast.Add):
            return a + b
        if isinstance(node.op, ast.Sub):
            return a - b
        if isinstance(node.op, ast.Mult):
            return a * b
        if b == 0:
            raise TranslateError('%s: division by zero in constant expression' % where)
        return a // b
    raise TranslateError('%s: not a constant integer expression: %s' % (where, ast.dump(node)[:120]))


def strip_docstring(body):
    if body and isinstance(body[0], ast.Expr) and isinstance(body[0].value, ast.Constant) \
            and isinstance(body[0].value.value, str):
        return body[1:]
    return body


def match(tmpl, node, binds, where, lenient_holes=False):
    """Structural equality of two ASTs up to HOLE_<name> names in the template."""
    if isinstance(tmpl, ast.Name) and tmpl.id.startswith('HOLE_'):
        if lenient_holes:
            if not isinstance(node, ast.expr):
                raise TranslateError('%s: expected an expression' % where)
            return
        name = tmpl.id[len('HOLE_'):]
        v = const_eval(node, where)
        if name in binds and binds[name] != v:
            raise TranslateError('%s: hole %s bound twice' % (where, name))
        binds[name] = v
        return
    if isinstance(tmpl, ast.AST):
        if type(tmpl) is not type(node):
            raise TranslateError('%s: expected %s, found %s at line %s' % (
                where, type(tmpl).__name__, type(node).__name__, getattr(node, 'lineno', '?')))
        for f in tmpl._fields:
            if f in _SKIP_FIELDS:
                continue
            a, b = getattr(tmpl, f, None), getattr(node, f, None)
            if f == 'body' and isinstance(tmpl, (ast.FunctionDef, ast.ClassDef, ast.Module)):
                a, b = strip_docstring(a), strip_docstring(b)
            match(a, b, binds, '%s.%s' % (where, f), lenient_holes)
        return
    if isinstance(tmpl, list):
        if not isinstance(node, list) or len(tmpl) != len(node):
            raise TranslateError('%s: expected %d items, found %s' % (
                where, len(tmpl), len(node) if isinstance(node, list) else type(node).__name__))
        for i, (a, b) in enumerate(zip(tmpl, node)):
            match(a, b, binds, '%s[%d]' % (where, i), lenient_holes)
        return
    if tmpl != node:
        raise TranslateError('%s: expected %r, found %r' % (where, tmpl, node))


def tmpl_stmt(src):
    return ast.parse(src.strip() + '\n').body[0]


def find_one(body, kind, name, where):
    found = []
    for n in body:
        if isinstance(n, kind) and getattr(n, 'name', None) == name:
            found.append(n)
    if len(found) != 1:
        raise TranslateError('%s: expected exactly one %s %s, found %d' % (where, kind.__name__, name, len(found)))
    return found[0]


def toplevel_bindings(mod):
    """name -> how it is bound at module level ('from M import N', 'import M', 'def', 'class', 'assign');
    a name bound more than once is reported as 'multiple'."""
    out = {}

    def put(k, v):
        out[k] = v if k not in out else 'multiple'
    for n in mod.body:
        if isinstance(n, ast.ImportFrom):
            for a in n.names:
                put(a.asname or a.name, 'from %s import %s' % (n.module, a.name) if n.level == 0 else 'relative')
        elif isinstance(n, ast.Import):
            for a in n.names:
                put(a.asname or a.name.split('.')[0], 'import %s' % a.name)
        elif isinstance(n, (ast.FunctionDef, ast.AsyncFunctionDef)):
            put(n.name, 'def')
        elif isinstance(n, ast.ClassDef):
            put(n.name, 'class')
        elif isinstance(n, (ast.Assign, ast.AugAssign, ast.AnnAssign)):
            for t in (n.targets if isinstance(n, ast.Assign) else [n.target]):
                for x in ast.walk(t):
                    if isinstance(x, ast.Name):
                        put(x.id, 'assign')
        elif isinstance(n, ast.Expr) or isinstance(n, ast.If):
            # docstring / `if __name__ == '__main__'`: must not bind anything
            for x in ast.walk(n):
                if isinstance(x, (ast.Assign, ast.AugAssign, ast.AnnAssign, ast.Import, ast.ImportFrom,
                                  ast.FunctionDef, ast.ClassDef, ast.Global, ast.NamedExpr, ast.Delete)):
                    raise TranslateError('module-level statement at line %d binds names conditionally' % n.lineno)
        else:
            raise TranslateError('unexpected module-level statement %s at line %d' % (type(n).__name__, n.lineno))
    return out


def require_bindings(mod, wanted, where):
    have = toplevel_bindings(mod)
    for name, how in wanted.items():
        if have.get(name) != how:
            raise TranslateError('%s: name %s should be bound by "%s", found %r' % (where, name, how, have.get(name)))


def no_rebinding(fn, names, where):
    """The function must not assign / declare global any of the given names (it would shadow the
    module-level binding the harness patches)."""
    for x in ast.walk(fn):
        if isinstance(x, (ast.Global, ast.Nonlocal)) and set(x.names) & set(names):
            raise TranslateError('%s: global/nonlocal declaration of %s' % (where, sorted(set(x.names) & set(names))))


# ------------------------------------------------------------------------------------------------
# constants: found by what they ARE in the program (the argument of sleep() in main(), the value the refresh counter
# is (re)started with, the number subtracted from time() in is_failed, _FAILED_TIMESTAMP), whatever they are called
# and wherever they are spelled out; fail closed when one cannot be found or is not a compile-time constant
def module_env(mod, where):
    """name -> int for module-level names bound exactly once (Assign / AnnAssign) to a constant integer expression over
    earlier such names; a name assigned anywhere else (global declaration in a function) is not a constant"""
    how = toplevel_bindings(mod)
    reassigned = set()
    for x in ast.walk(mod):
        if isinstance(x, (ast.Global, ast.Nonlocal)):
            reassigned.update(x.names)
    env = {}
    for n in mod.body:
        if isinstance(n, ast.Assign) and len(n.targets) == 1 and isinstance(n.targets[0], ast.Name):
            name, val = n.targets[0].id, n.value
        elif isinstance(n, ast.AnnAssign) and isinstance(n.target, ast.Name) and n.value is not None:
            name, val = n.target.id, n.value
        else:
            continue
        if how.get(name) != 'assign' or name in reassigned:
            continue
        try:
            env[name] = const_eval(val, where, env)
        except TranslateError:
            pass
    return env


def class_env(cls, menv, where):
    env = {}
    count = {}
    for n in cls.body:
        if isinstance(n, ast.Assign) and len(n.targets) == 1 and isinstance(n.targets[0], ast.Name):
            name, val = n.targets[0].id, n.value
        elif isinstance(n, ast.AnnAssign) and isinstance(n.target, ast.Name) and n.value is not None:
            name, val = n.target.id, n.value
        else:
            continue
        count[name] = count.get(name, 0) + 1
        try:
            env[name] = const_eval(val, where, dict(menv, **env))
        except TranslateError:
            env.pop(name, None)
    return {k: v for k, v in env.items() if count[k] == 1}


def is_call_to(node, module, name, how):
    """is `node` a call of <module>.<name>: the bare name bound by `from module import name` or the attribute of the
    module bound by `import module`?"""
    if not isinstance(node, ast.Call):
        return False
    f = node.func
    if isinstance(f, ast.Name):
        return f.id == name and how.get(name) == 'from %s import %s' % (module, name)
    if isinstance(f, ast.Attribute) and isinstance(f.value, ast.Name):
        return f.attr == name and how.get(f.value.id) == 'import %s' % module
    return False


def assigned_names(fn):
    out = {}
    for x in ast.walk(fn):
        if isinstance(x, ast.Assign):
            for t in x.targets:
                for y in ast.walk(t):
                    if isinstance(y, ast.Name):
                        out.setdefault(y.id, []).append(x.value)
        elif isinstance(x, (ast.AugAssign, ast.AnnAssign)) and isinstance(x.target, ast.Name):
            out.setdefault(x.target.id, []).append(x)
        elif isinstance(x, (ast.For, ast.comprehension)) :
            for y in ast.walk(x.target):
                if isinstance(y, ast.Name):
                    out.setdefault(y.id, []).append(None)
    return out


def extract_constants():
    binds = {}
    # ---- the monitor: sleep(<period>) in main(); the counter that is decremented by 1 is (re)started with <rounds>
    mon = parse(MONITOR)
    how = toplevel_bindings(mon)
    menv = module_env(mon, MONITOR)
    main = find_one(mon.body, ast.FunctionDef, 'main', MONITOR)
    where = MONITOR + ':main'
    sleeps = [x for x in ast.walk(main) if is_call_to(x, 'time', 'sleep', how)]
    if len(sleeps) != 1 or len(sleeps[0].args) != 1 or sleeps[0].keywords:
        raise TranslateError('%s: expected exactly one call sleep(<seconds>), found %d' % (where, len(sleeps)))
    asg = assigned_names(main)
    # locals of main() that are bound once to a constant expression (e.g. counter_start = 60)
    lenv = dict(menv)
    for name, vals in asg.items():
        if len(vals) == 1 and isinstance(vals[0], ast.expr):
            try:
                lenv[name] = const_eval(vals[0], where, menv)
            except TranslateError:
                pass
    for name in asg:
        if name in lenv and len(asg[name]) != 1:
            del lenv[name]
    binds['period'] = const_eval(sleeps[0].args[0], where + ': argument of sleep()', lenv)
    dec = [x for x in ast.walk(main) if isinstance(x, ast.AugAssign) and isinstance(x.op, ast.Sub) and isinstance(x.target, ast.Name)]
    if len(dec) != 1 or const_eval(dec[0].value, where, lenv) != 1:
        raise TranslateError('%s: expected exactly one statement `<counter> -= 1`, found %d' % (where, len(dec)))
    counter = dec[0].target.id
    starts = [v for v in asg.get(counter, []) if isinstance(v, ast.expr)]
    if len(starts) < 2 or len(starts) + 1 != len(asg[counter]):
        raise TranslateError('%s: the counter %s is expected to be set before the loop and reset at a refresh (found %d assignments)'
                             % (where, counter, len(starts)))
    vals = set(const_eval(v, where + ': value assigned to ' + counter, lenv) for v in starts)
    if len(vals) != 1:
        raise TranslateError('%s: the counter %s is started with different values %s' % (where, counter, sorted(vals)))
    binds['rounds'] = vals.pop()
    # ---- the lock classes: time() - <expiry> in file_keepalive_based_lock.is_failed; file_based_lock._FAILED_TIMESTAMP
    fs = parse(FILE_STORE)
    fhow = toplevel_bindings(fs)
    fenv = module_env(fs, FILE_STORE)
    base = find_one(fs.body, ast.ClassDef, 'file_based_lock', FILE_STORE)
    ka = find_one(fs.body, ast.ClassDef, 'file_keepalive_based_lock', FILE_STORE)
    if [ast.dump(b) for b in ka.bases] != [ast.dump(ast.Name(id='file_based_lock', ctx=ast.Load()))]:
        raise TranslateError(FILE_STORE + ': file_keepalive_based_lock is expected to derive from file_based_lock only')
    ts = [n for n in base.body if (isinstance(n, ast.Assign) and any(isinstance(t, ast.Name) and t.id == '_FAILED_TIMESTAMP' for t in n.targets))
          or (isinstance(n, ast.AnnAssign) and isinstance(n.target, ast.Name) and n.target.id == '_FAILED_TIMESTAMP')]
    if len(ts) != 1 or not isinstance(ts[0].value, ast.Tuple) or len(ts[0].value.elts) != 2:
        raise TranslateError(FILE_STORE + ': expected exactly one assignment _FAILED_TIMESTAMP = (<atime>, <mtime>) in file_based_lock')
    cenv = dict(fenv, **class_env(base, fenv, FILE_STORE))
    binds['failed_atime'] = const_eval(ts[0].value.elts[0], FILE_STORE + ':_FAILED_TIMESTAMP[0]', cenv)
    binds['failed_mtime'] = const_eval(ts[0].value.elts[1], FILE_STORE + ':_FAILED_TIMESTAMP[1]', cenv)
    stores = [n for n in ast.walk(fs) if isinstance(n, (ast.Name, ast.Attribute)) and isinstance(getattr(n, 'ctx', None), (ast.Store, ast.Del))
              and (getattr(n, 'id', None) == '_FAILED_TIMESTAMP' or getattr(n, 'attr', None) == '_FAILED_TIMESTAMP')]
    if len(stores) != 1:
        raise TranslateError(FILE_STORE + ': _FAILED_TIMESTAMP is bound %d times' % len(stores))
    isf = find_one(ka.body, ast.FunctionDef, 'is_failed', FILE_STORE)
    where = FILE_STORE + ':file_keepalive_based_lock.is_failed'
    kenv = dict(cenv, **class_env(ka, fenv, FILE_STORE))
    subs = [x for x in ast.walk(isf) if isinstance(x, ast.BinOp) and isinstance(x.op, ast.Sub) and is_call_to(x.left, 'time', 'time', fhow)]
    if len(subs) != 1:
        raise TranslateError('%s: expected exactly one expression time() - <expiry>, found %d' % (where, len(subs)))
    right = subs[0].right
    if isinstance(right, ast.Attribute) and isinstance(right.value, ast.Name) and right.value.id in ('self', 'file_keepalive_based_lock', 'type(self)'):
        if right.attr not in kenv:
            raise TranslateError('%s: %s.%s is not a class-level constant' % (where, right.value.id, right.attr))
        binds['expiry'] = kenv[right.attr]
    else:
        binds['expiry'] = const_eval(right, where + ': expiry', kenv)
    return binds


# ------------------------------------------------------------------------------------------------
# structure: the exact shapes the model was written from.  A difference is NOT a failure of the translation (the
# simulated-clock runs of C19 compare the behaviour of the real loop / lock class with the model on every case):
# it is reported as a note.  Normalised before matching: annotations, names of locals and parameters, super(C, self)
# vs super(), arguments of logging.<level>(...), docstrings.
class _Normalise(ast.NodeTransformer):
    def __init__(self, cls=None):
        self.cls = cls
        self.names = {}

    def local(self, name):
        return self.names.setdefault(name, '_v%d' % len(self.names))

    def visit_FunctionDef(self, node):
        node.returns = None
        node.body = strip_docstring(node.body)
        bound = set(a.arg for a in node.args.args + node.args.kwonlyargs + node.args.posonlyargs)
        for x in ast.walk(node):
            if isinstance(x, ast.Name) and isinstance(x.ctx, ast.Store):
                bound.add(x.id)
            elif isinstance(x, ast.ExceptHandler) and x.name:
                bound.add(x.name)
        self.bound = bound
        for a in node.args.args + node.args.kwonlyargs + node.args.posonlyargs:
            a.annotation = None
            a.arg = self.local(a.arg)
        self.generic_visit(node)
        return node

    def visit_Name(self, node):
        if node.id in getattr(self, 'bound', ()):
            node.id = self.local(node.id)
        return node

    def visit_ExceptHandler(self, node):
        if node.name:
            node.name = self.local(node.name)
        self.generic_visit(node)
        return node

    def visit_AnnAssign(self, node):
        self.generic_visit(node)
        if node.value is not None and node.simple:
            return ast.copy_location(ast.Assign(targets=[node.target], value=node.value), node)
        return node

    def visit_Call(self, node):
        self.generic_visit(node)
        f = node.func
        if isinstance(f, ast.Name) and f.id == 'super' and not node.args and not node.keywords and self.cls:
            node.args = [ast.Name(id=self.cls, ctx=ast.Load()), ast.Name(id=self.local('self'), ctx=ast.Load())]
        if isinstance(f, ast.Attribute) and isinstance(f.value, ast.Name) and f.value.id == 'logging':
            node.args, node.keywords = [], []
        return node


def normalised(fn, cls=None):
    import copy
    return _Normalise(cls).visit(copy.deepcopy(fn))


def structure_notes():
    """[str]: where the source is not one of the shapes the model was transcribed from (empty: all recognised)"""
    notes = []
    try:
        mon = parse(MONITOR)
        fs = parse(FILE_STORE)
        base = find_one(fs.body, ast.ClassDef, 'file_based_lock', FILE_STORE)
        ka = find_one(fs.body, ast.ClassDef, 'file_keepalive_based_lock', FILE_STORE)
    except TranslateError as e:
        return ['structure not examined: %s' % e]
    todo = [(T_PARENT_GONE, mon.body, 'parent_gone_or_changed', None, MONITOR), (T_MAIN, mon.body, 'main', None, MONITOR),
            (T_FAIL, base.body, 'fail', 'file_based_lock', FILE_STORE), (T_IS_FAILED, ka.body, 'is_failed', 'file_keepalive_based_lock', FILE_STORE)]
    todo += [(t, ka.body, n, 'file_keepalive_based_lock', FILE_STORE) for n, t in
             (('fail', T_KA_FAIL), ('release', T_KA_RELEASE), ('get', T_KA_GET), ('start_monitor', T_START_MONITOR), ('stop_monitor', T_STOP_MONITOR))]
    for tmpl, body, name, cls, rel in todo:
        where = '%s:%s%s' % (rel, cls + '.' if cls else '', name)
        try:
            fn = find_one(body, ast.FunctionDef, name, rel)
            match(normalised(tmpl_stmt(tmpl), cls), normalised(fn, cls), {}, where, lenient_holes=True)
        except TranslateError as e:
            notes.append('%s is not written in the shape the model was transcribed from (%s); its behaviour is covered by the '
                         'simulated-clock correspondence only' % (where, str(e)[-160:]))
    return notes


def extract():
    return extract_constants()


def zc(v):
    return '(%d)' % v


def render(b):
    return '''(* Constants of the keep-alive lock, extracted from
     jug/backends/file_keepalive_monitor.py   main():  sleep(%(period)d) ; counter = counter_start = %(rounds)d
     jug/backends/file_store.py               file_keepalive_based_lock.is_failed:  st_mtime <= time() - %(expiry)d
                                              file_based_lock._FAILED_TIMESTAMP = (%(failed_atime)d, %(failed_mtime)d)
   Shapes the model was transcribed from (compared leniently, see harness/translate_c19.py; behaviour is tied by C19's runs):
     loop order  sleep ; parent_gone_or_changed -> break ; counter -= 1 ; if counter <= 0: reset, utime(lock, None),
     OSError -> break ;  parent_gone_or_changed = (getppid() != pid or == 1) or kill(pid, 0) raises OSError ;
     is_failed = is_locked() and st_mtime <= time() - expiry ;  file_based_lock.fail() = os.utime(fullname, _FAILED_TIMESTAMP) ;
     file_keepalive_based_lock:  fail() = stop_monitor() ; super().fail()   release() = stop_monitor() ; super().release()
     get() = super().get(), then start_monitor() if acquired ;  stop_monitor() = monitor.kill() unless None ;
     start_monitor() = Popen([sys.executable, "-m", "jug.backends.file_keepalive_monitor", self.fullname]) (no cwd, no env). *)
From Coq Require Import ZArith.
From JugV Require Import Model.Keepalive.
Local Open Scope Z_scope.

Definition ka_period : Z := %(zperiod)s.
Definition ka_rounds : Z := %(zrounds)s.
Definition ka_expiry : Z := %(zexpiry)s.
Definition ka_failed_atime : Z := %(zfa)s.
Definition ka_failed_mtime : Z := %(zfm)s.

Definition ka_params : params :=
  {| p_period := ka_period; p_rounds := ka_rounds; p_expiry := ka_expiry; p_failed_ts := ka_failed_mtime |}.
''' % dict(b, zperiod=zc(b['period']), zrounds=zc(b['rounds']), zexpiry=zc(b['expiry']),
           zfa=zc(b['failed_atime']), zfm=zc(b['failed_mtime']))


@extractor('KeepaliveParams.v')
def keepalive_params():
    return render(extract())
