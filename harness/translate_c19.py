"""Translator for C19 (and C04): regenerates coq/Gen/KeepaliveParams.v from /repo's AST.

Extracted: the monitor's sleep period and counter_start (jug/backends/file_keepalive_monitor.py
main()), the expiry of file_keepalive_based_lock.is_failed and file_based_lock._FAILED_TIMESTAMP
(jug/backends/file_store.py).  Also matched (no constants): the keep-alive lock's fail / release / get /
start_monitor / stop_monitor, whose order of primitives and Popen call Model/Keepalive.v transcribes.

Fail closed: the functions the model transcribes are matched against AST templates in which only
the constants are holes.  A different loop order, comparison operator, exception class, argument of
utime, ... raises TranslateError (treated like a broken proof by the checks)."""
import ast

from .translate import extractor, parse, TranslateError

MONITOR = 'jug/backends/file_keepalive_monitor.py'
FILE_STORE = 'jug/backends/file_store.py'

# ---- templates: HOLE_<name> matches any constant integer expression and binds <name> ----------
T_PARENT_GONE = '''
def parent_gone_or_changed(pid):
    current_parent = getppid()
    if current_parent != pid or current_parent == 1:
        return True
    try:
        kill(pid, 0)
    except OSError:
        return True
    else:
        return False
'''

T_MAIN = '''
def main():
    lock = argv[1]
    parent = getppid()
    counter = counter_start = HOLE_rounds
    while True:
        sleep(HOLE_period)
        if parent_gone_or_changed(parent):
            break
        counter -= 1
        if counter <= 0:
            counter = counter_start
            try:
                utime(lock, None)
            except OSError:
                break
'''

T_IS_FAILED = '''
def is_failed(self):
    failed_lock = time() - HOLE_expiry
    if self.is_locked():
        try:
            t = os.stat(self.fullname)
        except OSError:
            pass
        else:
            if t.st_mtime <= failed_lock:
                return True
    return False
'''

T_FAIL = '''
def fail(self):
    try:
        os.utime(self.fullname, self._FAILED_TIMESTAMP)
    except OSError:
        return False
    else:
        return True
'''

T_FAILED_TS = '_FAILED_TIMESTAMP = (HOLE_failed_atime, HOLE_failed_mtime)'

# ---- the keep-alive lock's operations as sequences of primitives (Model/Keepalive.v: fail() = EFailStop ; EFailMark,
# release() = kill ; unlink, get() = create ; start the helper) and the start of the helper (start_monitor_launch)
T_KA_FAIL = '''
def fail(self):
    self.stop_monitor()
    return super(file_keepalive_based_lock, self).fail()
'''

T_KA_RELEASE = '''
def release(self):
    self.stop_monitor()
    return super(file_keepalive_based_lock, self).release()
'''

T_KA_GET = '''
def get(self):
    acquired = super(file_keepalive_based_lock, self).get()
    if acquired:
        self.start_monitor()
    return acquired
'''

T_START_MONITOR = '''
def start_monitor(self):
    self.monitor = Popen([sys.executable, "-m", "jug.backends.file_keepalive_monitor", self.fullname])
'''

T_STOP_MONITOR = '''
def stop_monitor(self):
    if self.monitor is None:
        return
    try:
        self.monitor.kill()
    except OSError as e:
        logging.warning('keepalive process failed to die with %s' % e)
    del self.monitor
    self.monitor = None
'''

_SKIP_FIELDS = ('ctx', 'type_comment', 'kind', 'lineno', 'col_offset', 'end_lineno', 'end_col_offset')


def const_eval(node, where):
    """Value of a constant integer expression (literals, + - * //, unary -, parentheses)."""
    if isinstance(node, ast.Constant) and type(node.value) is int:
        return node.value
    if isinstance(node, ast.UnaryOp) and isinstance(node.op, (ast.USub, ast.UAdd)):
        v = const_eval(node.operand, where)
        return -v if isinstance(node.op, ast.USub) else v
    if isinstance(node, ast.BinOp) and isinstance(node.op, (ast.Add, ast.Sub, ast.Mult, ast.FloorDiv)):
        a, b = const_eval(node.left, where), const_eval(node.right, where)
        if isinstance(node.op, ast.Add):
            return a + b
        if isinstance(node.op, ast.Sub):
            return a - b
        if isinstance(node.op, ast.Mult):
            return a * b
        if b == 0:
            raise TranslateError('%s: division by zero in constant expression' % where)
        return a // b
    raise TranslateError('%s: not a constant integer expression: %s' % (where, ast.dump(node)[:120]))


def strip_docstring(body):
    if body and isinstance(body[0], ast.Expr) and isinstance(body[0].value, ast.Constant) \
            and isinstance(body[0].value.value, str):
        return body[1:]
    return body


def match(tmpl, node, binds, where):
    """Structural equality of two ASTs up to HOLE_<name> names in the template."""
    if isinstance(tmpl, ast.Name) and tmpl.id.startswith('HOLE_'):
        name = tmpl.id[len('HOLE_'):]
        v = const_eval(node, where)
        if name in binds and binds[name] != v:
            raise TranslateError('%s: hole %s bound twice' % (where, name))
        binds[name] = v
        return
    if isinstance(tmpl, ast.AST):
        if type(tmpl) is not type(node):
            raise TranslateError('%s: expected %s, found %s at line %s' % (
                where, type(tmpl).__name__, type(node).__name__, getattr(node, 'lineno', '?')))
        for f in tmpl._fields:
            if f in _SKIP_FIELDS:
                continue
            a, b = getattr(tmpl, f, None), getattr(node, f, None)
            if f == 'body' and isinstance(tmpl, (ast.FunctionDef, ast.ClassDef, ast.Module)):
                a, b = strip_docstring(a), strip_docstring(b)
            match(a, b, binds, '%s.%s' % (where, f))
        return
    if isinstance(tmpl, list):
        if not isinstance(node, list) or len(tmpl) != len(node):
            raise TranslateError('%s: expected %d items, found %s' % (
                where, len(tmpl), len(node) if isinstance(node, list) else type(node).__name__))
        for i, (a, b) in enumerate(zip(tmpl, node)):
            match(a, b, binds, '%s[%d]' % (where, i))
        return
    if tmpl != node:
        raise TranslateError('%s: expected %r, found %r' % (where, tmpl, node))


def tmpl_stmt(src):
    return ast.parse(src.strip() + '\n').body[0]


def find_one(body, kind, name, where):
    found = []
    for n in body:
        if isinstance(n, kind) and getattr(n, 'name', None) == name:
            found.append(n)
    if len(found) != 1:
        raise TranslateError('%s: expected exactly one %s %s, found %d' % (where, kind.__name__, name, len(found)))
    return found[0]


def toplevel_bindings(mod):
    """name -> how it is bound at module level ('from M import N', 'import M', 'def', 'class', 'assign');
    a name bound more than once is reported as 'multiple'."""
    out = {}

    def put(k, v):
        out[k] = v if k not in out else 'multiple'
    for n in mod.body:
        if isinstance(n, ast.ImportFrom):
            for a in n.names:
                put(a.asname or a.name, 'from %s import %s' % (n.module, a.name) if n.level == 0 else 'relative')
        elif isinstance(n, ast.Import):
            for a in n.names:
                put(a.asname or a.name.split('.')[0], 'import %s' % a.name)
        elif isinstance(n, (ast.FunctionDef, ast.AsyncFunctionDef)):
            put(n.name, 'def')
        elif isinstance(n, ast.ClassDef):
            put(n.name, 'class')
        elif isinstance(n, (ast.Assign, ast.AugAssign, ast.AnnAssign)):
            for t in (n.targets if isinstance(n, ast.Assign) else [n.target]):
                for x in ast.walk(t):
                    if isinstance(x, ast.Name):
                        put(x.id, 'assign')
        elif isinstance(n, ast.Expr) or isinstance(n, ast.If):
            # docstring / `if __name__ == '__main__'`: must not bind anything
            for x in ast.walk(n):
                if isinstance(x, (ast.Assign, ast.AugAssign, ast.AnnAssign, ast.Import, ast.ImportFrom,
                                  ast.FunctionDef, ast.ClassDef, ast.Global, ast.NamedExpr, ast.Delete)):
                    raise TranslateError('module-level statement at line %d binds names conditionally' % n.lineno)
        else:
            raise TranslateError('unexpected module-level statement %s at line %d' % (type(n).__name__, n.lineno))
    return out


def require_bindings(mod, wanted, where):
    have = toplevel_bindings(mod)
    for name, how in wanted.items():
        if have.get(name) != how:
            raise TranslateError('%s: name %s should be bound by "%s", found %r' % (where, name, how, have.get(name)))


def no_rebinding(fn, names, where):
    """The function must not assign / declare global any of the given names (it would shadow the
    module-level binding the harness patches)."""
    for x in ast.walk(fn):
        if isinstance(x, (ast.Global, ast.Nonlocal)) and set(x.names) & set(names):
            raise TranslateError('%s: global/nonlocal declaration of %s' % (where, sorted(set(x.names) & set(names))))


def extract():
    binds = {}
    # ---- the monitor -----------------------------------------------------------------------
    mon = parse(MONITOR)
    require_bindings(mon, {'utime': 'from os import utime', 'getppid': 'from os import getppid',
                           'kill': 'from os import kill', 'sleep': 'from time import sleep',
                           'argv': 'from sys import argv', 'main': 'def', 'parent_gone_or_changed': 'def'}, MONITOR)
    match(tmpl_stmt(T_PARENT_GONE), find_one(mon.body, ast.FunctionDef, 'parent_gone_or_changed', MONITOR), binds,
          MONITOR + ':parent_gone_or_changed')
    match(tmpl_stmt(T_MAIN), find_one(mon.body, ast.FunctionDef, 'main', MONITOR), binds, MONITOR + ':main')
    # ---- the lock classes --------------------------------------------------------------------
    fs = parse(FILE_STORE)
    require_bindings(fs, {'os': 'import os', 'sys': 'import sys', 'time': 'from time import time', 'Popen': 'from subprocess import Popen',
                          'file_based_lock': 'class', 'file_keepalive_based_lock': 'class'}, FILE_STORE)
    base = find_one(fs.body, ast.ClassDef, 'file_based_lock', FILE_STORE)
    ka = find_one(fs.body, ast.ClassDef, 'file_keepalive_based_lock', FILE_STORE)
    if [ast.dump(b) for b in ka.bases] != [ast.dump(ast.Name(id='file_based_lock', ctx=ast.Load()))]:
        raise TranslateError(FILE_STORE + ': file_keepalive_based_lock is expected to derive from file_based_lock only')
    ts = [n for n in base.body if isinstance(n, ast.Assign) and any(
        isinstance(t, ast.Name) and t.id == '_FAILED_TIMESTAMP' for t in n.targets)]
    if len(ts) != 1:
        raise TranslateError(FILE_STORE + ': expected exactly one assignment of _FAILED_TIMESTAMP in file_based_lock')
    match(tmpl_stmt(T_FAILED_TS), ts[0], binds, FILE_STORE + ':file_based_lock._FAILED_TIMESTAMP')
    for n in ast.walk(ka):
        if isinstance(n, (ast.Name, ast.Attribute)) and isinstance(getattr(n, 'ctx', None), (ast.Store, ast.Del)) and \
                (getattr(n, 'id', None) == '_FAILED_TIMESTAMP' or getattr(n, 'attr', None) == '_FAILED_TIMESTAMP'):
            raise TranslateError(FILE_STORE + ': file_keepalive_based_lock rebinds _FAILED_TIMESTAMP')
    match(tmpl_stmt(T_FAIL), find_one(base.body, ast.FunctionDef, 'fail', FILE_STORE), binds, FILE_STORE + ':file_based_lock.fail')
    match(tmpl_stmt(T_IS_FAILED), find_one(ka.body, ast.FunctionDef, 'is_failed', FILE_STORE), binds,
          FILE_STORE + ':file_keepalive_based_lock.is_failed')
    for name, tmpl in (('fail', T_KA_FAIL), ('release', T_KA_RELEASE), ('get', T_KA_GET), ('start_monitor', T_START_MONITOR),
                       ('stop_monitor', T_STOP_MONITOR)):
        match(tmpl_stmt(tmpl), find_one(ka.body, ast.FunctionDef, name, FILE_STORE), binds,
              FILE_STORE + ':file_keepalive_based_lock.' + name)
    for k in ('rounds', 'period', 'expiry', 'failed_atime', 'failed_mtime'):
        if k not in binds:
            raise TranslateError('constant %s was not found' % k)
    return binds


def zc(v):
    return '(%d)' % v


def render(b):
    return '''(* Constants of the keep-alive lock, extracted from
     jug/backends/file_keepalive_monitor.py   main():  sleep(%(period)d) ; counter = counter_start = %(rounds)d
     jug/backends/file_store.py               file_keepalive_based_lock.is_failed:  st_mtime <= time() - %(expiry)d
                                              file_based_lock._FAILED_TIMESTAMP = (%(failed_atime)d, %(failed_mtime)d)
   Structure facts checked by the translator (AST templates, anything else is a translator failure):
     loop order  sleep ; parent_gone_or_changed -> break ; counter -= 1 ; if counter <= 0: reset, utime(lock, None),
     OSError -> break ;  parent_gone_or_changed = (getppid() != pid or == 1) or kill(pid, 0) raises OSError ;
     is_failed = is_locked() and st_mtime <= time() - expiry ;  file_based_lock.fail() = os.utime(fullname, _FAILED_TIMESTAMP) ;
     file_keepalive_based_lock:  fail() = stop_monitor() ; super().fail()   release() = stop_monitor() ; super().release()
     get() = super().get(), then start_monitor() if acquired ;  stop_monitor() = monitor.kill() unless None ;
     start_monitor() = Popen([sys.executable, "-m", "jug.backends.file_keepalive_monitor", self.fullname]) (no cwd, no env). *)
From Coq Require Import ZArith.
From JugV Require Import Model.Keepalive.
Local Open Scope Z_scope.

Definition ka_period : Z := %(zperiod)s.
Definition ka_rounds : Z := %(zrounds)s.
Definition ka_expiry : Z := %(zexpiry)s.
Definition ka_failed_atime : Z := %(zfa)s.
Definition ka_failed_mtime : Z := %(zfm)s.

Definition ka_params : params :=
  {| p_period := ka_period; p_rounds := ka_rounds; p_expiry := ka_expiry; p_failed_ts := ka_failed_mtime |}.
''' % dict(b, zperiod=zc(b['period']), zrounds=zc(b['rounds']), zexpiry=zc(b['expiry']),
           zfa=zc(b['failed_atime']), zfm=zc(b['failed_mtime']))


@extractor('KeepaliveParams.v')
def keepalive_params():
    return render(extract())
