"""C20 translator: regenerates coq/Gen/OptionTable.v from /repo's Python AST.

Extracted (fail closed: any AST shape not listed here raises TranslateError):
  * jug/options.py
      - add_common_options: every `<group>.add_argument(...)`
      - parse: `parser.add_argument('--version', action='version', ...)`, `add_subparsers(dest=...)`,
        `sub.required = True`, and what the `for sub in subparsers:` loop adds to every subparser
      - load_default_options: every `opt.<name> = <constant>`
      - read_configuration_file: the key naming and the coercion shape
          `value = type(old_value)(value)`                                   -> CoerceByType
          `if <old_value is a bool>: value = _str_to_bool(value) else: ...`  -> CoerceBoolHelper
      - _str_to_bool: the tuple of strings that mean False; key_to_option: '-' -> '_'
      - read_configuration_file, the file that is read when none is passed: the list of candidate paths of
          `for fp in [<'~/...' literals>]: fp = path.expanduser(fp); if path.exists(fp): <open it; on IOError no
           configuration>; break  else: <no configuration>`  followed by one `config.read_file(fp)`
        (the first existing candidate, only that one)                        -> rc_candidates
  * jug/subcommands/*.py: every SubCommand subclass (name, parse, parse_defaults)

`table()` returns the same information as Python data for the harness (generators only)."""
import ast
import os

from . import core
from .translate import extractor, parse, TranslateError

ACTIONS = {'store': 'AStore', 'store_const': 'AStoreConst', 'store_true': 'AStoreTrue',
           'store_false': 'AStoreFalse', 'version': 'AVersion'}
IGNORED_KW = {'help', 'metavar', 'version'}


# ----------------------------------------------------------------------------- small helpers
def _err(node, msg):
    raise TranslateError('%s (line %s)' % (msg, getattr(node, 'lineno', '?')))


def _check_ascii(s, node=None):
    if not all(32 <= ord(ch) <= 126 for ch in s):
        _err(node, 'string %r is not printable ASCII' % (s,))
    return s


def coq_str(s):
    _check_ascii(s)
    return '"%s"' % s.replace('"', '""')


def coq_val(v):
    """Python-side value descriptor -> Gallina optval."""
    kind = v[0]
    if kind == 'none':
        return 'VNone'
    if kind == 'bool':
        return '(VBool %s)' % ('true' if v[1] else 'false')
    if kind == 'int':
        return '(VInt (%d)%%Z)' % v[1]
    if kind == 'str':
        return '(VStr %s)' % coq_str(v[1])
    if kind == 'list':
        return '(VList [%s])' % '; '.join(coq_str(x) for x in v[1])
    if kind == 'other':
        return '(VOther %s)' % coq_str(v[1])
    raise TranslateError('bad value descriptor %r' % (v,))


def const_eval(node, env):
    """Evaluate a constant expression: literals, names bound earlier in the same function,
    + - * // on integers, unary minus, the empty list.  Returns a value descriptor."""
    if isinstance(node, ast.Constant):
        c = node.value
        if c is None:
            return ('none',)
        if isinstance(c, bool):
            return ('bool', c)
        if isinstance(c, int):
            return ('int', c)
        if isinstance(c, str):
            return ('str', _check_ascii(c, node))
        if isinstance(c, float):
            return ('other', 'float')
        _err(node, 'unsupported constant %r' % (c,))
    if isinstance(node, ast.Name):
        if node.id in env:
            return env[node.id]
        if node.id == 'print':
            return ('other', 'print')
        _err(node, 'name %r is not bound to a constant earlier in the function' % node.id)
    if isinstance(node, ast.List) and not node.elts:
        return ('list', [])
    if isinstance(node, ast.UnaryOp) and isinstance(node.op, ast.USub):
        v = const_eval(node.operand, env)
        if v[0] == 'int':
            return ('int', -v[1])
        _err(node, 'unary minus on a non-integer')
    if isinstance(node, ast.BinOp):
        a, b = const_eval(node.left, env), const_eval(node.right, env)
        if a[0] == 'int' and b[0] == 'int':
            if isinstance(node.op, ast.Add):
                return ('int', a[1] + b[1])
            if isinstance(node.op, ast.Sub):
                return ('int', a[1] - b[1])
            if isinstance(node.op, ast.Mult):
                return ('int', a[1] * b[1])
            if isinstance(node.op, ast.FloorDiv) and b[1] != 0:
                return ('int', a[1] // b[1])
        _err(node, 'unsupported arithmetic in a constant expression')
    _err(node, 'unsupported expression %s' % ast.dump(node)[:80])


def _func(tree, name):
    fs = [n for n in tree.body if isinstance(n, ast.FunctionDef) and n.name == name]
    if len(fs) != 1:
        raise TranslateError('expected exactly one top-level function %s' % name)
    return fs[0]


def _is_docstring(st):
    return isinstance(st, ast.Expr) and isinstance(st.value, ast.Constant) and isinstance(st.value.value, str)


def _method_call(node, method):
    """node is `<Name>.<method>(...)` -> the Name's id, else None."""
    if isinstance(node, ast.Call) and isinstance(node.func, ast.Attribute) and node.func.attr == method \
            and isinstance(node.func.value, ast.Name):
        return node.func.value.id
    return None


# ----------------------------------------------------------------------------- add_argument
def read_add_argument(call, sub, mutex):
    """One `x.add_argument(...)` call -> entry dict."""
    names = []
    for a in call.args:
        if not (isinstance(a, ast.Constant) and isinstance(a.value, str)):
            _err(call, 'add_argument: option strings must be string literals')
        names.append(_check_ascii(a.value, a))
    if not names:
        _err(call, 'add_argument without a name')
    flags = [n for n in names if n.startswith('-')]
    if flags and len(flags) != len(names):
        _err(call, 'add_argument mixes option strings and a positional name')
    kw = {}
    for k in call.keywords:
        if k.arg is None:
            _err(call, 'add_argument(**kwargs) is not understood')
        if k.arg in kw:
            _err(call, 'duplicate keyword')
        kw[k.arg] = k.value
    known = {'action', 'const', 'dest', 'nargs', 'default', 'type', 'required'} | IGNORED_KW
    for k in kw:
        if k not in known:
            _err(call, 'add_argument keyword %r is not understood' % k)

    def lit(key, types):
        n = kw[key]
        if not (isinstance(n, ast.Constant) and isinstance(n.value, types)):
            _err(n, 'add_argument %s= must be a literal' % key)
        return n.value

    action = lit('action', str) if 'action' in kw else 'store'
    if action not in ACTIONS:
        _err(call, 'add_argument action %r is not modelled' % action)
    const = None
    if action == 'store_const':
        if 'const' not in kw:
            _err(call, 'store_const without const=')
        const = const_eval(kw['const'], {})
        if const[0] not in ('none', 'bool', 'int', 'str'):
            _err(call, 'const= of an unsupported kind')
    elif 'const' in kw:
        _err(call, 'const= with action %r' % action)
    nargs = 'none'
    if 'nargs' in kw:
        v = lit('nargs', str)
        if v not in ('?', '*'):
            _err(call, 'nargs=%r is not modelled' % v)
        nargs = v
    if flags and nargs != 'none':
        _err(call, 'nargs on an optional argument is not modelled')
    if not flags and action != 'store':
        _err(call, 'positional argument with action %r is not modelled' % action)
    typ = 'str'
    if 'type' in kw:
        t = kw['type']
        if not (isinstance(t, ast.Name) and t.id in ('int', 'str')):
            _err(t, 'type= must be int or str')
        typ = t.id
    if typ != 'str' and (action != 'store' or nargs == '*'):
        _err(call, 'type=int is only modelled for single-valued store arguments')
    default = None
    if 'default' in kw:
        default = const_eval(kw['default'], {})
        if default[0] == 'other':
            _err(call, 'default= of an unsupported kind')
        if default[0] == 'list' and not (not flags and nargs == '*'):
            _err(call, 'list default is only modelled for a positional with nargs="*"')
    required = False
    if 'required' in kw:
        required = lit('required', bool)
        if not flags:
            _err(call, 'required= on a positional')
    if 'dest' in kw:
        dest = _check_ascii(lit('dest', str))
        if not flags:
            _err(call, 'dest= on a positional')
    elif flags:
        longs = [f for f in flags if f.startswith('--')]
        dest = (longs[0].lstrip('-') if longs else flags[0].lstrip('-')).replace('-', '_')
    else:
        if len(names) != 1:
            _err(call, 'positional with several names')
        dest = names[0]
    return {'sub': sub, 'flags': flags, 'dest': dest, 'action': action, 'const': const, 'nargs': nargs,
            'default': default, 'type': typ, 'required': required, 'mutex': mutex}


def read_parser_body(stmts, parser_name, sub, mutex_base, allow_self_defaults):
    """Statements of a function that receives an argparse parser/group `parser_name` and only
    declares arguments on it.  Returns (entries, number of mutex groups used)."""
    groups = {parser_name: None}     # variable -> mutex id (None: plain parser / argument group)
    entries = []
    nmutex = 0
    for st in stmts:
        if _is_docstring(st) or isinstance(st, ast.Pass):
            continue
        if isinstance(st, ast.Assign) and len(st.targets) == 1 and isinstance(st.targets[0], ast.Name):
            tgt = st.targets[0].id
            v = st.value
            if allow_self_defaults and isinstance(v, ast.Call) and isinstance(v.func, ast.Attribute) \
                    and v.func.attr == 'parse_defaults' and isinstance(v.func.value, ast.Name) \
                    and v.func.value.id == 'self' and not v.args and not v.keywords:
                continue                       # `defaults = self.parse_defaults()` (used in help texts only)
            owner = _method_call(v, 'add_argument_group')
            if owner in groups:
                groups[tgt] = groups[owner]
                continue
            owner = _method_call(v, 'add_mutually_exclusive_group')
            if owner in groups and groups[owner] is None and not v.args and not v.keywords:
                groups[tgt] = mutex_base + nmutex
                nmutex += 1
                continue
            _err(st, 'unrecognised assignment in an argument declaration block')
        if isinstance(st, ast.Expr):
            owner = _method_call(st.value, 'add_argument')
            if owner in groups:
                entries.append(read_add_argument(st.value, sub, groups[owner]))
                continue
        _err(st, 'unrecognised statement in an argument declaration block: %s' % ast.dump(st)[:80])
    return entries, nmutex


# ----------------------------------------------------------------------------- options.py
def read_common(tree):
    f = _func(tree, 'add_common_options')
    if [a.arg for a in f.args.args] != ['parser']:
        raise TranslateError('add_common_options signature changed')
    entries, nm = read_parser_body(f.body, 'parser', '', 0, False)
    if nm:
        raise TranslateError('mutually exclusive group among the common options is not modelled')
    return entries


def read_parse(tree):
    """options.parse: top-level arguments, subparser dest, per-subparser extras."""
    f = _func(tree, 'parse')
    top, extras, subdest, required = [], [], None, False
    loop_seen = False
    for st in f.body:
        if isinstance(st, ast.Expr) and _method_call(st.value, 'add_argument') == 'parser':
            e = read_add_argument(st.value, '', None)
            if e['action'] != 'version':
                _err(st, 'main parser argument other than --version is not modelled')
            top.append(e)
        elif isinstance(st, ast.Assign) and isinstance(st.value, ast.Call) and _method_call(st.value, 'add_subparsers') == 'parser':
            for k in st.value.keywords:
                if k.arg == 'dest':
                    if not (isinstance(k.value, ast.Constant) and isinstance(k.value.value, str)):
                        _err(st, 'add_subparsers dest must be a literal')
                    subdest = _check_ascii(k.value.value)
        elif isinstance(st, ast.Assign) and len(st.targets) == 1 and isinstance(st.targets[0], ast.Attribute) \
                and st.targets[0].attr == 'required' and isinstance(st.value, ast.Constant):
            required = st.value.value is True
        elif isinstance(st, ast.For) and isinstance(st.iter, ast.Name) and st.iter.id == 'subparsers':
            if loop_seen or not isinstance(st.target, ast.Name) or st.orelse:
                _err(st, 'unexpected subparsers loop')
            loop_seen = True
            var = st.target.id
            body = list(st.body)
            if not (body and isinstance(body[0], ast.Expr) and isinstance(body[0].value, ast.Call)
                    and isinstance(body[0].value.func, ast.Name) and body[0].value.func.id == 'add_common_options'
                    and len(body[0].value.args) == 1 and isinstance(body[0].value.args[0], ast.Name)
                    and body[0].value.args[0].id == var):
                _err(st, 'subparsers loop does not start with add_common_options(sub)')
            extras, nm = read_parser_body(body[1:], var, '', 0, False)
            if nm:
                _err(st, 'mutex group in the subparsers loop')
    if subdest is None or not required or not loop_seen:
        raise TranslateError('options.parse: add_subparsers(dest=...)/required/subparsers loop not found')
    return top, extras, subdest


def read_main_defaults(tree):
    f = _func(tree, 'load_default_options')
    if [a.arg for a in f.args.args] != ['opt']:
        raise TranslateError('load_default_options signature changed')
    out = []
    for st in f.body:
        if _is_docstring(st) or isinstance(st, (ast.Import, ast.ImportFrom)):
            continue
        if isinstance(st, ast.Assign) and len(st.targets) == 1 and isinstance(st.targets[0], ast.Attribute) \
                and isinstance(st.targets[0].value, ast.Name) and st.targets[0].value.id == 'opt':
            name = st.targets[0].attr
            if name == 'next':
                v = st.value     # opt.next = cmdapi.default_options : the chain link, not an option
                if isinstance(v, ast.Attribute) and v.attr == 'default_options' and isinstance(v.value, ast.Name) \
                        and v.value.id == 'cmdapi':
                    continue
                _err(st, 'opt.next is not cmdapi.default_options')
            out.append((_check_ascii(name), const_eval(st.value, {})))
            continue
        _err(st, 'unrecognised statement in load_default_options')
    return out


def _is_bool_test(test):
    """`type(old_value) == bool` / `type(old_value) is bool` / `isinstance(old_value, bool)`"""
    if isinstance(test, ast.Compare) and len(test.ops) == 1 and isinstance(test.ops[0], (ast.Eq, ast.Is)):
        l, r = test.left, test.comparators[0]
        return (isinstance(l, ast.Call) and isinstance(l.func, ast.Name) and l.func.id == 'type' and len(l.args) == 1
                and isinstance(l.args[0], ast.Name) and l.args[0].id == 'old_value'
                and isinstance(r, ast.Name) and r.id == 'bool')
    if isinstance(test, ast.Call) and isinstance(test.func, ast.Name) and test.func.id == 'isinstance' and len(test.args) == 2:
        a, b = test.args
        return isinstance(a, ast.Name) and a.id == 'old_value' and isinstance(b, ast.Name) and b.id == 'bool'
    return False


def _src(node):
    return ast.unparse(node)


def read_coercion(tree):
    f = _func(tree, 'read_configuration_file')
    # the `for key, value in config.items(section):` loop
    loops = [n for n in ast.walk(f) if isinstance(n, ast.For) and _src(n.iter) == 'config.items(section)']
    if len(loops) != 1 or _src(loops[0].target) != '(key, value)':
        raise TranslateError('read_configuration_file: the items loop is not recognised')
    body = [st for st in loops[0].body if not (isinstance(st, ast.Expr) and _src(st.value).startswith('logging.'))]
    if len(body) != 3:
        raise TranslateError('read_configuration_file: loop body has %d statements, expected 3' % len(body))
    naming, typing, store = body
    want_naming = ("if section == 'main':\n    new_name = key_to_option(key)\nelse:\n"
                   "    new_name = '{0}_{1}'.format(key_to_option(section), key_to_option(key))")
    if _src(naming) != want_naming:
        raise TranslateError('read_configuration_file: key naming is not the recognised shape')
    if _src(store) != 'setattr(inifile, new_name, value)':
        raise TranslateError('read_configuration_file: result is not stored with setattr(inifile, new_name, value)')
    if not (isinstance(typing, ast.If) and _src(typing.test) == 'default_options is not None' and not typing.orelse
            and len(typing.body) == 2 and _src(typing.body[0]) == 'old_value = getattr(default_options, new_name, None)'):
        raise TranslateError('read_configuration_file: default lookup is not the recognised shape')
    inner = typing.body[1]
    if not (isinstance(inner, ast.If) and _src(inner.test) == 'old_value is not None' and not inner.orelse):
        raise TranslateError('read_configuration_file: `if old_value is not None` not found')
    by_type = 'value = type(old_value)(value)'
    stmts = inner.body
    if len(stmts) == 1 and _src(stmts[0]) == by_type:
        return 'CoerceByType'
    if len(stmts) == 1 and isinstance(stmts[0], ast.If) and _is_bool_test(stmts[0].test) \
            and len(stmts[0].body) == 1 and _src(stmts[0].body[0]) == 'value = _str_to_bool(value)' \
            and len(stmts[0].orelse) == 1 and _src(stmts[0].orelse[0]) == by_type:
        return 'CoerceBoolHelper'
    raise TranslateError('read_configuration_file: coercion is neither `type(old_value)(value)` nor the '
                         '`_str_to_bool` shape: %s' % _src(inner)[:200])


READER_SHAPE = [('inifile = Options(default_options)',), None,
                ('config = configparser.RawConfigParser()', 'config = RawConfigParser()'),
                ('config.read_file(fp)',), ('fp.close()',), None, ('return inifile',)]
OS_PATH = ('path', 'os.path')          # `from os import path` / `import os`


def _candidate_paths(strings, node=None):
    out = []
    for c in strings:
        _check_ascii(c, node)
        if not c.startswith('~/') or c.endswith('/') or '//' in c or '/../' in c + '/' or '/./' in c + '/':
            _err(node, 'candidate configuration file %r is not a plain path under the home directory' % (c,))
        out.append(c)
    if not out or len(set(out)) != len(out):
        _err(node, 'the list of candidate configuration files is empty or has duplicates')
    return out


def _is_import(st):
    return isinstance(st, (ast.Import, ast.ImportFrom))


def _os_path_call(node, fn, arg):
    """node is `path.<fn>(<arg>)` or `os.path.<fn>(<arg>)`"""
    return (isinstance(node, ast.Call) and not node.keywords and len(node.args) == 1
            and isinstance(node.args[0], ast.Name) and node.args[0].id == arg
            and isinstance(node.func, ast.Attribute) and node.func.attr == fn and _src(node.func.value) in OS_PATH)


def read_discovery(tree):
    """The candidate paths, in priority order, of which read_configuration_file reads the FIRST existing one
    (and nothing else):

        if fp is None:
            for a in [<'~/...' literals>]:
                b = path.expanduser(a)              # or os.path.expanduser; b may be a again
                if path.exists(b):
                    try:
                        fp = open(b)
                    except IOError:                 # or OSError: no configuration at all
                        return inifile
                    break
            else:
                return inifile
        ... config.read_file(fp) ...                # one file is read

    Any other shape of the function (e.g. one that reads several files) is not understood."""
    f = _func(tree, 'read_configuration_file')
    if [a.arg for a in f.args.args] != ['fp', 'default_options'] or f.args.vararg or f.args.kwarg or f.args.kwonlyargs:
        raise TranslateError('read_configuration_file signature changed')
    body = [st for st in f.body if not _is_docstring(st) and not _is_import(st)]
    if len(body) != len(READER_SHAPE):
        raise TranslateError('read_configuration_file: %d top-level statements, expected %d' % (len(body), len(READER_SHAPE)))
    for st, want in zip(body, READER_SHAPE):
        if want is not None and _src(st) not in want:
            _err(st, 'read_configuration_file: statement %r where %r is expected' % (_src(st)[:60], want[0]))
    disc, loop = body[1], body[5]
    if not (isinstance(loop, ast.For) and _src(loop.target) == 'section' and _src(loop.iter) == 'config.sections()'
            and not loop.orelse and len(loop.body) == 1 and isinstance(loop.body[0], ast.For)):
        _err(loop, 'read_configuration_file: the loop over config.sections() is not recognised')

    def bad(node, why):
        _err(node, 'read_configuration_file: the search for the configuration file is not "open the first candidate that '
                   'exists, read only that one" (%s)' % why)
    if not (isinstance(disc, ast.If) and _src(disc.test) == 'fp is None' and not disc.orelse):
        bad(disc, '`if fp is None:` not found')
    inner = [st for st in disc.body if not _is_import(st)]
    if not (len(inner) == 1 and isinstance(inner[0], ast.For)):
        bad(disc, 'one for loop expected')
    loop = inner[0]
    if not (isinstance(loop.target, ast.Name) and isinstance(loop.iter, (ast.List, ast.Tuple))
            and all(isinstance(e, ast.Constant) and isinstance(e.value, str) for e in loop.iter.elts)):
        bad(loop, 'the loop is not over a literal list of paths')
    a = loop.target.id
    if not (len(loop.orelse) == 1 and _src(loop.orelse[0]) == 'return inifile'):
        bad(loop, 'no candidate exists: `return inifile` expected in the else branch')
    if len(loop.body) != 2:
        bad(loop, 'loop body')
    expand, test = loop.body
    if not (isinstance(expand, ast.Assign) and len(expand.targets) == 1 and isinstance(expand.targets[0], ast.Name)
            and _os_path_call(expand.value, 'expanduser', a)):
        bad(expand, 'expanduser')
    b = expand.targets[0].id
    if not (isinstance(test, ast.If) and not test.orelse and _os_path_call(test.test, 'exists', b) and len(test.body) == 2
            and isinstance(test.body[1], ast.Break) and isinstance(test.body[0], ast.Try)):
        bad(test, 'if exists: try ... ; break')
    tr = test.body[0]
    if not (len(tr.body) == 1 and _src(tr.body[0]) == 'fp = open(%s)' % b and not tr.orelse and not tr.finalbody
            and len(tr.handlers) == 1 and tr.handlers[0].name is None and tr.handlers[0].type is not None
            and _src(tr.handlers[0].type) in ('IOError', 'OSError', '(IOError, OSError)', '(OSError, IOError)')
            and len(tr.handlers[0].body) == 1 and _src(tr.handlers[0].body[0]) == 'return inifile'):
        bad(tr, 'try: fp = open(...) except IOError: return inifile')
    return _candidate_paths([e.value for e in loop.iter.elts], loop.iter)


def read_discovery_lenient(tree):
    """Only for the failing-input search: every '~/...' string literal of read_configuration_file, in source order."""
    try:
        f = _func(tree, 'read_configuration_file')
    except TranslateError:
        return []
    found = []
    for st in f.body:
        if _is_docstring(st):
            continue
        for n in ast.walk(st):
            if isinstance(n, ast.Constant) and isinstance(n.value, str) and n.value.startswith('~/'):
                found.append((n.lineno, n.col_offset, n.value))
    out = []
    for _, _, v in sorted(found):
        try:
            _candidate_paths([v])
        except TranslateError:
            continue
        if v not in out:
            out.append(v)
    return out


def read_false_strings(tree):
    f = _func(tree, '_str_to_bool')
    body = [st for st in f.body if not _is_docstring(st)]
    if len(body) == 1 and isinstance(body[0], ast.Return):
        v = body[0].value
        if isinstance(v, ast.Compare) and len(v.ops) == 1 and isinstance(v.ops[0], ast.NotIn) \
                and _src(v.left) == 's.lower()' and isinstance(v.comparators[0], (ast.Tuple, ast.List, ast.Set)):
            out = []
            for e in v.comparators[0].elts:
                if not (isinstance(e, ast.Constant) and isinstance(e.value, str)):
                    _err(e, '_str_to_bool: non-literal in the set of false strings')
                out.append(_check_ascii(e.value))
            return out
    raise TranslateError('_str_to_bool is not `return s.lower() not in (<literals>)`')


def check_key_to_option(tree):
    f = _func(tree, 'key_to_option')
    body = [st for st in f.body if not _is_docstring(st)]
    if not (len(body) == 1 and _src(body[0]) == "return s.replace('-', '_')"):
        raise TranslateError("key_to_option is not `return s.replace('-', '_')`")


# ----------------------------------------------------------------------------- subcommands
def read_defaults_method(fn):
    """parse_defaults: simple constant assignments, then `return {literal dict}` or
    `name = {literal dict}; return name`."""
    env = {}
    dicts = {}
    for st in fn.body:
        if _is_docstring(st) or isinstance(st, ast.Pass):
            continue
        if isinstance(st, ast.Assign) and len(st.targets) == 1 and isinstance(st.targets[0], ast.Name):
            if isinstance(st.value, ast.Dict):
                dicts[st.targets[0].id] = st.value
            else:
                env[st.targets[0].id] = const_eval(st.value, env)
            continue
        if isinstance(st, ast.Return):
            d = st.value
            if isinstance(d, ast.Name) and d.id in dicts:
                d = dicts[d.id]
            if d is None or (isinstance(d, ast.Constant) and d.value is None):
                return []
            if not isinstance(d, ast.Dict):
                _err(st, 'parse_defaults does not return a dict literal')
            out = []
            for k, v in zip(d.keys, d.values):
                if not (isinstance(k, ast.Constant) and isinstance(k.value, str)):
                    _err(st, 'parse_defaults key is not a string literal')
                out.append((_check_ascii(k.value), const_eval(v, env)))
            return out
        _err(st, 'unrecognised statement in parse_defaults')
    return []


def read_subcommands():
    d = os.path.join(core.REPO, 'jug', 'subcommands')
    subs = []          # (name, module)
    entries = []
    defaults = []
    defaults_of = {}   # subcommand -> keys of its parse_defaults()
    nmutex = 0
    for fname in sorted(os.listdir(d)):
        if not fname.endswith('.py') or fname == '__init__.py':
            continue
        tree = parse(os.path.join('jug', 'subcommands', fname))
        instantiated = set()
        for st in tree.body:
            if isinstance(st, ast.Assign) and isinstance(st.value, ast.Call) and isinstance(st.value.func, ast.Name) \
                    and not st.value.args and not st.value.keywords:
                instantiated.add(st.value.func.id)
        for cls in tree.body:
            if not isinstance(cls, ast.ClassDef):
                continue
            if not any(isinstance(b, ast.Name) and b.id == 'SubCommand' for b in cls.bases):
                continue
            if cls.name not in instantiated:
                raise TranslateError('%s: SubCommand subclass %s is not instantiated at module level' % (fname, cls.name))
            name = None
            p = pd = None
            for st in cls.body:
                if isinstance(st, ast.Assign) and len(st.targets) == 1 and isinstance(st.targets[0], ast.Name) \
                        and st.targets[0].id == 'name':
                    if not (isinstance(st.value, ast.Constant) and isinstance(st.value.value, str)):
                        _err(st, 'subcommand name is not a string literal')
                    name = _check_ascii(st.value.value)
                if isinstance(st, ast.FunctionDef) and st.name == 'parse':
                    p = st
                if isinstance(st, ast.FunctionDef) and st.name == 'parse_defaults':
                    pd = st
            if not name:
                raise TranslateError('%s: %s has no literal name' % (fname, cls.name))
            if p is not None:
                if [a.arg for a in p.args.args] != ['self', 'parser']:
                    _err(p, 'parse signature is not (self, parser)')
                es, nm = read_parser_body(p.body, 'parser', name, nmutex, True)
                nmutex += nm
                entries.extend(es)
            if pd is not None:
                ds = read_defaults_method(pd)
                defaults.extend(ds)
                defaults_of[name] = [k for k, _ in ds]
            subs.append((name, fname[:-3]))
    names = [n for n, _ in subs]
    if len(set(names)) != len(names):
        raise TranslateError('two subcommands share a name')
    keys = [k for k, _ in defaults]
    if len(set(keys)) != len(keys):
        raise TranslateError('two parse_defaults() define the same key: the result would depend on load order')
    return subs, entries, defaults, defaults_of


# ----------------------------------------------------------------------------- assemble
def table(lenient=False):
    """The option table as Python data (also used by the harness to generate command lines).
    lenient=True (used only by the failing-input search of harness/c20.py after the strict translation failed):
    the shape checks of the configuration-file reader do not abort; the table of options is still extracted."""
    tree = parse(os.path.join('jug', 'options.py'))
    common = read_common(tree)
    top, extras, subdest = read_parse(tree)
    main_defaults = read_main_defaults(tree)
    if lenient:
        try:
            coerce = read_coercion(tree)
        except TranslateError:
            coerce = None
        try:
            falses = read_false_strings(tree)
        except TranslateError:
            falses = []
        try:
            check_key_to_option(tree)
        except TranslateError:
            pass
        try:
            candidates = read_discovery(tree)
        except TranslateError:
            candidates = read_discovery_lenient(tree)
    else:
        coerce = read_coercion(tree)
        falses = read_false_strings(tree)
        check_key_to_option(tree)
        candidates = read_discovery(tree)
    subs, specific, sub_defaults, defaults_of = read_subcommands()
    for e in common + extras + specific:
        if e['action'] == 'version':
            raise TranslateError('a version action on a subparser is not modelled')
    return {'subcommands': sorted(n for n, _ in subs), 'modules': dict(subs), 'subdest': subdest, 'top': top,
            'specific': specific, 'common': common + extras, 'main_defaults': main_defaults,
            'sub_defaults': sub_defaults, 'defaults_of': defaults_of, 'coerce': coerce, 'false_strings': falses,
            'rc_candidates': candidates}


def coq_entry(e):
    act = ACTIONS[e['action']]
    if e['action'] == 'store_const':
        act = '(AStoreConst %s)' % coq_val(e['const'])
    nargs = {'none': 'NOne', '?': 'NOpt', '*': 'NStar'}[e['nargs']]
    return ('{| a_sub := %s; a_flags := [%s]; a_dest := %s; a_action := %s; a_nargs := %s; '
            'a_default := %s; a_type := %s; a_required := %s; a_mutex := %s |}'
            % (coq_str(e['sub']), '; '.join(coq_str(f) for f in e['flags']), coq_str(e['dest']), act, nargs,
               'None' if e['default'] is None else '(Some %s)' % coq_val(e['default']),
               {'str': 'TStr', 'int': 'TInt'}[e['type']], 'true' if e['required'] else 'false',
               'None' if e['mutex'] is None else '(Some %d%%nat)' % e['mutex']))


def _coq_list(items, indent='    '):
    if not items:
        return '[]'
    return '[\n' + ';\n'.join(indent + i for i in items) + '\n  ]'


@extractor('OptionTable.v')
def option_table():
    t = table()
    out = ['(* option table of jug/options.py and jug/subcommands/*.py (harness/translate_c20.py) *)',
           'From Coq Require Import List ZArith Bool String.',
           'From JugV Require Import Model.Options.',
           'Import ListNotations.',
           'Local Open Scope string_scope.',
           '',
           'Definition table : option_table := {|',
           '  t_subcommands := [%s];' % '; '.join(coq_str(s) for s in t['subcommands']),
           '  t_subdest := %s;' % coq_str(t['subdest']),
           '  t_top := %s;' % _coq_list([coq_entry(e) for e in t['top']]),
           '  t_specific := %s;' % _coq_list([coq_entry(e) for e in t['specific']]),
           '  t_common := %s;' % _coq_list([coq_entry(e) for e in t['common']]),
           '  t_main_defaults := %s;' % _coq_list(['(%s, %s)' % (coq_str(k), coq_val(v)) for k, v in t['main_defaults']]),
           '  t_sub_defaults := %s;' % _coq_list(['(%s, %s)' % (coq_str(k), coq_val(v)) for k, v in t['sub_defaults']]),
           '  t_coerce := %s;' % t['coerce'],
           '  t_false_strings := [%s]' % '; '.join(coq_str(s) for s in t['false_strings']),
           '|}.', '',
           '(* read_configuration_file(None): the first of these that exists is read, only that one *)',
           'Definition rc_candidates : list string := [%s].' % '; '.join(coq_str(s) for s in t['rc_candidates']), '']
    return '\n'.join(out)
