"""C20 translator: regenerates coq/Gen/OptionTable.v from /repo's Python AST.

Two kinds of information are read from the source.

DATA (the option table) - extracted, fail closed (TranslateError when a construct is not understood):
  * jug/options.py
      - add_common_options: every `<group>.add_argument(...)`
      - parse: `<parser>.add_argument('--version', action='version', ...)`, `add_subparsers(dest=...)`,
        `<sub>.required = True`, and what the loop over the subparsers adds to every subparser
      - load_default_options: every `<opt>.<name> = <constant expression>`
  * jug/subcommands/*.py: every SubCommand subclass (name, parse, parse_defaults)
  What is tolerated without changing the table (behaviour-preserving rewrites must not break the translation):
      - constant expressions may use names: module-level names bound exactly once to a constant expression,
        class-level ones (`self.X`, `Class.X`), local `name = <constant expression>` assignments;
      - statements without effect on the table are skipped: docstrings, `pass`, imports, annotations,
        `logging.*(...)` calls, local assignments that do not touch a parser (e.g. a help text kept in a variable);
      - variables are matched by their BINDING (the parser is what `ArgumentParser(...)` was assigned to, the loop
        variable is whatever the `for` binds, function parameters by position), never by their name.

SHAPES (which of the modelled behaviours the code has) - recognised by pattern matching modulo renaming of local
variables (`pmatch`), with the small sub-expressions that have many spellings evaluated symbolically:
      - read_configuration_file: the key naming ('main' -> key, else section_key; any of "{0}_{1}".format / f-string /
        % / + / '_'.join that builds the same string), the coercion
          `value = type(old_value)(value)`                                   -> CoerceByType
          `if <old_value is a bool>: value = _str_to_bool(value) else: ...`  -> CoerceBoolHelper
      - _str_to_bool: the collection of strings that mean False; key_to_option: '-' -> '_'
      - the file that is read when none is passed: `for a in <'~/...' paths>: b = path.expanduser(a);
        if path.exists(b): <fp = open(b); on IOError no configuration>; break  else: <no configuration>` followed by
        ONE `config.read_file(fp)` (the first existing candidate, only that one)   -> rc_candidates
  A shape that is NOT recognised is not an error by itself: the table is then generated with the SPECIFIED shape
  (`assumed` in table(); a comment in the generated file) and the differential cases of harness/c20.py - which run
  the real code on every option, every boolean spelling, every naming, every subset of candidate files - decide
  whether the code has it.  harness/c20.py records that as a translator obligation `ok: 'lenient'`.  A recognised
  shape that differs from the specified one (e.g. CoerceByType) is still generated as it is and breaks the proofs.

`table()` returns the same information as Python data for the harness (generators only)."""
import ast
import copy
import os
import string

from . import core
from .translate import extractor, parse, TranslateError

ACTIONS = {'store': 'AStore', 'store_const': 'AStoreConst', 'store_true': 'AStoreTrue',
           'store_false': 'AStoreFalse', 'version': 'AVersion'}
IGNORED_KW = {'help', 'metavar', 'version'}
SPEC_FALSE_STRINGS = ['', '0', 'false', 'off']
SPEC_CANDIDATES = ['~/.config/jug/jugrc', '~/.config/jugrc', '~/.jug/configrc']
PARSER_METHODS = {'add_argument', 'set_defaults', 'add_argument_group', 'add_mutually_exclusive_group', 'add_parser',
                  'add_subparsers', 'register'}


# ----------------------------------------------------------------------------- small helpers
def _err(node, msg):
    raise TranslateError('%s (line %s)' % (msg, getattr(node, 'lineno', '?')))


def _check_ascii(s, node=None):
    if not all(32 <= ord(ch) <= 126 for ch in s):
        _err(node, 'string %r is not printable ASCII' % (s,))
    return s


def coq_str(s):
    _check_ascii(s)
    return '"%s"' % s.replace('"', '""')


def coq_val(v):
    """Python-side value descriptor -> Gallina optval."""
    kind = v[0]
    if kind == 'none':
        return 'VNone'
    if kind == 'bool':
        return '(VBool %s)' % ('true' if v[1] else 'false')
    if kind == 'int':
        return '(VInt (%d)%%Z)' % v[1]
    if kind == 'str':
        return '(VStr %s)' % coq_str(v[1])
    if kind == 'list':
        return '(VList [%s])' % '; '.join(coq_str(x) for x in v[1])
    if kind == 'other':
        return '(VOther %s)' % coq_str(v[1])
    raise TranslateError('bad value descriptor %r' % (v,))


def _src(node):
    return ast.unparse(node)


def _func(tree, name):
    fs = [n for n in tree.body if isinstance(n, ast.FunctionDef) and n.name == name]
    if len(fs) != 1:
        raise TranslateError('expected exactly one top-level function %s' % name)
    return fs[0]


def _params(fn, n):
    """Names of the n positional parameters of fn (nothing else allowed)."""
    a = fn.args
    if len(a.args) != n or a.vararg or a.kwarg or a.kwonlyargs or getattr(a, 'posonlyargs', []):
        _err(fn, '%s: %d plain parameters expected' % (fn.name, n))
    return [x.arg for x in a.args]


def _is_docstring(st):
    return isinstance(st, ast.Expr) and isinstance(st.value, ast.Constant)


def _is_logging_call(st):
    """`logging.<anything>(...)`"""
    return (isinstance(st, ast.Expr) and isinstance(st.value, ast.Call) and isinstance(st.value.func, ast.Attribute)
            and isinstance(st.value.func.value, ast.Name) and st.value.func.value.id == 'logging')


def _names_in(node):
    return {n.id for n in ast.walk(node) if isinstance(n, ast.Name)}


def _no_effect(st, touch=()):
    """A statement that cannot change the option table: docstring / bare constant, pass, import, bare annotation,
    a logging call (in which none of the variables `touch` is passed to or called by anything)."""
    if _is_docstring(st) or isinstance(st, (ast.Pass, ast.Import, ast.ImportFrom)):
        return True
    if isinstance(st, ast.AnnAssign) and st.value is None:
        return True
    if _is_logging_call(st):
        # reading an attribute of a parser for the message is harmless; calling anything with it is not understood
        inner = [n for n in ast.walk(st.value) if isinstance(n, ast.Call) and n is not st.value]
        if not any(_names_in(c) & set(touch) for c in inner):
            return True
    return False


def _method_call(node, method):
    """node is `<Name>.<method>(...)` -> the Name's id, else None."""
    if isinstance(node, ast.Call) and isinstance(node.func, ast.Attribute) and node.func.attr == method \
            and isinstance(node.func.value, ast.Name):
        return node.func.value.id
    return None


class _Normalise(ast.NodeTransformer):
    """`x: T = e` -> `x = e`; `x: T` -> pass.  (Annotations have no effect on what is extracted.)"""
    def visit_AnnAssign(self, node):
        self.generic_visit(node)
        if node.value is None:
            return ast.copy_location(ast.Pass(), node)
        return ast.copy_location(ast.Assign(targets=[node.target], value=node.value), node)


def parse_normalised(rel):
    return ast.fix_missing_locations(_Normalise().visit(parse(rel)))


# ----------------------------------------------------------------------------- constant expressions
def const_eval(node, env):
    """Evaluate a constant expression: literals, names/attributes bound in `env`, + - * // on integers, unary minus,
    the empty list, a tuple/list/set of string literals.  Returns a value descriptor."""
    if isinstance(node, ast.Constant):
        c = node.value
        if c is None:
            return ('none',)
        if isinstance(c, bool):
            return ('bool', c)
        if isinstance(c, int):
            return ('int', c)
        if isinstance(c, str):
            return ('str', _check_ascii(c, node))
        if isinstance(c, float):
            return ('other', 'float')
        _err(node, 'unsupported constant %r' % (c,))
    if isinstance(node, ast.Name):
        if node.id in env:
            return env[node.id]
        if node.id == 'print':
            return ('other', 'print')
        _err(node, 'name %r is not bound to a constant' % node.id)
    if isinstance(node, ast.Attribute) and isinstance(node.value, ast.Name):
        key = '%s.%s' % (node.value.id, node.attr)
        if key in env:
            return env[key]
        _err(node, '%s is not bound to a constant' % key)
    if isinstance(node, ast.List) and not node.elts:
        return ('list', [])
    if isinstance(node, (ast.Tuple, ast.List, ast.Set)):
        out = []
        for e in node.elts:
            v = const_eval(e, env)
            if v[0] != 'str':
                _err(node, 'a collection of anything but strings is not modelled')
            out.append(v[1])
        return ('strs', out)
    if isinstance(node, ast.UnaryOp) and isinstance(node.op, ast.USub):
        v = const_eval(node.operand, env)
        if v[0] == 'int':
            return ('int', -v[1])
        _err(node, 'unary minus on a non-integer')
    if isinstance(node, ast.BinOp):
        a, b = const_eval(node.left, env), const_eval(node.right, env)
        if a[0] == 'int' and b[0] == 'int':
            if isinstance(node.op, ast.Add):
                return ('int', a[1] + b[1])
            if isinstance(node.op, ast.Sub):
                return ('int', a[1] - b[1])
            if isinstance(node.op, ast.Mult):
                return ('int', a[1] * b[1])
            if isinstance(node.op, ast.FloorDiv) and b[1] != 0:
                return ('int', a[1] // b[1])
        _err(node, 'unsupported arithmetic in a constant expression')
    _err(node, 'unsupported expression %s' % ast.dump(node)[:80])


def _bound_names_of_stmt(st):
    """Names a statement binds in the scope it stands in (not descending into nested function/class bodies)."""
    out = []
    if isinstance(st, (ast.FunctionDef, ast.AsyncFunctionDef, ast.ClassDef)):
        return [st.name]
    if isinstance(st, (ast.Import, ast.ImportFrom)):
        return [(a.asname or a.name).split('.')[0] for a in st.names]

    def visit(n):
        if isinstance(n, (ast.FunctionDef, ast.AsyncFunctionDef, ast.ClassDef, ast.Lambda)):
            if not isinstance(n, ast.Lambda):
                out.append(n.name)
            return
        if isinstance(n, (ast.Import, ast.ImportFrom)):
            out.extend((a.asname or a.name).split('.')[0] for a in n.names)
            return
        if isinstance(n, ast.Name) and isinstance(n.ctx, (ast.Store, ast.Del)):
            out.append(n.id)
        if isinstance(n, ast.ExceptHandler) and n.name:
            out.append(n.name)
        for ch in ast.iter_child_nodes(n):
            visit(ch)
    visit(st)
    return out


def scope_constants(body, whole, outer_env, prefixes=('',)):
    """Names bound EXACTLY ONCE in the statement list `body` (a module or a class body), by a plain
    `name = <constant expression>`, never declared `global`/`nonlocal` anywhere in `whole`, and - for collections -
    never the object of an attribute access (`name.append(...)`).  -> {prefix + name: descriptor}"""
    counts = {}
    for st in body:
        for n in _bound_names_of_stmt(st):
            counts[n] = counts.get(n, 0) + 1
    rebound = set()
    for n in ast.walk(whole):
        if isinstance(n, (ast.Global, ast.Nonlocal)):
            rebound |= set(n.names)
    attr_objects = {n.value.id for n in ast.walk(whole) if isinstance(n, ast.Attribute) and isinstance(n.value, ast.Name)}
    env = dict(outer_env)
    own = {}
    for st in body:
        if not (isinstance(st, ast.Assign) and len(st.targets) == 1 and isinstance(st.targets[0], ast.Name)):
            continue
        name = st.targets[0].id
        if counts.get(name) != 1 or name in rebound:
            continue
        try:
            v = const_eval(st.value, env)
        except TranslateError:
            continue
        if v[0] in ('list', 'strs') and prefixes == ('',) and name in attr_objects:
            continue
        env[name] = v
        own[name] = v
    out = {}
    for name, v in own.items():
        for p in prefixes:
            out[p + name] = v
    return out


def module_env(tree):
    return scope_constants(tree.body, tree, {})


def class_env(cls, tree, menv, self_names):
    """Class-level constants as `<self>.X` / `<Class>.X`; not those an instance attribute of the same name may shadow."""
    assigned_attrs = {n.attr for n in ast.walk(cls) if isinstance(n, ast.Attribute) and isinstance(n.ctx, (ast.Store, ast.Del))}
    env = scope_constants(cls.body, tree, menv, prefixes=tuple(s + '.' for s in self_names) + (cls.name + '.',))
    return {k: v for k, v in env.items() if k.split('.', 1)[1] not in assigned_attrs}


def function_env(fn, env):
    """`env` as seen inside fn: parameters shadow outer names."""
    shadow = {a.arg for a in fn.args.args + fn.args.kwonlyargs}
    return {k: v for k, v in env.items() if '.' in k or k not in shadow}


# ----------------------------------------------------------------------------- pattern matching modulo renaming
def pmatch(p, n, b):
    """Does AST `n` match pattern AST `p`?  In the pattern
         V_x  matches a variable (a Name), the same one everywhere, different V_ for different variables;
         W_x  likewise, but several W_ may be the same variable;
         E_x  matches any expression (the same text everywhere).
    Bindings are collected in the dict b."""
    if isinstance(p, ast.Name) and p.id[:2] == 'E_':
        if not isinstance(n, ast.expr):
            return False
        if p.id in b:
            return ast.dump(b[p.id]) == ast.dump(n)
        b[p.id] = n
        return True
    if isinstance(p, ast.Name) and p.id[:2] in ('V_', 'W_'):
        if not isinstance(n, ast.Name):
            return False
        if p.id in b:
            return b[p.id] == n.id
        if p.id[:2] == 'V_' and any(v == n.id for k, v in b.items() if k[:2] in ('V_', 'W_')):
            return False
        if p.id[:2] == 'W_' and any(v == n.id for k, v in b.items() if k[:2] == 'V_'):
            return False
        b[p.id] = n.id
        return True
    if type(p) is not type(n):
        return False
    for f in p._fields:
        if f in ('kind', 'type_comment', 'ctx'):
            continue
        pv, nv = getattr(p, f, None), getattr(n, f, None)
        if isinstance(pv, list):
            if not isinstance(nv, list) or len(pv) != len(nv):
                return False
            for x, y in zip(pv, nv):
                if isinstance(x, ast.AST):
                    if not (isinstance(y, ast.AST) and pmatch(x, y, b)):
                        return False
                elif x != y:
                    return False
        elif isinstance(pv, ast.AST):
            if not (isinstance(nv, ast.AST) and pmatch(pv, nv, b)):
                return False
        elif pv != nv:
            return False
    return True


def pat(src):
    """Pattern statements from source text."""
    return ast.parse(src).body


def match_stmts(pattern_src, stmts, b):
    ps = pat(pattern_src)
    return len(ps) == len(stmts) and all(pmatch(p, s, b) for p, s in zip(ps, stmts))


class _Strip(ast.NodeTransformer):
    """Remove the statements without effect (docstrings, pass, imports, logging calls) from every block."""
    def _block(self, stmts):
        out = []
        for st in stmts:
            st = self.visit(st)
            if st is not None and not _no_effect(st):
                out.append(st)
        return out

    def generic_visit(self, node):
        for f, v in ast.iter_fields(node):
            if isinstance(v, list) and v and isinstance(v[0], ast.stmt):
                new = self._block(v)
                if not new and f == 'body':
                    new = [ast.Pass()]
                setattr(node, f, new)
            elif isinstance(v, list):
                setattr(node, f, [self.visit(x) if isinstance(x, ast.AST) else x for x in v])
            elif isinstance(v, ast.AST):
                setattr(node, f, self.visit(v))
        return node


def stripped(fn):
    fn = _Strip().visit(copy.deepcopy(fn))
    fn.body = [st for st in fn.body if not isinstance(st, ast.Pass)] or [ast.Pass()]
    return fn


def header(node):
    """A compound statement without its blocks (for matching the head only)."""
    h = copy.copy(node)
    h.body = [ast.Pass()]
    if hasattr(h, 'orelse'):
        h.orelse = []
    return h


# ----------------------------------------------------------------------------- add_argument
def read_add_argument(call, sub, mutex, env):
    """One `x.add_argument(...)` call -> entry dict."""
    names = []
    for a in call.args:
        if isinstance(a, ast.Starred):
            _err(call, 'add_argument(*args) is not understood')
        v = const_eval(a, env)
        if v[0] != 'str':
            _err(call, 'add_argument: option strings must be strings')
        names.append(v[1])
    if not names:
        _err(call, 'add_argument without a name')
    flags = [n for n in names if n.startswith('-')]
    if flags and len(flags) != len(names):
        _err(call, 'add_argument mixes option strings and a positional name')
    kw = {}
    for k in call.keywords:
        if k.arg is None:
            _err(call, 'add_argument(**kwargs) is not understood')
        if k.arg in kw:
            _err(call, 'duplicate keyword')
        kw[k.arg] = k.value
    known = {'action', 'const', 'dest', 'nargs', 'default', 'type', 'required'} | IGNORED_KW
    for k in kw:
        if k not in known:
            _err(call, 'add_argument keyword %r is not understood' % k)

    def lit(key, kind):
        v = const_eval(kw[key], env)
        if v[0] != kind:
            _err(kw[key], 'add_argument %s= must be a constant %s' % (key, kind))
        return v[1]

    action = lit('action', 'str') if 'action' in kw else 'store'
    if action not in ACTIONS:
        _err(call, 'add_argument action %r is not modelled' % action)
    const = None
    if action == 'store_const':
        if 'const' not in kw:
            _err(call, 'store_const without const=')
        const = const_eval(kw['const'], env)
        if const[0] not in ('none', 'bool', 'int', 'str'):
            _err(call, 'const= of an unsupported kind')
    elif 'const' in kw:
        _err(call, 'const= with action %r' % action)
    nargs = 'none'
    if 'nargs' in kw:
        v = lit('nargs', 'str')
        if v not in ('?', '*'):
            _err(call, 'nargs=%r is not modelled' % v)
        nargs = v
    if flags and nargs != 'none':
        _err(call, 'nargs on an optional argument is not modelled')
    if not flags and action != 'store':
        _err(call, 'positional argument with action %r is not modelled' % action)
    typ = 'str'
    if 'type' in kw:
        t = kw['type']
        if not (isinstance(t, ast.Name) and t.id in ('int', 'str') and t.id not in env):
            _err(t, 'type= must be int or str')
        typ = t.id
    if typ != 'str' and (action != 'store' or nargs == '*'):
        _err(call, 'type=int is only modelled for single-valued store arguments')
    default = None
    if 'default' in kw:
        default = const_eval(kw['default'], env)
        if default[0] in ('other', 'strs'):
            _err(call, 'default= of an unsupported kind')
        if default[0] == 'list' and not (not flags and nargs == '*'):
            _err(call, 'list default is only modelled for a positional with nargs="*"')
    required = False
    if 'required' in kw:
        required = lit('required', 'bool')
        if not flags:
            _err(call, 'required= on a positional')
    if 'dest' in kw:
        dest = _check_ascii(lit('dest', 'str'))
        if not flags:
            _err(call, 'dest= on a positional')
    elif flags:
        longs = [f for f in flags if f.startswith('--')]
        dest = (longs[0].lstrip('-') if longs else flags[0].lstrip('-')).replace('-', '_')
    else:
        if len(names) != 1:
            _err(call, 'positional with several names')
        dest = names[0]
    return {'sub': sub, 'flags': flags, 'dest': dest, 'action': action, 'const': const, 'nargs': nargs,
            'default': default, 'type': typ, 'required': required, 'mutex': mutex}


def read_parser_body(stmts, parser_name, sub, mutex_base, env):
    """Statements of a block that receives an argparse parser/group `parser_name` and only declares arguments on it.
    Returns (entries, number of mutex groups used)."""
    groups = {parser_name: None}     # variable -> mutex id (None: plain parser / argument group)
    env = dict(env)
    entries = []
    nmutex = 0
    for st in stmts:
        if _no_effect(st, touch=groups):
            continue
        call = None
        if isinstance(st, ast.Expr):
            call = st.value
        elif isinstance(st, ast.Assign) and len(st.targets) == 1 and isinstance(st.targets[0], ast.Name):
            tgt = st.targets[0].id
            v = st.value
            owner = _method_call(v, 'add_argument_group')
            if owner in groups:
                groups[tgt] = groups[owner]
                env.pop(tgt, None)
                continue
            owner = _method_call(v, 'add_mutually_exclusive_group')
            if owner in groups and groups[owner] is None and not v.args and not v.keywords:
                groups[tgt] = mutex_base + nmutex
                nmutex += 1
                env.pop(tgt, None)
                continue
            if tgt in groups:
                _err(st, 'a parser variable is rebound')
            if not (_names_in(v) & set(groups)):
                # a local value that does not touch a parser: a constant (usable below) or something only a help text can use
                try:
                    env[tgt] = const_eval(v, env)
                except TranslateError:
                    env.pop(tgt, None)
                continue
            call = v                   # `x = group.add_argument(...)`
            env.pop(tgt, None)
        if call is not None and _method_call(call, 'add_argument') in groups:
            entries.append(read_add_argument(call, sub, groups[_method_call(call, 'add_argument')], env))
            continue
        _err(st, 'unrecognised statement in an argument declaration block: %s' % _src(st)[:80])
    return entries, nmutex


# ----------------------------------------------------------------------------- options.py: data
def read_common(tree, menv):
    f = _func(tree, 'add_common_options')
    (parser,) = _params(f, 1)
    entries, nm = read_parser_body(f.body, parser, '', 0, function_env(f, menv))
    if nm:
        raise TranslateError('mutually exclusive group among the common options is not modelled')
    return entries


def read_parse(tree, menv):
    """options.parse: top-level arguments, subparser dest, per-subparser extras.  The variables are identified by
    what is assigned to them: P = ...ArgumentParser(...), S = P.add_subparsers(dest=...), S.required = True,
    L = <anything>(S), `for v in L: add_common_options(v); v.add_argument(...)`."""
    f = _func(tree, 'parse')
    env = function_env(f, menv)
    top, extras, subdest, required = [], [], None, False
    P = S = L = None
    loop_seen = False
    understood = []
    for st in f.body:
        if _no_effect(st):
            understood.append(st)
            continue
        if isinstance(st, ast.Assign) and len(st.targets) == 1 and isinstance(st.targets[0], ast.Name) \
                and isinstance(st.value, ast.Call):
            tgt, v = st.targets[0].id, st.value
            if _src(v.func) in ('argparse.ArgumentParser', 'ArgumentParser'):
                if P is not None:
                    _err(st, 'a second ArgumentParser')
                P = tgt
                understood.append(st)
                continue
            if P is not None and _method_call(v, 'add_subparsers') == P:
                if S is not None:
                    _err(st, 'a second add_subparsers')
                for k in v.keywords:
                    if k.arg == 'dest':
                        d = const_eval(k.value, env)
                        if d[0] != 'str':
                            _err(st, 'add_subparsers dest must be a constant string')
                        subdest = _check_ascii(d[1])
                    elif k.arg not in ('help', 'title', 'description', 'metavar'):
                        _err(st, 'add_subparsers keyword %r is not understood' % k.arg)
                S = tgt
                understood.append(st)
                continue
            if S is not None and L is None and len(v.args) == 1 and not v.keywords and isinstance(v.args[0], ast.Name) \
                    and v.args[0].id == S and _src(v.func).endswith('get_subcommand_parsers'):
                L = tgt
                understood.append(st)
                continue
            if P is not None and _method_call(v, 'parse_args') == P:
                understood.append(st)
                continue
        if isinstance(st, ast.Expr) and P is not None and _method_call(st.value, 'add_argument') == P:
            e = read_add_argument(st.value, '', None, env)
            if e['action'] != 'version':
                _err(st, 'main parser argument other than --version is not modelled')
            top.append(e)
            understood.append(st)
            continue
        if isinstance(st, ast.Assign) and len(st.targets) == 1 and isinstance(st.targets[0], ast.Attribute) \
                and isinstance(st.targets[0].value, ast.Name) and st.targets[0].value.id == S and S is not None \
                and st.targets[0].attr == 'required':
            r = const_eval(st.value, env)
            required = r == ('bool', True)
            understood.append(st)
            continue
        if isinstance(st, ast.For) and L is not None and isinstance(st.iter, ast.Name) and st.iter.id == L:
            if loop_seen or not isinstance(st.target, ast.Name) or st.orelse:
                _err(st, 'unexpected subparsers loop')
            loop_seen = True
            var = st.target.id
            body = [x for x in st.body if not _no_effect(x, touch=(var,))]
            if not (body and isinstance(body[0], ast.Expr) and isinstance(body[0].value, ast.Call)
                    and isinstance(body[0].value.func, ast.Name) and body[0].value.func.id == 'add_common_options'
                    and len(body[0].value.args) == 1 and not body[0].value.keywords
                    and isinstance(body[0].value.args[0], ast.Name) and body[0].value.args[0].id == var):
                _err(st, 'subparsers loop does not start with add_common_options(<loop variable>)')
            extras, nm = read_parser_body(body[1:], var, '', 0, env)
            if nm:
                _err(st, 'mutex group in the subparsers loop')
            understood.append(st)
            continue
    if subdest is None or not required or not loop_seen:
        raise TranslateError('options.parse: add_subparsers(dest=...)/required/subparsers loop not found')
    # nothing else may configure the parsers
    mine = {x for x in (P, S, L) if x}
    for st in f.body:
        if any(st is u for u in understood):
            continue
        for n in ast.walk(st):
            if isinstance(n, ast.Attribute) and isinstance(n.value, ast.Name) and n.value.id in mine and n.attr in PARSER_METHODS:
                _err(st, 'options.parse configures a parser in a way that is not understood: %s' % _src(st)[:80])
    return top, extras, subdest


def read_main_defaults(tree, menv):
    f = _func(tree, 'load_default_options')
    (opt,) = _params(f, 1)
    env = function_env(f, menv)
    out = []
    for st in f.body:
        if _no_effect(st, touch=(opt,)):
            continue
        if isinstance(st, ast.Assign) and len(st.targets) == 1 and isinstance(st.targets[0], ast.Attribute) \
                and isinstance(st.targets[0].value, ast.Name) and st.targets[0].value.id == opt:
            name = st.targets[0].attr
            if name == 'next':
                v = st.value     # opt.next = cmdapi.default_options : the chain link, not an option
                if isinstance(v, ast.Attribute) and v.attr == 'default_options' and isinstance(v.value, ast.Name) \
                        and v.value.id == 'cmdapi':
                    continue
                _err(st, 'opt.next is not cmdapi.default_options')
            v = const_eval(st.value, env)
            if v[0] == 'strs':
                _err(st, 'a collection as default is not modelled')
            out.append((_check_ascii(name), v))
            continue
        if isinstance(st, ast.Assign) and len(st.targets) == 1 and isinstance(st.targets[0], ast.Name) \
                and st.targets[0].id != opt and opt not in _names_in(st.value):
            env[st.targets[0].id] = const_eval(st.value, env)        # a local constant
            continue
        _err(st, 'unrecognised statement in load_default_options')
    return out


# ----------------------------------------------------------------------------- options.py: shapes
def sym_string(node, kfun):
    """Symbolic value of a string-building expression: a list of literal strings and ('K', variable) for
    key_to_option(variable) - through f-strings, str.format with plain fields, % with plain %s, +, '<sep>'.join([...])."""
    def lits(parts):
        out = []
        for p in parts:
            if isinstance(p, str) and out and isinstance(out[-1], str):
                out[-1] += p
            elif p != '':
                out.append(p)
        return out

    def go(n):
        if isinstance(n, ast.Constant) and isinstance(n.value, str):
            return [n.value]
        if isinstance(n, ast.Call) and isinstance(n.func, ast.Name) and n.func.id == kfun and len(n.args) == 1 \
                and not n.keywords and isinstance(n.args[0], ast.Name):
            return [('K', n.args[0].id)]
        if isinstance(n, ast.Call) and isinstance(n.func, ast.Attribute) and n.func.attr == 'replace' and not n.keywords \
                and isinstance(n.func.value, ast.Name) and [_src(a) for a in n.args] == ["'-'", "'_'"]:
            return [('K', n.func.value.id)]
        if isinstance(n, ast.JoinedStr):
            out = []
            for v in n.values:
                if isinstance(v, ast.FormattedValue):
                    if v.conversion not in (-1, 115) or v.format_spec is not None:
                        raise TranslateError('f-string conversion')
                    out += go(v.value)
                else:
                    out += go(v)
            return out
        if isinstance(n, ast.Call) and isinstance(n.func, ast.Attribute) and n.func.attr == 'format' and not n.keywords \
                and isinstance(n.func.value, ast.Constant) and isinstance(n.func.value.value, str):
            args = [go(a) for a in n.args]
            out, auto = [], 0
            for text, field, spec, conv in string.Formatter().parse(n.func.value.value):
                out.append(text)
                if field is None:
                    continue
                if spec or conv not in (None, 's'):
                    raise TranslateError('format spec')
                if field == '':
                    i, auto = auto, auto + 1
                elif field.isdigit():
                    i = int(field)
                else:
                    raise TranslateError('format field')
                if i >= len(args):
                    raise TranslateError('format index')
                out += args[i]
            return out
        if isinstance(n, ast.BinOp) and isinstance(n.op, ast.Mod) and isinstance(n.left, ast.Constant) \
                and isinstance(n.left.value, str):
            args = [go(a) for a in (n.right.elts if isinstance(n.right, ast.Tuple) else [n.right])]
            pieces = n.left.value.split('%s')
            if any('%' in p for p in pieces) or len(pieces) != len(args) + 1:
                raise TranslateError('% format')
            out = [pieces[0]]
            for a, p in zip(args, pieces[1:]):
                out += a + [p]
            return out
        if isinstance(n, ast.BinOp) and isinstance(n.op, ast.Add):
            return go(n.left) + go(n.right)
        if isinstance(n, ast.Call) and isinstance(n.func, ast.Attribute) and n.func.attr == 'join' and not n.keywords \
                and isinstance(n.func.value, ast.Constant) and isinstance(n.func.value.value, str) and len(n.args) == 1 \
                and isinstance(n.args[0], (ast.List, ast.Tuple)):
            out = []
            for i, e in enumerate(n.args[0].elts):
                if i:
                    out.append(n.func.value.value)
                out += go(e)
            return out
        raise TranslateError('string expression not understood: %s' % _src(n)[:60])
    return lits(go(node))


BOOL_TESTS = ['type(V_old) == bool', 'type(V_old) is bool', 'isinstance(V_old, bool)', 'bool == type(V_old)',
              'bool is type(V_old)']


def read_coercion(tree):
    """-> 'CoerceByType' | 'CoerceBoolHelper'; raises when the loop that turns configuration entries into attributes
    (naming + coercion) is not recognised."""
    f = stripped(_func(tree, 'read_configuration_file'))
    outer = [n for n in f.body if isinstance(n, ast.For)]
    b = {}
    if not (len(outer) == 1 and not outer[0].orelse
            and match_stmts('for V_section in V_config.sections():\n    pass', [header(outer[0])], b)
            and len(outer[0].body) == 1 and isinstance(outer[0].body[0], ast.For) and not outer[0].body[0].orelse
            and match_stmts('for (V_key, V_value) in V_config.items(V_section):\n    pass', [header(outer[0].body[0])], b)):
        raise TranslateError('read_configuration_file: the loops over sections and items are not recognised')
    body = outer[0].body[0].body
    if len(body) != 3:
        raise TranslateError('read_configuration_file: loop body has %d statements, expected 3' % len(body))
    naming, typing, store = body
    # --- naming
    for shape_src in ("if V_section == 'main':\n    V_new = E_main\nelse:\n    V_new = E_other",
                      "if 'main' == V_section:\n    V_new = E_main\nelse:\n    V_new = E_other",
                      "if V_section != 'main':\n    V_new = E_other\nelse:\n    V_new = E_main"):
        nb = dict(b)
        if match_stmts(shape_src, [naming], nb):
            b = nb
            break
    else:
        raise TranslateError('read_configuration_file: key naming is not the recognised shape')
    try:
        main, other = sym_string(b['E_main'], 'key_to_option'), sym_string(b['E_other'], 'key_to_option')
    except TranslateError as e:
        raise TranslateError('read_configuration_file: key naming: %s' % e)
    if main != [('K', b['V_key'])] or other != [('K', b['V_section']), '_', ('K', b['V_key'])]:
        raise TranslateError('read_configuration_file: key naming builds %r / %r, not key / section_key' % (main, other))
    # --- store
    if not match_stmts('setattr(V_ini, V_new, V_value)', [store], b):
        raise TranslateError('read_configuration_file: result is not stored with setattr(<result>, new_name, value)')
    # --- coercion
    if not (match_stmts('if V_defaults is not None:\n    pass', [header(typing)], b) and not typing.orelse and len(typing.body) == 2
            and match_stmts('V_old = getattr(V_defaults, V_new, None)', [typing.body[0]], b)):
        raise TranslateError('read_configuration_file: default lookup is not the recognised shape')
    inner = typing.body[1]
    if not (match_stmts('if V_old is not None:\n    pass', [header(inner)], b) and not inner.orelse):
        raise TranslateError('read_configuration_file: `if old_value is not None` not found')
    by_type = 'V_value = type(V_old)(V_value)'
    if match_stmts(by_type, inner.body, dict(b)):
        return 'CoerceByType'
    for t in BOOL_TESTS:
        if match_stmts('if %s:\n    V_value = _str_to_bool(V_value)\nelse:\n    %s' % (t, by_type), inner.body, dict(b)):
            return 'CoerceBoolHelper'
    raise TranslateError('read_configuration_file: coercion is neither `type(old_value)(value)` nor the '
                         '`_str_to_bool` shape: %s' % _src(inner)[:200])


def read_false_strings(tree, menv):
    f = stripped(_func(tree, '_str_to_bool'))
    (s,) = _params(f, 1)
    b = {}
    if match_stmts('return V_s.lower() not in E_set', f.body, b) and b['V_s'] == s:
        v = const_eval(b['E_set'], function_env(f, menv))
        if v[0] == 'strs':
            return [_check_ascii(x) for x in v[1]]
    raise TranslateError('_str_to_bool is not `return s.lower() not in (<string constants>)`')


def check_key_to_option(tree):
    f = stripped(_func(tree, 'key_to_option'))
    (s,) = _params(f, 1)
    b = {}
    if not (match_stmts("return V_s.replace('-', '_')", f.body, b) and b['V_s'] == s):
        raise TranslateError("key_to_option is not `return s.replace('-', '_')`")


OS_PATH = ('path', 'os.path')          # `from os import path` / `import os`
OPEN_ERRORS = ('IOError', 'OSError', '(IOError, OSError)', '(OSError, IOError)', 'EnvironmentError')
DISCOVERY = """
if W_fp is None:
    for W_a in E_list:
        W_b = E_p1.expanduser(W_a)
        if E_p2.exists(W_b):
            try:
                W_fp = open(W_b)
            except E_exc:
                return V_ini
            break
    else:
        return V_ini
"""
READER = ['V_ini = Options(V_defaults)', None, 'V_config = E_ctor()', 'V_config.read_file(W_fp)', 'W_fp.close()', None,
          'return V_ini']


def _candidate_paths(strings, node=None):
    out = []
    for c in strings:
        _check_ascii(c, node)
        if not c.startswith('~/') or c.endswith('/') or '//' in c or '/../' in c + '/' or '/./' in c + '/':
            _err(node, 'candidate configuration file %r is not a plain path under the home directory' % (c,))
        out.append(c)
    if not out or len(set(out)) != len(out):
        _err(node, 'the list of candidate configuration files is empty or has duplicates')
    return out


def read_discovery(tree, menv):
    """The candidate paths, in priority order, of which read_configuration_file reads the FIRST existing one (and
    nothing else): the function is, modulo names / no-effect statements / spelling of os.path and of the error class,

        inifile = Options(default_options)
        if fp is None:
            for a in <paths>:
                b = path.expanduser(a)
                if path.exists(b):
                    try:
                        fp = open(b)
                    except IOError:
                        return inifile              # exists but cannot be opened: no configuration at all
                    break
            else:
                return inifile                      # none exists
        config = configparser.RawConfigParser()
        config.read_file(fp)                        # ONE file is read
        fp.close()
        for section in config.sections(): ...
        return inifile

    Any other shape (e.g. one that reads several files) is not recognised."""
    f0 = _func(tree, 'read_configuration_file')
    params = _params(f0, 2)
    f = stripped(f0)
    if len(f.body) != len(READER):
        raise TranslateError('read_configuration_file: %d top-level statements, expected %d' % (len(f.body), len(READER)))
    b = {}
    for st, want in zip(f.body, READER):
        if want is not None and not match_stmts(want, [st], b):
            _err(st, 'read_configuration_file: statement %r where `%s` is expected' % (_src(st)[:60], want))
    if _src(b['E_ctor']) not in ('configparser.RawConfigParser', 'RawConfigParser'):
        raise TranslateError('read_configuration_file: the parser is not a RawConfigParser')
    disc, loop = f.body[1], f.body[5]
    if not (isinstance(loop, ast.For) and not loop.orelse
            and match_stmts('for V_section in V_config.sections():\n    pass', [header(loop)], b)):
        _err(loop, 'read_configuration_file: the loop over config.sections() is not recognised')
    if not match_stmts(DISCOVERY, [disc], b):
        _err(disc, 'read_configuration_file: the search for the configuration file is not "open the first candidate that '
                   'exists, read only that one"')
    if [b['W_fp'], b['V_defaults']] != params:
        raise TranslateError('read_configuration_file: parameters are not (file, default options)')
    if _src(b['E_p1']) not in OS_PATH or _src(b['E_p2']) not in OS_PATH or _src(b['E_exc']) not in OPEN_ERRORS:
        raise TranslateError('read_configuration_file: expanduser/exists/IOError are not the ones of os.path')
    v = const_eval(b['E_list'], function_env(f0, menv))
    if v[0] != 'strs':
        raise TranslateError('read_configuration_file: the candidates are not a constant collection of strings')
    if isinstance(b['E_list'], ast.Set):
        raise TranslateError('read_configuration_file: a set of candidates has no order')
    return _candidate_paths(v[1], b['E_list'])


def read_discovery_lenient(tree):
    """When the shape is not recognised: every '~/...' string literal of read_configuration_file (else of the module),
    in source order; the documented list if there is none."""
    def literals(nodes):
        found = []
        for st in nodes:
            if _is_docstring(st):
                continue
            for n in ast.walk(st):
                if isinstance(n, ast.Constant) and isinstance(n.value, str) and n.value.startswith('~/'):
                    found.append((n.lineno, n.col_offset, n.value))
        out = []
        for _, _, v in sorted(found):
            try:
                _candidate_paths([v])
            except TranslateError:
                continue
            if v not in out:
                out.append(v)
        return out
    try:
        out = literals(_func(tree, 'read_configuration_file').body)
    except TranslateError:
        out = []
    if not out:
        out = literals([st for st in tree.body if not isinstance(st, (ast.FunctionDef, ast.ClassDef))])
    return out or list(SPEC_CANDIDATES)


# ----------------------------------------------------------------------------- subcommands
def read_defaults_method(fn, env):
    """parse_defaults: local constant assignments, then `return {literal dict}` or
    `name = {literal dict}; return name`."""
    env = function_env(fn, env)
    dicts = {}
    for st in fn.body:
        if _no_effect(st):
            continue
        if isinstance(st, ast.Assign) and len(st.targets) == 1 and isinstance(st.targets[0], ast.Name):
            tgt = st.targets[0].id
            if isinstance(st.value, ast.Dict):
                dicts[tgt] = (st.value, dict(env))
                env.pop(tgt, None)
            else:
                dicts.pop(tgt, None)
                env[tgt] = const_eval(st.value, env)
            continue
        if isinstance(st, ast.Return):
            d, denv = st.value, env
            if isinstance(d, ast.Name) and d.id in dicts:
                d, denv = dicts[d.id]
            if d is None or (isinstance(d, ast.Constant) and d.value is None):
                return []
            if not isinstance(d, ast.Dict):
                _err(st, 'parse_defaults does not return a dict literal')
            out = []
            for k, v in zip(d.keys, d.values):
                if k is None:
                    _err(st, 'parse_defaults: **mapping in the dict literal')
                kk = const_eval(k, denv)
                if kk[0] != 'str':
                    _err(st, 'parse_defaults key is not a constant string')
                vv = const_eval(v, denv)
                if vv[0] == 'strs':
                    _err(st, 'a collection as default is not modelled')
                out.append((_check_ascii(kk[1]), vv))
            if len({k for k, _ in out}) != len(out):
                _err(st, 'parse_defaults: a key twice')
            return out
        _err(st, 'unrecognised statement in parse_defaults')
    return []


def read_subcommands():
    d = os.path.join(core.REPO, 'jug', 'subcommands')
    subs = []          # (name, module)
    entries = []
    defaults = []
    defaults_of = {}   # subcommand -> keys of its parse_defaults()
    nmutex = 0
    for fname in sorted(os.listdir(d)):
        if not fname.endswith('.py') or fname == '__init__.py':
            continue
        tree = parse_normalised(os.path.join('jug', 'subcommands', fname))
        menv = module_env(tree)
        instantiated = set()
        for st in tree.body:
            if isinstance(st, ast.Assign) and isinstance(st.value, ast.Call) and isinstance(st.value.func, ast.Name) \
                    and not st.value.args and not st.value.keywords:
                instantiated.add(st.value.func.id)
        for cls in tree.body:
            if not isinstance(cls, ast.ClassDef):
                continue
            if not any(isinstance(b, ast.Name) and b.id == 'SubCommand' for b in cls.bases):
                continue
            if cls.name not in instantiated:
                raise TranslateError('%s: SubCommand subclass %s is not instantiated at module level' % (fname, cls.name))
            p = pd = None
            for st in cls.body:
                if isinstance(st, ast.FunctionDef) and st.name == 'parse':
                    p = st
                if isinstance(st, ast.FunctionDef) and st.name == 'parse_defaults':
                    pd = st
            selfs = {m.args.args[0].arg for m in (p, pd) if m is not None and m.args.args}
            cenv = dict(menv)
            cenv.update(class_env(cls, tree, menv, sorted(selfs)))
            names = [st for st in cls.body if isinstance(st, ast.Assign) and len(st.targets) == 1
                     and isinstance(st.targets[0], ast.Name) and st.targets[0].id == 'name']
            if len(names) != 1:
                raise TranslateError('%s: %s has no (single) name' % (fname, cls.name))
            nv = const_eval(names[0].value, menv)
            if nv[0] != 'str' or not nv[1]:
                _err(names[0], 'subcommand name is not a constant string')
            name = _check_ascii(nv[1])
            if p is not None:
                _, parser = _params(p, 2)
                es, nm = read_parser_body(p.body, parser, name, nmutex, function_env(p, cenv))
                nmutex += nm
                entries.extend(es)
            if pd is not None:
                _params(pd, 1)
                ds = read_defaults_method(pd, cenv)
                defaults.extend(ds)
                defaults_of[name] = [k for k, _ in ds]
            subs.append((name, fname[:-3]))
    names = [n for n, _ in subs]
    if len(set(names)) != len(names):
        raise TranslateError('two subcommands share a name')
    keys = [k for k, _ in defaults]
    if len(set(keys)) != len(keys):
        raise TranslateError('two parse_defaults() define the same key: the result would depend on load order')
    return subs, entries, defaults, defaults_of


# ----------------------------------------------------------------------------- assemble
def table(lenient=False):
    """The option table as Python data (also used by the harness to generate command lines).
    The DATA is extracted strictly (TranslateError).  Each SHAPE that is not recognised is replaced by the specified
    one and named in the list `assumed`: the differential cases of harness/c20.py then decide.  (`lenient` is kept
    for callers of the earlier interface; the behaviour is the same.)"""
    tree = parse_normalised(os.path.join('jug', 'options.py'))
    menv = module_env(tree)
    common = read_common(tree, menv)
    top, extras, subdest = read_parse(tree, menv)
    main_defaults = read_main_defaults(tree, menv)
    assumed = []

    def shape(what, fn, fallback):
        try:
            return fn()
        except TranslateError as e:
            assumed.append('%s: %s' % (what, e))
            return fallback()
    coerce = shape('coercion of configuration values (assumed: _str_to_bool for booleans, else type(default)(value); '
                   'names: key / section_key)', lambda: read_coercion(tree), lambda: 'CoerceBoolHelper')
    falses = shape("_str_to_bool (assumed: '', '0', 'false', 'off' are false)", lambda: read_false_strings(tree, menv),
                   lambda: list(SPEC_FALSE_STRINGS))
    shape("key_to_option (assumed: '-' -> '_')", lambda: check_key_to_option(tree), lambda: None)
    candidates = shape('which configuration file is read (assumed: the first existing candidate only)',
                       lambda: read_discovery(tree, menv), lambda: read_discovery_lenient(tree))
    subs, specific, sub_defaults, defaults_of = read_subcommands()
    for e in common + extras + specific:
        if e['action'] == 'version':
            raise TranslateError('a version action on a subparser is not modelled')
    return {'subcommands': sorted(n for n, _ in subs), 'modules': dict(subs), 'subdest': subdest, 'top': top,
            'specific': specific, 'common': common + extras, 'main_defaults': main_defaults,
            'sub_defaults': sub_defaults, 'defaults_of': defaults_of, 'coerce': coerce, 'false_strings': falses,
            'rc_candidates': candidates, 'assumed': assumed}


def coq_entry(e):
    act = ACTIONS[e['action']]
    if e['action'] == 'store_const':
        act = '(AStoreConst %s)' % coq_val(e['const'])
    nargs = {'none': 'NOne', '?': 'NOpt', '*': 'NStar'}[e['nargs']]
    return ('{| a_sub := %s; a_flags := [%s]; a_dest := %s; a_action := %s; a_nargs := %s; '
            'a_default := %s; a_type := %s; a_required := %s; a_mutex := %s |}'
            % (coq_str(e['sub']), '; '.join(coq_str(f) for f in e['flags']), coq_str(e['dest']), act, nargs,
               'None' if e['default'] is None else '(Some %s)' % coq_val(e['default']),
               {'str': 'TStr', 'int': 'TInt'}[e['type']], 'true' if e['required'] else 'false',
               'None' if e['mutex'] is None else '(Some %d%%nat)' % e['mutex']))


def _coq_list(items, indent='    '):
    if not items:
        return '[]'
    return '[\n' + ';\n'.join(indent + i for i in items) + '\n  ]'


@extractor('OptionTable.v')
def option_table():
    t = table()
    out = ['(* option table of jug/options.py and jug/subcommands/*.py (harness/translate_c20.py) *)']
    for a in t['assumed']:
        out.append('(* SHAPE NOT RECOGNISED, the specified one is assumed and the differential cases decide - %s *)'
                   % a.replace('(*', '( *').replace('*)', '* )').replace('"', "'"))
    out += ['From Coq Require Import List ZArith Bool String.',
            'From JugV Require Import Model.Options.',
            'Import ListNotations.',
            'Local Open Scope string_scope.',
            '',
            'Definition table : option_table := {|',
            '  t_subcommands := [%s];' % '; '.join(coq_str(s) for s in t['subcommands']),
            '  t_subdest := %s;' % coq_str(t['subdest']),
            '  t_top := %s;' % _coq_list([coq_entry(e) for e in t['top']]),
            '  t_specific := %s;' % _coq_list([coq_entry(e) for e in t['specific']]),
            '  t_common := %s;' % _coq_list([coq_entry(e) for e in t['common']]),
            '  t_main_defaults := %s;' % _coq_list(['(%s, %s)' % (coq_str(k), coq_val(v)) for k, v in t['main_defaults']]),
            '  t_sub_defaults := %s;' % _coq_list(['(%s, %s)' % (coq_str(k), coq_val(v)) for k, v in t['sub_defaults']]),
            '  t_coerce := %s;' % t['coerce'],
            '  t_false_strings := [%s]' % '; '.join(coq_str(s) for s in t['false_strings']),
            '|}.', '',
            '(* read_configuration_file(None): the first of these that exists is read, only that one *)',
            'Definition rc_candidates : list string := [%s].' % '; '.join(coq_str(s) for s in t['rc_candidates']), '']
    return '\n'.join(out)
