"""Constant texts used by harness/e2e.py (the end-to-end differential section of C01 / C02):

SUPPORT   - `e2e_support.py`: the canonical, type-exact description of a value (`desc`) and the two result classes
            that need an importable home (an ndarray subclass with an attribute, a namedtuple)
STUB      - a stand-in `jug` package in which every construct is its plain-Python meaning (Task(f, ...) = f(...))
HEADER    - import lines of every generated jugfile
FUNCS     - the library of task functions of every generated jugfile (each appends one line to $E2E_LOG)
REF_RUNNER, READER - the two driver scripts (sequential reference / reader after the distributed run)
"""

SUPPORT = r'''
import collections
import numpy as np


class Tagged(np.ndarray):
    """an ndarray subclass with an attribute, picklable in full"""
    def __new__(cls, data, tag=None):
        obj = np.asarray(data).view(cls)
        obj.tag = tag
        return obj

    def __array_finalize__(self, obj):
        self.tag = getattr(obj, 'tag', None)

    def __reduce__(self):
        r = super().__reduce__()
        return (r[0], r[1], (r[2], self.tag))

    def __setstate__(self, state):
        base, tag = state
        super().__setstate__(base)
        self.tag = tag


Pt = collections.namedtuple('Pt', 'x y')


def desc(o):
    """canonical description: exact type, dtype incl. byte order, shape, bytes, subclass attributes; floats in hex"""
    t = type(o)
    tn = t.__module__ + '.' + t.__qualname__
    if o is None or t in (bool, int, str):
        return [tn, repr(o)]
    if t is bytes:
        return [tn, o.hex()]
    if t is float:
        return [tn, o.hex()]
    if t is complex:
        return [tn, o.real.hex(), o.imag.hex()]
    if isinstance(o, np.ndarray):
        a = np.asarray(o)
        if a.dtype.hasobject:
            data = [desc(x) for x in a.ravel().tolist()]
        else:
            data = np.ascontiguousarray(a).tobytes().hex()
        extra = []
        if hasattr(o, '__dict__'):
            extra = [[k, desc(v)] for k, v in sorted(vars(o).items())]
        return [tn, a.dtype.str, repr(a.dtype.descr) if a.dtype.names else '', list(a.shape), data, extra]
    if isinstance(o, np.generic):
        return [tn, o.dtype.str, o.tobytes().hex()]
    if isinstance(o, (list, tuple)):
        return [tn, [desc(x) for x in o]]
    if isinstance(o, dict):
        return [tn, [[desc(k), desc(v)] for k, v in o.items()]]
    if isinstance(o, (set, frozenset)):
        return [tn, sorted((desc(x) for x in o), key=repr)]
    if isinstance(o, slice):
        return [tn, repr(o)]
    return [tn, 'repr', repr(o)]
'''

# ---------------------------------------------------------------------------------------------------------------
# the plain-Python meaning of the jug API.  One flat module (`jug/_core.py`) + thin re-exporting modules.
STUB_CORE = r'''
import functools as _functools


def Task(f, *args, **kwargs):
    return f(*args, **kwargs)


def TaskGenerator(f):
    return f


def Tasklet(base, f):
    return f(base)


def value(x):
    return x


def CachedFunction(f, *args, **kwargs):
    return f(*args, **kwargs)


def iteratetask(t, n):
    return tuple(t[i] for i in range(n))


def return_tuple(n):
    def wrapper(f):
        return f
    return wrapper


def barrier():
    pass


def bvalue(x):
    return x


def CompoundTask(f, *args, **kwargs):
    return f(*args, **kwargs)


def CompoundTaskGenerator(f):
    return f


def identity(x):
    return x


def CustomHash(obj, hash_function):
    return obj


def NoHash(obj):
    return obj


def hash_one(obj):
    import hashlib
    import pickle
    return hashlib.sha1(pickle.dumps(obj)).hexdigest().encode('ascii')


def set_jugdir(jugdir):
    return None


def is_jug_running():
    return False


def mr_map(mapper, sequence, map_step=4):
    return [mapper(s) for s in sequence]


def mr_currymap(mapper, sequence, map_step=4):
    return [mapper(*s) for s in sequence]


def mr_mapreduce(reducer, mapper, inputs, map_step=4, reduce_step=8):
    if mapper is None:
        return _functools.reduce(reducer, list(inputs))
    return _functools.reduce(reducer, [mapper(x) for x in inputs])


def mr_reduce(reducer, inputs, reduce_step=8):
    return _functools.reduce(reducer, list(inputs))
'''

STUB_FILES = {
    'jug/_core.py': STUB_CORE,
    'jug/__init__.py': (
        'from ._core import (TaskGenerator, Task, Tasklet, value, CachedFunction, iteratetask, CompoundTaskGenerator,\n'
        '                    CompoundTask, barrier, bvalue, set_jugdir, is_jug_running)\n'
        'E2E_STUB = True\n'),
    'jug/task.py': 'from ._core import TaskGenerator, Task, Tasklet, value, CachedFunction, iteratetask, return_tuple\n',
    'jug/compound.py': 'from ._core import CompoundTaskGenerator, CompoundTask\n',
    'jug/utils.py': 'from ._core import identity, CustomHash\n',
    'jug/unsafe.py': 'from ._core import NoHash\n',
    'jug/hash.py': 'from ._core import hash_one\n',
    'jug/mapreduce.py': ('from ._core import mr_map as map, mr_currymap as currymap, mr_mapreduce as mapreduce, '
                         'mr_reduce as reduce\n'),
}

# ---------------------------------------------------------------------------------------------------------------
HEADER = r'''import os as _os
import hashlib as _hashlib
import collections as _collections
import numpy as np
import jug
import jug.mapreduce
from jug import TaskGenerator, Task, Tasklet, barrier, bvalue, value, iteratetask, CompoundTask, CompoundTaskGenerator
from jug.task import return_tuple
from jug.mapreduce import currymap
from jug.utils import identity, CustomHash
from jug.unsafe import NoHash
from jug.hash import hash_one
from e2e_support import Tagged, Pt, desc as _desc
'''

FUNCS = r'''
_LOGHOOK = None
OrderedDict = _collections.OrderedDict


def _log(name, *args, **kwargs):
    # one line per call of a task function: name + digest of the arguments (reducers: the name only, the
    # association order of a map-reduce is not fixed)
    if name.startswith('r_'):
        line = name
    else:
        line = name + ' ' + _hashlib.sha1(repr(_desc((args, kwargs))).encode('utf-8')).hexdigest()[:20]
    if _LOGHOOK is not None:
        _LOGHOOK.append(line)
    p = _os.environ.get('E2E_LOG')
    if p:
        fd = _os.open(p, _os.O_WRONLY | _os.O_APPEND | _os.O_CREAT, 0o644)
        try:
            _os.write(fd, (line + '\n').encode('ascii'))
        finally:
            _os.close(fd)


def _make(kind, k):
    if kind == 'int':
        return 7 * k + 3
    if kind == 'bigint':
        return (k + 2) ** 70
    if kind == 'float':
        return k / 7.0 + 0.1
    if kind == 'str':
        return 'text-%d é' % k
    if kind == 'bytes':
        return bytes([k % 256, 0, 255, 10]) * 2
    if kind == 'none':
        return None
    if kind == 'bool':
        return k % 2 == 0
    if kind == 'list':
        return [k + i for i in range(2 + k % 4)]
    if kind == 'tuple':
        return (k, str(k), float(k) / 4)
    if kind == 'dict':
        return {'a': k, 'b': [k, k + 1], 3: (k, None)}
    if kind == 'nested':
        return [k, (k + 1, [k + 2, {'z': k + 3, 'y': None}]), 'n%d' % k, 0.5 * k, b'\x00\x01', {k, k + 1}]
    if kind == 'table':
        return [[k + 1, k + 2, k + 3], [10 * k + 30, 10 * k + 40, 10 * k + 50], [7, k + 100, -k - 1]]
    if kind == 'pairs':
        return ([k + 5, k + 6], [k + 70, k + 80])
    if kind == 'rows':
        return {'pos': [k + 1, k + 2], 'neg': [-k - 1, -k - 2]}
    if kind == 'arr':
        return np.arange(k, k + 6, dtype=np.int64).reshape(2, 3)
    if kind == 'sqarr':
        return np.arange(k, k + 4, dtype=np.int64).reshape(2, 2)
    if kind == 'farr':
        return np.linspace(0.0, 1.0 + k, 5)
    if kind == 'be':
        return np.arange(k, k + 4, dtype='>i4')
    if kind == 'struct':
        a = np.zeros(3, dtype=[('a', '>i4'), ('b', '<f8'), ('c', 'S3')])
        a['a'] = [k, k + 1, k + 2]
        a['b'] = [0.5, 1.5 * k, -2.0]
        a['c'] = [b'x', b'yz', b'']
        return a
    if kind == 'zero_d':
        return np.array(k + 0.25)
    if kind == 'empty':
        return np.zeros((0, 3), dtype=np.float32)
    if kind == 'noncontig':
        return np.arange(k, k + 24, dtype=np.int32).reshape(4, 6)[::2, 1::2]
    if kind == 'fortran':
        return np.asfortranarray(np.arange(k, k + 6, dtype=np.int16).reshape(2, 3))
    if kind == 'objarr':
        a = np.empty(3, dtype=object)
        a[0] = k
        a[1] = 'o%d' % k
        a[2] = [k, None]
        return a
    if kind == 'boolarr':
        return np.array([True, False, k % 2 == 0])
    if kind == 'strarr':
        return np.array(['a', 'bc%d' % k, ''])
    if kind == 'matrix':
        return np.matrix([[1, 2 + k], [3, 4]])
    if kind == 'tagged':
        return Tagged(np.arange(k, k + 4, dtype=np.int64).reshape(2, 2), tag='tag%d' % k)
    if kind == 'npint':
        return np.int32(k + 5)
    if kind == 'npfloat':
        return np.float64(k) / 3
    if kind == 'odict':
        return OrderedDict([('z', k), ('a', [k])])
    if kind == 'nt':
        return Pt(k, [k, 'p'])
    if kind == 'bigarr':
        return np.arange(k, k + 200, dtype=np.int64)
    if kind == 'biglist':
        return ['item-%d-%d' % (k, i) for i in range(120)]
    if kind == 'mixed':
        return [np.arange(k, k + 3, dtype='>u2'), (np.matrix([[k, 1], [0, 1]]), {'t': Tagged([1.5, k], tag=(k, 'm'))}), np.float32(k)]
    raise ValueError(kind)


@TaskGenerator
def const(kind, k):
    _log('const', kind, k)
    return _make(kind, k)


@TaskGenerator
def inc(x):
    _log('inc', x)
    return x + 1


@TaskGenerator
def pick(i):
    _log('pick', i)
    return i


@TaskGenerator
def count(x):
    _log('count', x)
    if isinstance(x, (list, tuple, dict, str, bytes, set, frozenset)):
        n = len(x)
    elif isinstance(x, np.ndarray):
        n = int(x.size)
    elif type(x) is int:
        n = abs(x)
    else:
        n = 1
    return n % 4


@TaskGenerator
def show(*args, **kwargs):
    _log('show', *args, **kwargs)
    return repr(_desc((args, kwargs)))


@TaskGenerator
def wrap(x, tag=0):
    _log('wrap', x, tag=tag)
    return [tag, x]


@TaskGenerator
def pair(a, b=None):
    _log('pair', a, b=b)
    return (a, b)


@TaskGenerator
def box(**kwargs):
    _log('box', **kwargs)
    return dict(kwargs)


@TaskGenerator
def sq(x):
    _log('sq', x)
    if isinstance(x, np.ndarray) and x.dtype.kind in 'iuf':
        if x.ndim == 2 and x.shape[0] == x.shape[1]:
            return x * x
        return x + x
    if type(x) in (int, float):
        return x * x
    return [x, x]


@TaskGenerator
def cat(a, b):
    _log('cat', a, b)
    if type(a) is type(b) and type(a) in (list, tuple, str, bytes, int, float):
        return a + b
    return (a, b)


@TaskGenerator
def first(x):
    _log('first', x)
    if isinstance(x, (list, tuple, str, bytes)) and len(x):
        return x[0]
    if isinstance(x, np.ndarray) and x.ndim >= 1 and x.shape[0]:
        return x[0]
    return x


@return_tuple(2)
@TaskGenerator
def split2(x):
    _log('split2', x)
    return ([x, 'left'], [x, 'right'])


def p_add(a, b=1):
    # a plain function, used as Task(p_add, ...)
    _log('p_add', a, b=b)
    if type(a) is type(b) and type(a) in (list, tuple, str, bytes, int, float):
        return a + b
    return [a, b]


def m_sq(x):
    _log('m_sq', x)
    return x * x + 1


def m_row(x):
    _log('m_row', x)
    return [x, [x * x, -x], (x + 1, 'r%d' % x)]


def m_show(x):
    _log('m_show', x)
    return repr(_desc(x))


@TaskGenerator
def m_neg(x):
    _log('m_neg', x)
    return -x


def m_add(a, b):
    _log('m_add', a, b)
    return a + b


def r_add(a, b):
    _log('r_add')
    return a + b


@TaskGenerator
def r_max(a, b):
    _log('r_max')
    return max(a, b)


def _tl_len(v):
    try:
        return len(v)
    except TypeError:
        return -1


def _tl_type(v):
    return type(v).__module__ + '.' + type(v).__qualname__


def _chash(obj):
    return _hashlib.sha1(repr(_desc(obj)).encode('utf-8')).hexdigest().encode('ascii')


def cb_wrap(x, tag=0, depth=1):
    # builder of a compound task: x may be a task
    t = wrap(x, tag=tag)
    for i in range(depth):
        t = pair(t, b=i)
    return t


def cb_mr(xs, scale=1):
    return jug.mapreduce.mapreduce(r_add, m_sq, [x * scale for x in xs], map_step=2, reduce_step=2)


@CompoundTaskGenerator
def cg_pair(a, b=None, tag=0):
    return pair(wrap(a, tag=tag), b=b)

'''

PRODUCER_KINDS = ['int', 'bigint', 'float', 'str', 'bytes', 'none', 'bool', 'list', 'tuple', 'dict', 'nested', 'table', 'pairs',
                  'rows', 'arr', 'sqarr', 'farr', 'be', 'struct', 'zero_d', 'empty', 'noncontig', 'fortran', 'objarr', 'boolarr',
                  'strarr', 'matrix', 'tagged', 'npint', 'npfloat', 'odict', 'nt', 'bigarr', 'biglist', 'mixed']

# ---------------------------------------------------------------------------------------------------------------
# run with the STUB package first on sys.path: the plain sequential meaning of the jugfile text
REF_RUNNER = r'''
import json, os, sys, types
jugfile = sys.argv[1]
sys.path.insert(0, os.path.abspath('.'))
import jug
assert getattr(jug, 'E2E_STUB', False), 'the reference must run with the stand-in jug package, got %s' % jug.__file__
name = os.path.basename(jugfile)[:-3]
mod = types.ModuleType(name)
mod.__file__ = os.path.abspath(jugfile)
sys.modules[name] = mod
space = mod.__dict__
with open(jugfile) as f:
    exec(compile(f.read(), jugfile, 'exec'), space, space)
from e2e_support import desc
out = {}
for k, v in list(space.items()):
    if k.startswith('_') or isinstance(v, types.ModuleType) or callable(v):
        continue
    out[k] = desc(v)
print('@@' + json.dumps({'values': out}))
'''

# run with the REAL jug: a fresh process that opens the jugdir, imports the jugfile and takes value() of every name
READER = r'''
import json, os, sys, types
import jug
from jug import init, value
store, space = init(sys.argv[1], sys.argv[2])
from e2e_support import desc
out = {}
for k, v in list(space.items()):
    if k.startswith('_') or isinstance(v, types.ModuleType) or callable(v):
        continue
    try:
        out[k] = desc(value(v))
    except BaseException as e:
        out[k] = ['ERROR', type(e).__name__, str(e)[:160]]
print('@@' + json.dumps({'values': out, 'barrier': bool(space.get('__jug__hasbarrier__', False)),
                         'jug_file': os.path.abspath(jug.__file__)}))
'''
