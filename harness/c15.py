"""C15 - `jug status` and `jug check` tell the truth about every task.

Proof: Props/C15.v over Model/Dag.v + Model/Status.v (every task graph, every store state, every
lock state, every monotone history of cached calls).
Tie: generated jugfiles (the C09 generator: edges through arguments, containers, tasklets,
task-valued indices, mapped sequences, ...; duplicate calls) x histories of 2-4 states in which
results are only added (any subset, dependency-closed or not) and locks come and go (held / failed,
on complete, waiting and runnable tasks and on foreign keys) x backends (file, packed file, dict
with backing file, fake redis).  At every state the REAL `jug status` (plain), `jug status --cache`
(one sqlite cache file per history, kept on disk between the calls) and `jug check` are run through
jug.jug.main; the printed tables are parsed, the sqlite file is read back.  coqc evaluates the
model on the observed graph and compares every cell, the Total rows, the exit statuses and the
complete content of the cache (statuses and index dependencies) after every call.
Search: the specification of the property evaluated in Python on the generator's own (syntactic)
dependencies; `--short` output is checked there too."""
import os
import re
import shutil
import sqlite3

from . import core
from .core import natlit
from . import jugrun
from . import fakeredis
from . import c09 as G
import jug
import jug.jug
import jug.task
from jug.backends.dict_store import dict_store
from jug.backends.memoize_store import memoize_store

EVIDENCE = dict(
    level='proof',
    rule='one case = (generated jugfile, backend, history of 2-4 store/lock states): real `jug status`, `jug status --cache` '
         'and `jug check` at every state, compared with the model in coqc; non-trivial when some state shows at least three '
         'different columns; distinct = distinct (interned graph, history)',
    explanation='Coq theorems over the status / check model (classification = specification, counters partition the tasks, '
                'cached = uncached along every monotone history, check = 0 iff all complete) + differential evaluation '
                'against the real commands on file / packed file / dict / fake-redis stores + an independent Python oracle',
)

BACKENDS = ('file', 'dict', 'filepack', 'redis', 'keepalive')
CATS = ('CFailed', 'Waiting', 'Ready', 'Complete', 'Active')          # the order of the printed columns


class HarnessError(RuntimeError):
    pass


# The status cache deliberately rejects jugfiles in which a dependency is created after its consumer (a container
# filled after the task that received it was made): load_jugfile looks dependencies up among the EARLIER tasks and
# says "Could not build dependency graph! ... A common error is to build a Task with a mutable argument and
# subsequently modifying." - exit 1, no table, no cache.  That refusal is the EXPECTED behaviour of the cached mode
# on such jugfiles (the code's documented precondition), it is modelled (load_jugfile = None) and compared.
D27_CLASS = 'cache_ignores_jugfile_store'
REFUSED = 'cached status must refuse exactly the jugfiles whose tasks are not created in dependency order'


def end_process():
    st = jug.task.Task.store
    if isinstance(st, memoize_store):
        st = st.base
    if isinstance(st, dict_store):
        st.close()
    jugrun.fresh()
    jug.task.Task.store = None


def call_main(argv):
    with G.process_state():
        with jugrun.quiet() as (out, err):
            try:
                jug.jug.main(['jug'] + list(argv))
                code = 'no-exit'
            except SystemExit as e:
                code = e.code
        end_process()
    return code, out.getvalue(), err.getvalue()


# ---------------------------------------------------------------------------- histories
def gen_history(rng, hashes, foreign):
    """[(stored hashes, {hash: 'held'|'failed'})]: results only grow, locks are arbitrary"""
    uniq = sorted(set(hashes))
    steps = rng.choice([2, 3, 3, 4])
    hist = []
    p0 = rng.choice([0.0, 0.1, 0.3, 0.5])
    stored = set(h for h in uniq if rng.random() < p0)
    for k in range(steps):
        if k > 0:
            rest = [h for h in uniq if h not in stored]
            r = rng.random()
            if k == steps - 1 and r < 0.3:
                stored |= set(rest)                               # everything done
            elif r > 0.9:
                pass                                              # nothing happened
            else:
                pa = rng.choice([0.15, 0.3, 0.5])
                stored |= set(h for h in rest if rng.random() < pa)
        pl = rng.choice([0.0, 0.2, 0.4, 0.6, 0.8])
        locks = {}
        for h in uniq + foreign:
            if rng.random() < pl:
                locks[h] = 'failed' if rng.random() < 0.45 else 'held'
        hist.append((sorted(stored), locks))
    return hist


def apply_state(env, vals_by_hash, prev_stored, prev_locks, stored, locks, rng):
    s = env.open()
    for h in stored:
        if h not in prev_stored:
            s.dump(vals_by_hash[h], G.bx(h))
    for h in sorted(set(prev_locks) | set(locks)):
        old, new = prev_locks.get(h), locks.get(h)
        if old == new:
            continue
        lock = s.getlock(G.bx(h))
        if old is not None and not (old == 'held' and new == 'failed'):
            lock.release()
            old = None
        if new is not None:
            if old is None and not lock.get():
                raise HarnessError('C15 harness: could not take lock %s' % h)
            if new == 'failed' and not lock.fail():
                raise HarnessError('C15 harness: could not mark lock %s failed' % h)
    packed = None
    if env.backend == 'filepack' and rng.random() < 0.7:
        if rng.random() < 0.5:
            s.update_pack()
            packed = 'update_pack()'
        else:
            packed = 'jug pack'
    env.finish_with(s)
    if packed == 'jug pack':                       # the real command, through main()
        code, out, err = call_main(['pack', env.jugfile, '--jugdir', env.jugdir_arg()])
        if code not in (None, 0, 'no-exit') or 'Packed' not in out:
            raise HarnessError('C15 harness: jug pack failed: %r %s %s' % (code, out[-200:], err[-200:]))
    return packed


# ---------------------------------------------------------------------------- parsing
ROW = re.compile(r'^\s*(\d+)\s+(\d+)\s+(\d+)\s+(\d+)\s+(\d+)\s+(\S+)\s*$')
SHORT_ALL = re.compile(r'^All tasks complete \((\d+) tasks\)\.$')
SHORT = re.compile(r'^(\d+) tasks waiting to be run, (\d+) failed, (\d+) complete, \((none|\d+) active\)\.$')


def parse_table(out):
    """-> ({name: [failed, waiting, ready, complete, active]}, totals) or None"""
    lines = out.splitlines()
    head = [i for i, l in enumerate(lines) if l.split() == ['Failed', 'Waiting', 'Ready', 'Complete', 'Active', 'Task', 'name']]
    if len(head) != 1:
        return None
    rows, total, inside, last = [], None, False, None
    for l in lines[head[0] + 1:]:
        if l.startswith('---'):
            inside = True
            continue
        if l.startswith('...'):
            inside = False
            continue
        m = ROW.match(l)
        if not m:
            if not l.strip():
                continue
            if inside and rows and len(l.split()) == 1:
                rows[-1][0] += l.strip()                      # a long task name continues on the next line
                continue
            return None
        nums = [int(x) for x in m.groups()[:5]]
        if inside:
            rows.append([m.group(6), nums])
        elif m.group(6) == 'Total' and total is None:
            total = nums
        else:
            return None
    if len(set(n for n, _ in rows)) != len(rows):
        return None
    rows = dict((n, r) for n, r in rows)
    if total is None:
        return None
    return rows, total


def parse_short(out):
    """-> (waiting + ready, failed, complete, active) or None"""
    lines = [l for l in out.splitlines() if l.strip()]
    if len(lines) != 1:
        return None
    m = SHORT_ALL.match(lines[0])
    if m:
        return (0, 0, int(m.group(1)), 0)
    m = SHORT.match(lines[0])
    if m:
        return (int(m.group(1)), int(m.group(2)), int(m.group(3)), 0 if m.group(4) == 'none' else int(m.group(4)))
    return None


STATUS_WORD = {'unknown': None, 'waiting': 'Waiting', 'ready': 'Ready', 'running': 'Active', 'failed': 'CFailed',
               'finished': 'Complete'}


def read_cache(path):
    """the sqlite file as the model sees it: [(name, hash, status, [dependency ids])] in id order"""
    con = sqlite3.connect(path)
    try:
        ht = con.execute('SELECT id, name, hash, status FROM ht ORDER BY id').fetchall()
        dep = con.execute('SELECT source, target FROM dep').fetchall()
    finally:
        con.close()
    deps = {}
    for a, b in dep:
        deps.setdefault(a, []).append(b)
    rows = []
    for k, (i, name, h, status) in enumerate(ht):
        if i != k or status not in STATUS_WORD:
            raise ValueError('unexpected cache row %r' % ((i, name, h, status),))
        rows.append((name, G.hx(h), STATUS_WORD[status], deps.get(i, [])))
    return rows


# ---------------------------------------------------------------------------- the property, in Python
def spec_tables(otasks, h_of, stored, locks):
    """per name [failed, waiting, ready, complete, active] from the syntactic dependencies"""
    rows = {}
    for tid, name, _, deps in otasks:
        h = h_of[tid]
        if h in stored:
            c = 3
        elif any(h_of[x] not in stored for x in deps):
            c = 1
        else:
            c = {'failed': 0, 'held': 4, None: 2}[locks.get(h)]
        rows.setdefault(name, [0, 0, 0, 0, 0])[c] += 1
    total = [sum(r[i] for r in rows.values()) for i in range(5)]
    return rows, total


# ---------------------------------------------------------------------------- one jugfile, one history
def run_history(spec, backend, root, rng, short):
    env = G.Env(backend, root, 'h', bool(spec.get('setdir')))
    with open(env.jugfile, 'w') as fh:
        fh.write(G.jugfile_text(spec))
    G.write_salts(root, {})
    env.activate()
    with G.process_state():
        store, tasks = G.load_tasks(env)
        info = [(G.hx(t.hash()), t.name, [G.hx(x.hash()) for x in t.dependencies()]) for t in tasks]
        env.finish_with(store)
        end_process()
    otasks = G.oracle_tasks(spec)
    if len(otasks) != len(info) or any(o[1] != i[1] for o, i in zip(otasks, info)):
        raise HarnessError('C15 harness: the jugfile does not define the tasks the generator expected')
    h_of = dict((o[0], i[0]) for o, i in zip(otasks, info))
    vals = G.evaluate(spec, {})
    vals_by_hash = dict((h_of[t], v) for t, v in vals.items())
    for h in sorted(vals_by_hash):
        if rng.random() < 0.3:                      # status and check must not care what the value is
            vals_by_hash[h] = rng.choice([None, None, None, 0, False, '', [], {}, ()])
    foreign = ['%040x' % rng.getrandbits(160) for _ in range(rng.choice([0, 0, 1]))]
    hist = gen_history(rng, [i[0] for i in info], foreign)
    cache_file = os.path.join(root, 'status-cache.sqlite3')
    base = ['--jugdir', env.jugdir_arg()]
    steps = []
    prev_stored, prev_locks = [], {}
    for stored, locks in hist:
        packed = apply_state(env, vals_by_hash, prev_stored, prev_locks, stored, locks, rng)
        prev_stored, prev_locks = stored, locks
        o = {'stored': stored, 'locks': sorted(locks.items()), 'packed': packed,
             'none_stored': sorted(h for h in stored if vals_by_hash.get(h) is None)}
        before = env.raw()
        env.activate()
        code, out, err = call_main(['status', env.jugfile] + base)
        o['plain'] = {'exit': code, 'table': parse_table(out), 'text': out[-1500:], 'err': err[-300:]}
        if short:
            code, out, err = call_main(['status', env.jugfile, '--short'] + base)
            o['short'] = {'exit': code, 'line': parse_short(out), 'text': out[-300:]}
        code, out, err = call_main(['status', env.jugfile, '--cache', '--cache-file', cache_file] + base)
        o['cached'] = {'exit': code, 'table': parse_table(out), 'text': out[-1500:], 'err': err[-300:],
                       'refused': (code == 1 and 'Could not build dependency graph' in err), 'skipped': False}
        try:
            o['db'] = read_cache(cache_file)
        except Exception as ex:
            o['db'] = None
            o['db_error'] = '%s: %s' % (type(ex).__name__, str(ex)[:200])
        # the store that --jugdir names: the tasks' store, unless the jugfile selects its own (then a decoy directory)
        if env.setdir:
            dec = G.file_store(env.jugdir_arg())
            o['arg_stored'] = sorted(set(G.hx(k) for k in dec.list()))
            o['arg_locks'] = sorted((G.hx(k), 'failed' if dec.getlock(k).is_failed() else 'held') for k in set(dec.listlocks()))
        else:
            o['arg_stored'], o['arg_locks'] = o['stored'], o['locks']
        code, out, err = call_main(['check', env.jugfile] + base)
        o['check'] = code
        o['store_changed'] = (env.raw() != before)
        steps.append(o)
    if backend in G.FILE_BACKENDS:
        shutil.rmtree(env.jd, ignore_errors=True)
    return info, otasks, h_of, steps


def oracle(info, otasks, h_of, steps, setdir=False):
    bad = []
    # created in dependency order, judged on the generator's own (syntactic) dependencies
    seen, in_order = set(), True
    for tid, _, _, deps in otasks:
        if any(h_of[x] not in seen for x in deps):
            in_order = False
        seen.add(h_of[tid])
    for k, o in enumerate(steps):
        stored, locks = set(o['stored']), dict(o['locks'])
        rows, total = spec_tables(otasks, h_of, stored, locks)
        for mode in ('plain', 'cached'):
            if mode == 'cached' and setdir:
                continue                      # judged in coqc against cached_call_dirs; disagreement with the plain table = D27
            t = o[mode]['table']
            if mode == 'cached' and (o['cached']['refused'] or not in_order):
                if not (o['cached']['refused'] and not in_order):
                    bad.append((REFUSED + ' at call %d' % k, 'refusal (exit 1, message)' if not in_order else 'a status table',
                                'exit %r: %s %s' % (o['cached']['exit'], o['cached']['text'][-200:], o['cached']['err'][:200])))
                elif o['cached']['table'] is not None or o['db'] is not None:
                    bad.append(('a refused cached call prints no table and writes no cache at call %d' % k, 'nothing',
                                'table %s, cache rows %s' % (o['cached']['table'], o['db'])))
                continue
            if t is None:
                bad.append(('%s status output at call %d' % (mode, k), 'a status table', o[mode]['text'][-300:] + o[mode]['err']))
                continue
            if t[0] != rows:
                bad.append(('%s status counts at call %d' % (mode, k), rows, t[0]))
            if t[1] != total:
                bad.append(('%s status Total row at call %d' % (mode, k), total, t[1]))
            if o[mode]['exit'] != total[3]:
                bad.append(('%s status exit code at call %d' % (mode, k), total[3], o[mode]['exit']))
        if in_order and not setdir and o['plain']['table'] is not None and o['cached']['table'] is not None and o['plain']['table'] != o['cached']['table']:
            bad.append(('cached = uncached at call %d' % k, o['plain']['table'], o['cached']['table']))
        if 'short' in o:
            exp = (total[1] + total[2], total[0], total[3], total[4])
            if o['short']['line'] != exp:
                bad.append(('--short summary at call %d' % k, exp, o['short']['text']))
        allc = all(h in stored for h, _, _ in info)
        if o['check'] != (0 if allc else 1):
            bad.append(('check exit code at call %d' % k, 0 if allc else 1, o['check']))
        if o['store_changed']:
            bad.append(('status / check leave the store alone at call %d' % k, 'unchanged', 'changed'))
    return bad


# ---------------------------------------------------------------------------- Coq rendering
PREAMBLE = '''
Open Scope positive_scope.
Definition row := (nat * nat * nat * nat * nat)%type.          (* Failed, Waiting, Ready, Complete, Active *)
Definition row_eqb (a b : row) : bool :=
  match a, b with (a1, a2, a3, a4, a5), (b1, b2, b3, b4, b5) =>
    Nat.eqb a1 b1 && Nat.eqb a2 b2 && Nat.eqb a3 b3 && Nat.eqb a4 b4 && Nat.eqb a5 b5 end.
Definition row_of (f : cat -> nat) : row := (f CFailed, f Waiting, f Ready, f Complete, f Active).
(* printed rows (one per task name, every name present), Total row, exit status *)
Definition table := (list (fname * row) * row * nat)%type.
Definition check_table (d : dag) (ev : list event) (t : table) : bool :=
  match t with (rows, tot, code) =>
    forallb (fun p => row_eqb (row_of (fun c => count (fst p) c ev)) (snd p)) rows &&
    forallb (fun n => existsb (fun p => Pos.eqb (fst p) (n_name n)) rows) d &&
    row_eqb (row_of (fun c => total c ev)) tot &&
    Nat.eqb (status_exit ev) code
  end.
Definition ostat_eqb (a b : option cat) : bool := option_eqb cat_eqb a b.
Definition centry_eqb (a b : centry) : bool :=
  Pos.eqb (ce_name a) (ce_name b) && Pos.eqb (ce_hash a) (ce_hash b) &&
  ostat_eqb (ce_status a) (ce_status b) && list_eqb Nat.eqb (ce_deps a) (ce_deps b).
(* one state of the history: stored keys, locks, plain table, cached call (None: it exited 1 with
   "Could not build dependency graph!", else its table and the cache file afterwards; outer None: the
   cached command was not run at this state), check.  Third component: results and locks of the store that
   --jugdir names (the same as the first two unless the jugfile selects its store with jug.set_jugdir) *)
Definition step := (list tid * list (tid * lockst) * (list tid * list (tid * lockst)) * table *
                   option (option (table * cache_db)) * nat)%type.
Fixpoint run_hist (d : dag) (file : option cache_db) (h : list step) : bool :=
  match h with
  | [] => true
  | (stl, lkl, argst, plain, cobs, chk) :: r =>
      let st := st_of stl in
      let lk := lk_of lkl in
      let arg := (st_of (fst argst), lk_of (snd argst)) in
      check_table d (status_events d st lk) plain &&
      Nat.eqb (check d st) chk &&
      match cobs with
      | None => run_hist d file r
      | Some co =>
          match cached_call_dirs d file (st, lk) arg, co with
          | None, None => run_hist d file r
          | Some (ev, db'), Some (cached, db_obs) =>
              check_table d ev cached && list_eqb centry_eqb db' db_obs && run_hist d (Some db') r
          | _, _ => false
          end
      end
  end.
Definition run_case (c : dag * list step) : bool := wf_dagb (fst c) && run_hist (fst c) None (snd c).'''
CASE_TYPE = 'dag * list step'
IMPORTS = 'From JugV Require Import Model.Dag Model.Status.'


def plist(xs):
    return '[' + ';'.join(str(x) for x in xs) + ']'


def case_lit(info, steps):
    ids, nids = {}, {}

    def hid(h):
        if h not in ids:
            ids[h] = len(ids) + 1
        return ids[h]

    def nid(n):
        if n not in nids:
            nids[n] = len(nids) + 1
        return nids[n]
    for h, name, deps in info:
        hid(h)
        nid(name)

    def row(r):
        return '(%s)' % ','.join(natlit(x) for x in r)

    def table(t):
        if t['table'] is None or not isinstance(t['exit'], int):
            return None
        rows, tot = t['table']
        if any(n not in nids for n in rows):
            return None
        return '(%s, %s, %s)' % ('[' + ';'.join('(%d,%s)' % (nid(n), row(r)) for n, r in sorted(rows.items())) + ']',
                                 row(tot), natlit(t['exit']))
    dag = '[' + ';'.join('(%d,%d,%s)' % (hid(h), nid(n), plist(hid(x) for x in deps)) for h, n, deps in info) + ']'
    lits = []
    for o in steps:
        p = table(o['plain'])
        if p is None or o['check'] not in (0, 1):
            return None, ids, nids
        if o['cached']['skipped']:
            cobs = 'None'
        elif o['cached']['refused']:
            cobs = '(Some None)'
        else:
            c = table(o['cached'])
            if c is None or o['db'] is None or any(n not in nids for n, _, _, _ in o['db']):
                return None, ids, nids
            db = '[' + ';'.join('(%d,%d,%s,%s)' % (nid(n), hid(h), 'None' if s is None else '(Some %s)' % s,
                                                    '[' + ';'.join(natlit(j) for j in dl) + ']')
                                for n, h, s, dl in o['db']) + ']'
            cobs = '(Some (Some (%s, %s)))' % (c, db)
        lk = '[' + ';'.join('(%d,%s)' % (hid(h), 'Failed' if v == 'failed' else 'Held') for h, v in o['locks']) + ']'
        alk = '[' + ';'.join('(%d,%s)' % (hid(h), 'Failed' if v == 'failed' else 'Held') for h, v in o['arg_locks']) + ']'
        lits.append('(%s, %s, (%s, %s), %s, %s, %s)' % (plist(hid(h) for h in o['stored']), lk,
                                                        plist(hid(h) for h in o['arg_stored']), alk, p, cobs, natlit(o['check'])))
    return '(%s, [%s])' % (dag, ';\n   '.join(lits)), ids, nids


# ---------------------------------------------------------------------------- driver
def summarize(steps):
    out = []
    for o in steps:
        s = {'stored': o['stored'], 'locks': o['locks'], 'check': o['check'],
             'plain': {'exit': o['plain']['exit'], 'table': o['plain']['table']},
             'cached': {'exit': o['cached']['exit'], 'table': o['cached']['table'], 'refused': o['cached']['refused'], 'skipped': o['cached']['skipped']}, 'db': o['db'],
             'packed': o['packed'], 'none_stored': o['none_stored'], 'arg_stored': o['arg_stored'], 'arg_locks': o['arg_locks']}
        if 'short' in o:
            s['short'] = o['short']
        out.append(s)
    return out


def run(ck):
    ck.prove()
    ck.trusted_base = core.DEFAULT_TRUSTED_BASE + [
        'C15: the graph handed to the model is what Task.dependencies() of the real objects yields; redis is the in-process '
        'fake; the parsers of the printed status table and of the sqlite cache file; sqlite3 itself',
    ]
    ck.assumptions = ['cached = uncached needs ordered_dag (every dependency created before its consumer: the documented precondition of the status cache); for the other well-formed graphs the model says, and the tie confirms, that the cached command refuses (exit 1, message, no table, no cache)',
                      'cached = uncached only along histories in which results are not removed between calls (the hypothesis '
                      'of the property); jugfile unchanged between cached calls',
                      'store and locks are not modified while a command runs']
    rng = ck.rng
    N = ck.n(420, 2800)
    home = os.environ.get('HOME')
    cases, metas = [], []
    with jugrun.scratch_dir('jugv_c15_') as root:
        os.environ['HOME'] = root
        try:
            for i in range(N):
                backend = BACKENDS[i % len(BACKENDS)]
                size = rng.choice([1, 3, 4, 5, 6, 7, 8, 10] if ck.tier == 'quick' else [1, 3, 5, 6, 8, 10, 12, 14])
                spec = G.Gen(rng, size).gen()
                short = (i % 5 == 4)
                proot = os.path.join(root, 'p%d' % i)
                os.makedirs(proot)
                try:
                    info, otasks, h_of, steps = run_history(spec, backend, proot, rng, short)
                finally:
                    shutil.rmtree(proot, ignore_errors=True)
                    jugrun.fresh()
                meta = {'spec': spec, 'backend': backend, 'short': short, 'graph': info,
                        'history': [[o['stored'], o['locks']] for o in steps], 'observed': summarize(steps)}
                for clause, exp, got in oracle(info, otasks, h_of, steps, bool(spec.get('setdir'))):
                    ck.violation({'kind': 'impl-violation', 'what': 'status/check on %s: %s' % (backend, re.sub(r' at call \d+', '', clause)),
                                  'clause': clause, 'expected': exp, 'observed_value': got, **meta})
                lit, ids, nids = case_lit(info, steps)
                if lit is None:
                    ck.violation({'kind': 'impl-violation', 'what': 'status/check on %s: output not understood' % backend, **meta})
                    continue
                meta['interning'] = {'hashes': ids, 'names': nids}
                # candidate for known finding D27: the jugfile selects its store and some cached table differs from the plain one
                meta['cached_differs'] = bool(spec.get('setdir')) and any(
                    o['plain']['table'] is not None and o['cached']['table'] is not None and o['plain']['table'] != o['cached']['table']
                    for o in steps)
                cases.append(lit)
                metas.append(meta)
                ncols = 0
                closed_all = True
                for o in steps:
                    t = o['plain']['table']
                    if t:
                        ncols = max(ncols, sum(1 for x in t[1] if x))
                        for c, x in zip(CATS, t[1]):
                            if x:
                                ck.count('tasks counted as %s' % c, x)
                    st = set(o['stored'])
                    if any(h in st and any(x not in st for x in deps) for h, _, deps in info):
                        closed_all = False
                    ck.count('check exit %s' % o['check'])
                    ck.count('calls')
                ck.distinct(lit, ncols >= 3)
                ck.count('backend:%s' % backend)
                if spec.get('setdir'):
                    ck.count('jugfile selects its store with jug.set_jugdir (--jugdir names another location)')
                for o in steps:
                    if o['packed']:
                        ck.count('state packed by %s' % o['packed'])
                        if o['none_stored']:
                            ck.count('packed state holding a result that is None')
                ck.count('history length %d' % len(steps))
                if not closed_all:
                    ck.count('history with a state that is not dependency-closed')
                if not G.created_in_order(info):
                    ck.count('graph NOT created in dependency order (container filled after its consumer)')
                if steps and steps[0]['cached']['refused']:
                    ck.count('cached status exited 1: could not build dependency graph')
                if len(set(h for h, _, _ in info)) < len(info):
                    ck.count('graph with two objects of one hash')
                if any(any(s == 'Ready' for _, _, s, _ in (o['db'] or [])) for o in steps[:-1]):
                    ck.count('history in which a cached `ready` is reused')
                if any(any(s == 'Complete' for _, _, s, _ in (o['db'] or [])) for o in steps[:-1]):
                    ck.count('history in which a cached `finished` is reused')
                if len(ck.samples) < 4 and ncols >= 3:
                    ck.sample({'backend': backend, 'tasks': len(info),
                               'tables': [o['plain']['table'][1] if o['plain']['table'] else None for o in steps],
                               'check': [o['check'] for o in steps]})
        finally:
            if home is None:
                os.environ.pop('HOME', None)
            else:
                os.environ['HOME'] = home
            fakeredis.uninstall()
    fails = ck.cases('status', IMPORTS, CASE_TYPE, 'run_case', cases, preamble=PREAMBLE, shard=60)
    for i in (fails or []):
        m = metas[i]
        ck.violation({'kind': 'correspondence', 'what': 'status/check on %s: model and jug disagree' % m['backend'],
                      'coq_case': cases[i], **m})
    if fails is not None:
        # D27 (known finding): cached != uncached on a jugfile that selects its store.  Classified as that finding ONLY when
        # coqc has just confirmed the exact mechanism on this history: every plain table = model on the store the tasks use,
        # every cached table and the cache file = cached_call_dirs, i.e. the model reading the store --jugdir names.
        for i, m in enumerate(metas):
            if m.get('cached_differs') and i not in fails:
                ck.count('D27: cached table differs from the plain one, mechanism confirmed in coqc')
                ck.violation({'kind': 'impl-violation', 'class': D27_CLASS,
                              'what': 'cached status reads the --jugdir store, not the store the jugfile selected', **m})


# ---------------------------------------------------------------------------- replay
def replay(obj):
    spec, backend = obj['spec'], obj['backend']
    hist = [(st, dict((h, v) for h, v in lk)) for st, lk in obj['history']]
    global gen_history
    saved = gen_history
    gen_history = lambda rng, hashes, foreign: hist
    import random
    try:
        with jugrun.scratch_dir('jugv_c15r_') as root:
            home = os.environ.get('HOME')
            os.environ['HOME'] = root
            try:
                info, otasks, h_of, steps = run_history(spec, backend, root, random.Random(obj.get('seed', 0)), obj.get('short', False))
            finally:
                if home is None:
                    os.environ.pop('HOME', None)
                else:
                    os.environ['HOME'] = home
                fakeredis.uninstall()
                jugrun.fresh()
    finally:
        gen_history = saved
    lit, ids, nids = case_lit(info, steps)
    print(G.jugfile_text(spec)[len(G.PRELUDE):])
    print('backend', backend)
    print('tasks ', [(ids[h], n, [ids[x] for x in d]) for h, n, d in info])
    for k, o in enumerate(steps):
        print('call %d: stored %s locks %s' % (k, sorted(ids[h] for h in o['stored']),
                                               [(ids.get(h, h[:6]), v) for h, v in o['locks']]))
        print('   plain  (Failed, Waiting, Ready, Complete, Active):', o['plain']['table'], 'exit', o['plain']['exit'])
        print('   cached (Failed, Waiting, Ready, Complete, Active):', o['cached']['table'], 'exit', o['cached']['exit'])
        print('   check exit', o['check'], ' cache rows', [(s, dl) for _, _, s, dl in (o['db'] or [])],
              ' CACHED STATUS EXITED 1 (could not build dependency graph)' if o['cached']['refused'] else '')
    bad = oracle(info, otasks, h_of, steps, bool(spec.get('setdir')))
    for clause, exp, got in bad:
        print('VIOLATED %s: expected %s observed %s' % (clause, exp, got))
    rc = 1 if bad else 0
    if obj.get('kind') == 'correspondence' and lit is not None:
        ck = core.Check('C15', 'quick', obj.get('seed', 0))
        mrc, out = core.make(['Model/Status.vo', 'Model/CaseLib.vo'])
        fails = ck.cases('replay', IMPORTS, CASE_TYPE, 'run_case', [lit], preamble=PREAMBLE) if mrc == 0 else None
        print('model vs observed:', 'agree' if fails == [] else ('DISAGREE' if fails else 'could not evaluate'))
        if fails != []:
            rc = 1
    if not bad:
        print('the oracle finds nothing wrong on this run')
    return rc
