"""C07, loading: the identifiers of a jugfile's tasks do not depend on HOW or HOW OFTEN the file is loaded.

Runs in a SEPARATE interpreter (its own PYTHONHASHSEED):
    python -m harness.c07load <dir with the jugfiles> <out.json>
Every jugfile <dir>/proj/<name>.py is loaded with the real jug.jug.init several times in THIS process - through a relative
path, the absolute path, ./path, a path with a redundant component, from another working directory, after another jugfile
was loaded in between - and after each load the (task name, identifier) list of jug.task.alltasks and the identifiers of the
tasklets the jugfile defines are recorded."""
import json
import os
import sys

from . import jugrun
import jug
import jug.jug
import jug.task


def snapshot(space):
    tasks = [[t.name, t.hash().decode() if isinstance(t.hash(), bytes) else str(t.hash())] for t in jug.task.alltasks]
    lets = []
    for k in sorted(space):
        v = space[k]
        if isinstance(v, jug.task.Tasklet):
            lets.append([k, v.__jug_hash__().decode()])
    return {'tasks': tasks, 'tasklets': lets}


def load(path, cwd):
    os.chdir(cwd)
    store = jugrun.fresh()
    _, space = jug.jug.init(path, store, on_error='propagate')
    return snapshot(space)


def main():
    root, out = os.path.abspath(sys.argv[1]), sys.argv[2]
    proj = os.path.join(root, 'proj')
    other = os.path.join(root, 'elsewhere')
    names = sorted(f for f in os.listdir(proj) if f.endswith('.py') and not f.startswith('_'))
    res = []
    for nm in names:
        ways = [('relative', nm, proj),
                ('relative again', nm, proj),
                ('absolute', os.path.join(proj, nm), proj),
                ('./relative', './' + nm, proj),
                ('relative after absolute', nm, proj),
                ('from the parent directory', os.path.join('proj', nm), root),
                ('from another directory', os.path.join('..', 'proj', nm), other),
                ('redundant component', os.path.join('..', 'proj', '.', nm), proj),
                ('absolute from elsewhere', os.path.join(proj, nm), other),
                ('relative at last', nm, proj)]
        for k, (how, path, cwd) in enumerate(ways):
            rec = {'jugfile': nm, 'how': how, 'path': path, 'cwd': os.path.relpath(cwd, root), 'nth_load_in_process': len(res) + 1}
            try:
                rec.update(load(path, cwd))
            except BaseException as e:
                rec['error'] = '%s: %s' % (type(e).__name__, e)
            res.append(rec)
    json.dump(res, open(out, 'w'))


if __name__ == '__main__':
    main()
