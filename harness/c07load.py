"""C07, loading: the identifiers of a jugfile's tasks depend neither on HOW or HOW OFTEN the file is loaded, nor on what the
results directory already holds, nor on the process environment.

Runs in a SEPARATE interpreter (its own PYTHONHASHSEED, environment, working directory, umask, argv):
    python -m harness.c07load <plan.json> <out.json> [ignored extra arguments]
plan = {"root": dir, "umask": int|null, "steps": [step, ..]} ; a step is
  {"op": "loads", "dir": <dir with jugfiles, relative to root>}      every jugfile *.py of that directory is loaded with the real
        jug.jug.init ten times in THIS process (relative, absolute, ./, redundant components, from other working directories) into a
        fresh in-memory store; after each load the (task name, identifier) list of jug.task.alltasks and the tasklets are recorded
  {"op": "project", "dir": d, "jugfile": f, "jugdir": j, "ways": [..]}  chdir(root/d); load f against the file store j (relative,
        absolute or ./ path); records for every variable of the jugfile that is a Task / Tasklet / mapped sequence / list of those:
        Task.hash(), __jug_hash__() and hash_one() of it
  {"op": "run", "dir": d, "jugfile": f, "jugdir": j, "only": [task names] | null}   load, then run (in definition order) the tasks
        not yet stored whose name is in `only` (all, if null)
  {"op": "cleanup", "dir": d, "jugfile": f, "jugdir": j}               load, then store.cleanup(the tasks of this load)
  {"op": "generations", "dirs": [d1, d2, ..], "jugfile": f, "reloads": r}   ONE interpreter loads d1/f, then d2/f, .. (the same module
        name every time, r loads each, as `jug execute` re-runs init() after every barrier): after each load the identifiers of the
        jugfile's objects are recorded, then everything of that generation is dropped (module, tasks, gc.collect())"""
import json
import os
import sys

from . import jugrun
import jug
import jug.jug
import jug.task
import jug.mapreduce
from jug.hash import hash_one


def snapshot(space):
    tasks = [[t.name, t.hash().decode() if isinstance(t.hash(), bytes) else str(t.hash())] for t in jug.task.alltasks]
    lets = []
    for k in sorted(space):
        v = space[k]
        if isinstance(v, jug.task.Tasklet):
            lets.append([k, v.__jug_hash__().decode()])
    return {'tasks': tasks, 'tasklets': lets}


def load(path, cwd):
    os.chdir(cwd)
    store = jugrun.fresh()
    _, space = jug.jug.init(path, store, on_error='propagate')
    return snapshot(space)


def loads(root, sub):
    proj = os.path.join(root, sub)
    other = os.path.join(root, 'elsewhere')
    names = sorted(f for f in os.listdir(proj) if f.endswith('.py') and not f.startswith('_'))
    res = []
    for nm in names:
        ways = [('relative', nm, proj),
                ('relative again', nm, proj),
                ('absolute', os.path.join(proj, nm), proj),
                ('./relative', './' + nm, proj),
                ('relative after absolute', nm, proj),
                ('from the parent directory', os.path.join(sub, nm), root),
                ('from another directory', os.path.join('..', sub, nm), other),
                ('redundant component', os.path.join('..', sub, '.', nm), proj),
                ('absolute from elsewhere', os.path.join(proj, nm), other),
                ('relative at last', nm, proj)]
        for how, path, cwd in ways:
            rec = {'jugfile': nm, 'how': how, 'path': path, 'cwd': os.path.relpath(cwd, root), 'nth_load_in_process': len(res) + 1}
            try:
                rec.update(load(path, cwd))
            except BaseException as e:
                rec['error'] = '%s: %s' % (type(e).__name__, e)
            res.append(rec)
    return res


def idents(o):
    """every way the identifier of one object is obtained"""
    d = {}
    if isinstance(o, jug.task.Task):
        d['hash()'] = o.hash()
    if hasattr(o, '__jug_hash__'):
        d['__jug_hash__()'] = o.__jug_hash__()
    d['hash_one()'] = hash_one(o)
    return dict((k, v.decode() if isinstance(v, bytes) else str(v)) for k, v in d.items())


def is_obj(v):
    return isinstance(v, (jug.task.Task, jug.task.Tasklet, jug.mapreduce.block_access, jug.mapreduce.block_access_slice))


def open_project(root, st, way='relative'):
    d = os.path.join(root, st['dir'])
    os.chdir(d)
    jf, jd = st['jugfile'], st['jugdir']
    if way == 'absolute':
        jf, jd = os.path.join(d, jf), os.path.join(d, jd)
    elif way == './relative':
        jf, jd = './' + jf, './' + jd
    del jug.task.alltasks[:]
    store, space = jug.jug.init(jf, jd, on_error='propagate')
    return store, space


def collect(space):
    objs = {}
    for k in sorted(space):
        v = space[k]
        if k.startswith('_'):
            continue
        if is_obj(v):
            objs[k] = idents(v)
        elif isinstance(v, (list, tuple)) and v and all(is_obj(x) for x in v):
            for i, x in enumerate(v):
                objs['%s[%d]' % (k, i)] = idents(x)
    return objs


def generations(root, st):
    import gc
    out = []
    for d in st['dirs']:
        for r in range(st.get('reloads', 1)):
            rec = {'dir': d, 'reload': r, 'nth_load_in_process': len(out) + 1}
            try:
                os.chdir(os.path.join(root, d))
                store = jugrun.fresh()
                _, space = jug.jug.init(st['jugfile'], store, on_error='propagate')
                rec['objects'] = collect(space)
                rec['n_tasks'] = len(jug.task.alltasks)
                modname = st['jugfile'][:-3]
                del space
                sys.modules.pop(modname, None)
                del jug.task.alltasks[:]
                jug.task.Task.store = None
                del store
                gc.collect()
            except BaseException as e:
                rec['error'] = '%s: %s' % (type(e).__name__, e)
            out.append(rec)
    return out


def project(root, st):
    out = []
    for way in st.get('ways', ['relative']):
        rec = {'how': way, 'dir': st['dir'], 'cwd': os.path.join(root, st['dir'])}
        try:
            store, space = open_project(root, st, way)
            objs = {}
            for k in sorted(space):
                v = space[k]
                if k.startswith('_'):
                    continue
                if is_obj(v):
                    objs[k] = idents(v)
                elif isinstance(v, (list, tuple)) and v and all(is_obj(x) for x in v):
                    for i, x in enumerate(v):
                        objs['%s[%d]' % (k, i)] = idents(x)
            rec['objects'] = objs
            rec['n_tasks'] = len(jug.task.alltasks)
            store.close()
        except BaseException as e:
            rec['error'] = '%s: %s' % (type(e).__name__, e)
        out.append(rec)
    return out


def run(root, st):
    store, space = open_project(root, st)
    ran = []
    for t in list(jug.task.alltasks):
        if st.get('only') is not None and t.name not in st['only']:
            continue
        if not t.can_load():
            t.run()
            ran.append(t.name)
    store.close()
    return {'ran': ran}


def cleanup(root, st):
    store, space = open_project(root, st)
    n = store.cleanup(list(jug.task.alltasks), keeplocks=False)
    store.close()
    return {'removed': n}


def main():
    plan = json.load(open(sys.argv[1]))
    root = os.path.abspath(plan['root'])
    if plan.get('umask') is not None:
        os.umask(plan['umask'])
    out = []
    for st in plan['steps']:
        try:
            if st['op'] == 'loads':
                out.append({'op': 'loads', 'records': loads(root, st['dir'])})
            elif st['op'] == 'project':
                out.append({'op': 'project', 'records': project(root, st)})
            elif st['op'] == 'generations':
                out.append({'op': 'generations', 'records': generations(root, st)})
            elif st['op'] == 'run':
                out.append(dict(run(root, st), op='run'))
            elif st['op'] == 'cleanup':
                out.append(dict(cleanup(root, st), op='cleanup'))
        except BaseException as e:
            out.append({'op': st['op'], 'error': '%s: %s' % (type(e).__name__, e)})
    json.dump(out, open(sys.argv[2], 'w'))


if __name__ == '__main__':
    main()
