"""C09 - invalidation removes exactly the results that depend on the target.

Proof: Props/C09.v over Model/Dag.v + Model/Invalidate.v (every well-formed task graph, every
matcher, every store state).
Tie: generated jugfiles (edges arising through plain arguments, keyword arguments, nested
containers, tasklets, task- and tasklet-valued indices, iteratetask, mapped sequences, their
slices and elements, CustomHash, identity, containers handed to a task and filled by LATER statements; duplicate calls) x every function name / dotted name /
regex as target x store states (full, partial and dependency-closed, partial and not closed,
packed, packed by a `jug pack` that was killed after the new pack file was in place but before /
while the result files it replaces were unlinked, re-dumped next to the pack by a worker whose
store object predates the pack - i.e. keys that exist BOTH inside the pack and as a file -, with
foreign keys) x backends (file, packed file, dict with backing file, fake redis):
the REAL `jug invalidate` (CLI main / InvalidateCommand.run) and the REAL shell invalidate() are
run on two copies of the same store, then the REAL `jug execute` on the first.  Observed: the
set of keys handed to remove_many/remove, the set of keys every shell invalidate() removes, the keys
in the store before/after, the printed table, the keys dumped by the following execute.  coqc
evaluates the model on the observed graph (Task.dependencies() of the real objects) and compares.
Search: an oracle that never looks at jug's dependency walk - the syntactic task references of
the generated program, a work-list closure, plain-Python evaluation of the program - checks the
removed set, untouched keys (byte-identical), the re-run set and the values stored afterwards
(the target's functions change their behaviour between the first execute and the invalidation,
so a stale survivor shows up as a wrong value)."""
import contextlib
import hashlib
import json
import os
import pickle
import re
import shutil
import signal
import sys

from . import core
from .core import natlit
from . import jugrun
from . import fakeredis
from . import storefaults
import jug
import jug.jug
import jug.task
import jug.options
import jug.subcommands.invalidate as invalidate_mod
import jug.subcommands.shell as shell_mod
from jug.backends.base import base_store
from jug.backends.file_store import file_store
from jug.backends.dict_store import dict_store
from jug.backends import redis_store as redis_mod

EVIDENCE = dict(
    level='proof',
    rule='one case = (generated jugfile, target, store state, backend): real invalidate (command and shell) + following '
         'execute, compared with the model in coqc; non-trivial when the target matches at least one task and the store '
         'held at least one result; distinct = distinct (interned graph, matched names, keys before)',
    explanation='Coq theorems over the invalidation model (memoised DFS, shell work-list, store effect, closedness, '
                'following execute) + differential evaluation against the real commands on file / packed file / dict / '
                'fake-redis stores + an independent Python oracle (syntactic closure, plain evaluation)',
)

MODNAME = 'c09jugfile'
REDIS_URL = 'redis://localhost/'
BACKENDS = ('file', 'filepack', 'dict', 'redis')
# 'keepalive' (used by C15): the same directory layout read through `file_keepalive:<dir>`; the harness itself writes results
# and lock files with the plain file_store objects, so no monitor process is ever started
FILE_BACKENDS = ('file', 'filepack', 'keepalive')
STATES = ('full', 'partial_closed', 'full', 'partial_open', 'full', 'partial_closed', 'empty', 'partial_open')
EXEC_FLAGS = ['--will-cite', '--nr-wait-cycles', '1', '--wait-cycle-time', '0']


class HarnessError(RuntimeError):
    pass


def hx(k):
    return k.decode('ascii') if isinstance(k, bytes) else str(k)


def bx(k):
    return k.encode('ascii') if isinstance(k, str) else k


# ---------------------------------------------------------------------------- jugfile text
PRELUDE = '''import hashlib
import json
import os
from jug import TaskGenerator, Task, Tasklet
from jug.task import iteratetask
from jug.hash import hash_one
import jug.mapreduce
import jug.utils

_HERE = os.path.dirname(os.path.abspath(__file__))


def _salt(name):
    with open(os.path.join(_HERE, 'salts.json')) as fh:
        return json.load(fh).get(name, 0)


def _flat(o, out):
    if isinstance(o, (list, tuple)):
        out.append('(')
        for x in o:
            _flat(x, out)
        out.append(')')
    elif isinstance(o, dict):
        out.append('{')
        for k in sorted(o):
            out.append(k)
            _flat(o[k], out)
        out.append('}')
    else:
        out.append(repr(o))


def _calc(name, a, k):
    out = []
    _flat([list(a), k], out)
    with open(os.path.join(_HERE, 'calls.log'), 'a') as fh:
        fh.write(name + '\\n')
    return hashlib.sha1(repr((name, _salt(name), out)).encode('ascii')).digest()


def _M(name, a, k):
    h = _calc(name, a, k)
    return [[h[3 * i + j] % 3 for j in range(3)] for i in range(3)]


def _I(name, a, k):
    return _calc(name, a, k)[0] % 3


def _N(name, a, k):
    _calc(name, a, k)
    return None


def wrap(x):
    return (x,)


def _ch(o):
    return hash_one(('custom', o))

'''
# a jugfile may choose its backend itself (documented: jug.set_jugdir); then --jugdir is NOT the store the tasks use
SETDIR = '''with open(os.path.join(_HERE, 'jugdir.txt')) as _fh:
    jug.set_jugdir(_fh.read().strip())

'''

M_FUNCS = ['f1', 'f10', 'f2', 'g', 'gg']
I_FUNCS = ['i1', 'ix']
N_FUNCS = ['nil']                # run for their side effect: the result is None
MAPPERS = ['mp']


def fun_def(name):
    if name in MAPPERS:
        return 'def %s(x):\n    return _I(%r, (x,), {})\n\n' % (name, name)
    kind = '_M' if name in M_FUNCS else '_N' if name in N_FUNCS else '_I'
    return '@TaskGenerator\ndef %s(*a, **k):\n    return %s(%r, a, k)\n\n' % (name, kind, name)


def sl_src(a):
    return '' if a is None else str(a)


def render(e):
    k = e[0]
    if k == 'lit':
        return repr(e[1])
    if k in ('ref', 'mseq', 'cref'):
        return 'v%d' % e[1]
    if k == 'list':
        return '[' + ', '.join(render(x) for x in e[1]) + ']'
    if k == 'tuple':
        return '(' + ''.join(render(x) + ', ' for x in e[1]) + ')'
    if k == 'dict':
        return '{' + ', '.join('%r: %s' % (kk, render(x)) for kk, x in e[1]) + '}'
    if k == 'item':
        return '%s[%s]' % (render(e[1]), render(e[2]))
    if k == 'wrap':
        return 'Tasklet(%s, wrap)' % render(e[1])
    if k == 'iter':
        return 'iteratetask(v%d, 3)[%d]' % (e[1], e[2])
    if k == 'mslice':
        s = 'v%d' % e[1]
        for (a, b, c) in e[2]:
            s += '[%s:%s:%s]' % (sl_src(a), sl_src(b), sl_src(c))
        return s
    if k == 'mitem':
        return 'v%d[%d]' % (e[1], e[2])
    if k == 'custom':
        return 'jug.utils.CustomHash(%s, _ch)' % render(e[1])
    raise ValueError(e)


def jugfile_text(spec):
    out = [PRELUDE]
    if spec.get('setdir'):
        out.append(SETDIR)
    for f in spec['funcs']:
        out.append(fun_def(f))
    for i, s in enumerate(spec['stmts']):
        if s['kind'] == 'task':
            args = [render(a) for a in s['args']] + ['%s=%s' % (k, render(a)) for k, a in s['kwargs']]
            out.append('v%d = %s(%s)\n' % (i, s['fn'], ', '.join(args)))
        elif s['kind'] == 'map':
            out.append('v%d = jug.mapreduce.map(%s, [%s], map_step=%d)\n'
                       % (i, s['fn'], ', '.join(render(a) for a in s['inputs']), s['step']))
        elif s['kind'] == 'ident':
            out.append('v%d = jug.utils.identity(%s)\n' % (i, render(s['arg'])))
        elif s['kind'] == 'cont':
            out.append('v%d = %s\n' % (i, '[]' if s['ctype'] == 'list' else '{}'))
        elif s['kind'] == 'fill':
            c = spec['stmts'][s['cont']]
            if c['ctype'] == 'list':
                out.append('v%d.append(%s)\n' % (s['cont'], render(s['arg'])))
            else:
                out.append('v%d[%r] = %s\n' % (s['cont'], s['key'], render(s['arg'])))
        else:
            raise ValueError(s)
    return ''.join(out)


# ---------------------------------------------------------------------------- the oracle's reading of a program
def nblocks(s):
    n, st = len(s['inputs']), s['step']
    return (n + st - 1) // st


def expr_deps(e, spec, out):
    """task references occurring anywhere in an expression; tasks are ('t', stmt) / ('b', stmt, block)"""
    k = e[0]
    if k == 'lit':
        return
    if k == 'ref':
        out.add(('t', e[1]))
    elif k == 'cref':
        for f in spec['stmts']:
            if f['kind'] == 'fill' and f['cont'] == e[1]:
                expr_deps(f['arg'], spec, out)
    elif k in ('list', 'tuple'):
        for x in e[1]:
            expr_deps(x, spec, out)
    elif k == 'dict':
        for _, x in e[1]:
            expr_deps(x, spec, out)
    elif k == 'item':
        expr_deps(e[1], spec, out)
        expr_deps(e[2], spec, out)
    elif k in ('wrap', 'custom'):
        expr_deps(e[1], spec, out)
    elif k == 'iter':
        out.add(('t', e[1]))
    elif k in ('mseq', 'mslice'):
        for j in range(nblocks(spec['stmts'][e[1]])):
            out.add(('b', e[1], j))
    elif k == 'mitem':
        s = spec['stmts'][e[1]]
        p = e[2] % len(s['inputs'])
        out.add(('b', e[1], p // s['step']))
    else:
        raise ValueError(e)


def oracle_tasks(spec):
    """[(task id, function name as jug names it, salt key, set of direct dependencies)] in creation order"""
    out = []
    for i, s in enumerate(spec['stmts']):
        if s['kind'] == 'task':
            d = set()
            for a in s['args']:
                expr_deps(a, spec, d)
            for _, a in s['kwargs']:
                expr_deps(a, spec, d)
            out.append((('t', i), MODNAME + '.' + s['fn'], s['fn'], d))
        elif s['kind'] == 'ident':
            d = set()
            expr_deps(s['arg'], spec, d)
            out.append((('t', i), 'identity', None, d))
        elif s['kind'] in ('cont', 'fill'):
            pass
        else:
            for j in range(nblocks(s)):
                d = set()
                for a in s['inputs'][j * s['step']:(j + 1) * s['step']]:
                    expr_deps(a, spec, d)
                out.append((('b', i, j), 'jug.mapreduce._jug_map', s['fn'], d))
    return out


def matches(target, name):
    """the three forms of a target, restated with string operations where no regex is asked for"""
    if len(target) >= 2 and target.startswith('/') and target.endswith('/'):
        return re.search(target.strip('/'), name) is not None
    if '.' in target:
        return target in name
    return ('.' + target) in name


def closure(otasks, seeds):
    """everything that depends on a seed: work-list over the reversed syntactic references"""
    rev = {}
    for tid, _, _, deps in otasks:
        for x in deps:
            rev.setdefault(x, []).append(tid)
    seen, todo = set(), list(seeds)
    while todo:
        x = todo.pop()
        if x in seen:
            continue
        seen.add(x)
        todo.extend(rev.get(x, []))
    return seen


def _flat(o, out):
    if isinstance(o, (list, tuple)):
        out.append('(')
        for x in o:
            _flat(x, out)
        out.append(')')
    elif isinstance(o, dict):
        out.append('{')
        for k in sorted(o):
            out.append(k)
            _flat(o[k], out)
        out.append('}')
    else:
        out.append(repr(o))


def calc(name, salts, a, k):
    out = []
    _flat([list(a), k], out)
    return hashlib.sha1(repr((name, salts.get(name, 0), out)).encode('ascii')).digest()


def fn_value(name, salts, a, k):
    h = calc(name, salts, a, k)
    if name in M_FUNCS:
        return [[h[3 * i + j] % 3 for j in range(3)] for i in range(3)]
    if name in N_FUNCS:
        return None
    return h[0] % 3


def evaluate(spec, salts):
    """plain-Python meaning of the program: value of every task, {task id: value}.  Demand driven: a
    container is read with its final content, so a task may use tasks created after it."""
    env, vals = {}, {}
    stmts = spec['stmts']

    def var(i):
        if i in env:
            return env[i]
        s = stmts[i]
        if s['kind'] == 'task':
            v = fn_value(s['fn'], salts, [ev(a) for a in s['args']], dict((k, ev(a)) for k, a in s['kwargs']))
        elif s['kind'] == 'ident':
            v = ev(s['arg'])
        elif s['kind'] == 'map':
            v = [fn_value(s['fn'], salts, (ev(a),), {}) for a in s['inputs']]
        elif s['kind'] == 'cont':
            fills = [f for f in stmts if f['kind'] == 'fill' and f['cont'] == i]
            v = [ev(f['arg']) for f in fills] if s['ctype'] == 'list' else dict((f['key'], ev(f['arg'])) for f in fills)
        else:
            raise ValueError(s)
        env[i] = v
        return v

    def ev(e):
        k = e[0]
        if k == 'lit':
            return e[1]
        if k in ('ref', 'mseq', 'cref'):
            return var(e[1])
        if k == 'list':
            return [ev(x) for x in e[1]]
        if k == 'tuple':
            return tuple(ev(x) for x in e[1])
        if k == 'dict':
            return dict((kk, ev(x)) for kk, x in e[1])
        if k == 'item':
            return ev(e[1])[ev(e[2])]
        if k == 'wrap':
            return (ev(e[1]),)
        if k == 'iter':
            return var(e[1])[e[2]]
        if k == 'mslice':
            v = var(e[1])
            for (a, b, c) in e[2]:
                v = v[a:b:c]
            return v
        if k == 'mitem':
            return var(e[1])[e[2]]
        if k == 'custom':
            return ev(e[1])
        raise ValueError(e)
    for i, s in enumerate(stmts):
        if s['kind'] in ('task', 'ident'):
            vals[('t', i)] = var(i)
        elif s['kind'] == 'map':
            xs = var(i)
            for j in range(nblocks(s)):
                vals[('b', i, j)] = xs[j * s['step']:(j + 1) * s['step']]
    return vals


def calls_of(spec, otask):
    """how many times which user function is called when this task runs"""
    tid, _, fn, _ = otask
    if fn is None:
        return None, 0
    if tid[0] == 'b':
        s = spec['stmts'][tid[1]]
        return fn, len(s['inputs'][tid[2] * s['step']:(tid[2] + 1) * s['step']])
    return fn, 1


# ---------------------------------------------------------------------------- program generator
class Gen:
    def __init__(self, rng, size):
        self.rng = rng
        self.size = size
        self.stmts = []
        self.types = []           # 'M' / 'I' / 'X' (identity) / 'MAP'
        self.funcs = None

    def vars_of(self, *types):
        return [i for i, t in enumerate(self.types) if t in types]

    # -- late-filled containers: `v = []`, `t = f(v)`, `v.append(g(...))`.  The generator keeps the program
    #    acyclic: a fill may not mention anything from which the container can be reached.
    def refs(self, e, out):
        k = e[0]
        if k in ('ref', 'mseq', 'cref', 'iter', 'mslice', 'mitem'):
            out.add(e[1])
        if k in ('list', 'tuple'):
            for x in e[1]:
                self.refs(x, out)
        elif k == 'dict':
            for _, x in e[1]:
                self.refs(x, out)
        elif k == 'item':
            self.refs(e[1], out)
            self.refs(e[2], out)
        elif k in ('wrap', 'custom'):
            self.refs(e[1], out)
        return out

    def stmt_refs(self, i):
        s = self.stmts[i]
        out = set()
        if s['kind'] == 'task':
            for a in s['args']:
                self.refs(a, out)
            for _, a in s['kwargs']:
                self.refs(a, out)
        elif s['kind'] == 'map':
            for a in s['inputs']:
                self.refs(a, out)
        elif s['kind'] == 'ident':
            self.refs(s['arg'], out)
        elif s['kind'] == 'cont':
            for f in self.stmts:
                if f['kind'] == 'fill' and f['cont'] == i:
                    self.refs(f['arg'], out)
        return out

    def reaches(self, src, target):
        seen, todo = set(), [src]
        while todo:
            x = todo.pop()
            if x == target:
                return True
            if x in seen:
                continue
            seen.add(x)
            todo.extend(self.stmt_refs(x))
        return False

    def gen_fill(self, k):
        rng = self.rng
        for _attempt in range(6):
            arg = self.gen_arg(1)
            if not any(self.reaches(x, k) for x in self.refs(arg, set())):
                break
        else:
            arg = ['lit', rng.randrange(5)]
        nfill = sum(1 for f in self.stmts if f['kind'] == 'fill' and f['cont'] == k)
        self.stmts.append({'kind': 'fill', 'cont': k, 'key': 'k%d' % nfill, 'arg': arg})
        self.types.append('F')

    def gen_index(self, depth=1):
        rng = self.rng
        r = rng.random()
        ivars, mvars, maps = self.vars_of('I'), self.vars_of('M'), [i for i in self.vars_of('MAP') if self.stmts[i]['inputs']]
        if r < 0.35 and ivars:
            return ['ref', rng.choice(ivars)]                     # a task-valued index
        if r < 0.55 and mvars and depth > 0:
            return ['item', ['item', ['ref', rng.choice(mvars)], self.gen_index(0)], ['lit', rng.randrange(3)]]
        if r < 0.65 and maps:
            k = rng.choice(maps)
            n = len(self.stmts[k]['inputs'])
            return ['mitem', k, rng.randrange(-n, n)]
        return ['lit', rng.randrange(3)]

    def gen_tasklet(self):
        rng = self.rng
        mvars = self.vars_of('M')
        k = rng.choice(mvars)
        r = rng.random()
        if r < 0.2:
            base = ['iter', k, rng.randrange(3)]
        else:
            base = ['item', ['ref', k], self.gen_index()]
        r = rng.random()
        if r < 0.4:
            return ['item', base, self.gen_index()]
        if r < 0.55:
            return ['wrap', base]
        if r < 0.65:
            return ['wrap', ['ref', k]]
        return base

    def gen_arg(self, depth=2):
        rng = self.rng
        r = rng.random()
        tvars = self.vars_of('M', 'I', 'X')
        mvars = self.vars_of('M')
        maps = self.vars_of('MAP')
        conts = self.vars_of('C')
        if conts and rng.random() < 0.14:
            return ['cref', rng.choice(conts)]
        if not (tvars or maps) or r < 0.10:
            return ['lit', rng.choice([0, 1, 2, 5, 'a', None, 1.5])]
        if r < 0.36 and tvars:
            return ['ref', rng.choice(tvars)]
        if r < 0.55 and mvars:
            return self.gen_tasklet()
        if r < 0.75 and maps:
            k = rng.choice(maps)
            n = len(self.stmts[k]['inputs'])
            r2 = rng.random()
            if r2 < 0.3:
                return ['mseq', k]
            if r2 < 0.45 and n:
                return ['mitem', k, rng.randrange(-n, n)]
            rb = [None] + list(range(-n - 1, n + 2))
            sls = [[rng.choice(rb), rng.choice(rb), rng.choice([None, 1, 2, -1, -2])]]
            if rng.random() < 0.3:
                sls.append([rng.choice([None, 0, 1, -1]), rng.choice([None, 1, 2, -1]), rng.choice([None, 1, -1])])
            return ['mslice', k, sls]
        if not tvars:
            return ['lit', rng.choice([0, 1, 2])]
        if r < 0.80:
            inner = ['ref', rng.choice(tvars)] if rng.random() < 0.6 else ['list', [['ref', rng.choice(tvars)], ['lit', 1]]]
            return ['custom', inner]
        if depth <= 0:
            return ['ref', rng.choice(tvars)]
        n = rng.randint(0, 3)
        r2 = rng.random()
        if r2 < 0.45:
            return ['list', [self.gen_arg(depth - 1) for _ in range(n)]]
        if r2 < 0.7:
            return ['tuple', [self.gen_arg(depth - 1) for _ in range(n)]]
        keys = rng.sample(['a', 'b', 'c'], min(n, 3))
        return ['dict', [[k, self.gen_arg(depth - 1)] for k in keys]]

    def gen(self):
        rng = self.rng
        nm = rng.choice([1, 2, 2, 3])
        pool = list(M_FUNCS)
        mf = rng.sample(pool, nm)
        if rng.random() < 0.35 and 'f1' in mf and 'f10' not in mf:
            mf[-1 if mf[-1] != 'f1' else 0] = 'f10'            # a name that is a prefix of another
            if 'f1' not in mf:
                mf.append('f1')
        if rng.random() < 0.2 and 'g' in mf and 'gg' not in mf:
            mf.append('gg')
        ifs = rng.sample(I_FUNCS, rng.choice([1, 1, 2]))
        nfs = list(N_FUNCS) if rng.random() < 0.3 else []
        use_map = rng.random() < 0.6
        use_cont = rng.random() < 0.45
        self.funcs = mf + ifs + nfs + (['mp'] if use_map else [])
        for _ in range(self.size):
            r = rng.random()
            tasks = [i for i, s in enumerate(self.stmts) if s['kind'] == 'task']
            conts = self.vars_of('C')
            if use_cont and rng.random() < (0.5 if not conts else 0.08):
                self.stmts.append({'kind': 'cont', 'ctype': rng.choice(['list', 'dict'])})
                self.types.append('C')
            elif use_cont and conts and rng.random() < 0.25:
                self.gen_fill(rng.choice(conts))
            elif use_map and r < 0.18:
                n = rng.choice([0, 1, 2, 3, 4, 5, 6])
                inputs = []
                for _j in range(n):
                    r2 = rng.random()
                    tv = self.vars_of('M', 'I')
                    if r2 < 0.25 and tv:
                        inputs.append(['ref', rng.choice(tv)])
                    elif r2 < 0.35 and self.vars_of('M'):
                        inputs.append(self.gen_tasklet())
                    else:
                        inputs.append(['lit', rng.randrange(10)])
                self.stmts.append({'kind': 'map', 'fn': 'mp', 'inputs': inputs, 'step': rng.choice([2, 2, 3])})
                self.types.append('MAP')
            elif r < 0.20 and self.vars_of('M', 'I', 'X'):
                n = rng.randint(1, 3)
                kind = rng.choice(['list', 'tuple'])
                self.stmts.append({'kind': 'ident', 'arg': [kind, [self.gen_arg(1) for _ in range(n)]]})
                self.types.append('X')
            elif r < 0.27 and tasks:
                k = rng.choice(tasks)                               # the same call written again
                self.stmts.append(json.loads(json.dumps(self.stmts[k])))
                self.types.append(self.types[k])
            else:
                fn = rng.choice(mf + ifs + nfs)
                args = [self.gen_arg() for _ in range(rng.choice([0, 1, 1, 2, 2, 3]))]
                kwargs = [[k, self.gen_arg()] for k in rng.sample(['p', 'q'], rng.choice([0, 0, 0, 1, 2]))]
                self.stmts.append({'kind': 'task', 'fn': fn, 'args': args, 'kwargs': kwargs})
                self.types.append('M' if fn in M_FUNCS else 'X' if fn in N_FUNCS else 'I')
        # a container that some task received gets (more) content after that task was created
        for k in self.vars_of('C'):
            used = [i for i in range(len(self.stmts)) if self.stmts[i]['kind'] != 'cont' and k in self.stmt_refs(i)
                    and self.stmts[i]['kind'] != 'fill']
            if used and rng.random() < 0.8:
                for _ in range(rng.choice([1, 1, 2])):
                    fn = rng.choice(mf + ifs)
                    self.stmts.append({'kind': 'task', 'fn': fn, 'args': [self.gen_arg(1)] if rng.random() < 0.6 else [], 'kwargs': []})
                    self.types.append('M' if fn in M_FUNCS else 'I')
                    if self.reaches(len(self.stmts) - 1, k):
                        continue
                    nfill = sum(1 for f in self.stmts if f['kind'] == 'fill' and f['cont'] == k)
                    self.stmts.append({'kind': 'fill', 'cont': k, 'key': 'k%d' % nfill, 'arg': ['ref', len(self.stmts) - 1]})
                    self.types.append('F')
        return {'funcs': self.funcs, 'stmts': self.stmts, 'setdir': rng.random() < 0.15}


def gen_targets(rng, spec, otasks, limit):
    """every function of the program as a bare name, plus dotted names, regexes, and a miss"""
    names = sorted(set(nm for _, nm, _, _ in otasks))
    used = set(s['fn'] for s in spec['stmts'] if s['kind'] == 'task')
    funcs = [f for f in spec['funcs'] if f in used] or [f for f in spec['funcs'] if f not in MAPPERS]
    ts = list(funcs)
    extra = []
    if funcs:
        extra.append(MODNAME + '.' + rng.choice(funcs))
    if any(nm == 'jug.mapreduce._jug_map' for nm in names):
        extra.append(rng.choice(['_jug_map', 'jug.mapreduce._jug_map', 'mapreduce._jug']))
    if any(nm == 'identity' for nm in names):
        extra.append(rng.choice(['/identity/', '/^identity$/']))
    extra.append(rng.choice(['/\\.f\\d+$/', '/\\.[fg]1?$/', '/\\.i/', '/jugfile\\.g/', '/1/']))
    rng.shuffle(ts)
    rng.shuffle(extra)
    if rng.random() < 0.3:
        extra.insert(0, rng.choice(['nosuch', 'c09jugfile.zz', '/^zz/'] + [f for f in spec['funcs'] if f not in used and f not in MAPPERS]))
    out = ts[:max(1, limit - 2)] + extra[:2]
    return out[:limit] if limit < len(out) else out


# ---------------------------------------------------------------------------- real stores
@contextlib.contextmanager
def process_state():
    """jug's entry points edit sys.argv / sys.path / sys.modules / signal handlers / hooks"""
    argv, path = list(sys.argv), list(sys.path)
    mod = sys.modules.get(MODNAME)
    term = signal.getsignal(signal.SIGTERM)
    try:
        yield
    finally:
        sys.argv[:] = argv
        sys.path[:] = path
        if mod is None:
            sys.modules.pop(MODNAME, None)
        else:
            sys.modules[MODNAME] = mod
        try:
            signal.signal(signal.SIGTERM, term)
        except (ValueError, TypeError):
            pass
        from jug.hooks.register import reset_all_hooks
        reset_all_hooks()


def end_process():
    """what the end of a jug process does to the store object it used"""
    st = jug.task.Task.store
    if isinstance(st, dict_store):
        st.close()
    jugrun.fresh()
    jug.task.Task.store = None


def call_main(argv):
    with process_state():
        with jugrun.quiet() as (out, err):
            try:
                jug.jug.main(['jug'] + list(argv))
                code = 'no-exit'
            except SystemExit as e:
                code = e.code
        end_process()
    return code, out.getvalue(), err.getvalue()


class Env:
    """one store; several Envs share the directory of the jugfile"""

    def __init__(self, backend, root, tag, setdir=False):
        self.backend = backend
        self.root = root
        self.tag = tag
        self.setdir = setdir             # the jugfile calls jug.set_jugdir(<this store>); --jugdir names a decoy
        self.jugfile = os.path.join(root, MODNAME + '.py')
        self.jd = os.path.join(root, 'jd_' + tag)
        self.dfile = os.path.join(root, 'dict_%s.pkl' % tag)
        self.srv = fakeredis.FakeServer() if backend == 'redis' else None

    def activate(self):
        if self.srv is not None:
            fakeredis.install(self.srv)
        if self.setdir:
            with open(os.path.join(self.root, 'jugdir.txt'), 'w') as fh:
                fh.write(self.real_arg())

    def open(self):
        self.activate()
        if self.backend in FILE_BACKENDS:
            return file_store(self.jd)
        if self.backend == 'dict':
            return dict_store(self.dfile)
        return redis_mod.redis_store(REDIS_URL)

    def jugdir_arg(self):
        """what goes after --jugdir: the store itself, or a decoy when the jugfile selects the store"""
        self.activate()
        if self.setdir:
            return os.path.join(self.root, 'decoy_' + self.tag)
        return self.real_arg()

    def real_arg(self):
        if self.backend == 'keepalive':
            return 'file_keepalive:' + self.jd
        if self.backend in FILE_BACKENDS:
            return self.jd
        if self.backend == 'dict':
            return 'dict_store:' + self.dfile
        return REDIS_URL

    def clone(self, tag):
        e = Env(self.backend, self.root, tag, self.setdir)
        if self.backend in FILE_BACKENDS:
            if os.path.isdir(self.jd):
                shutil.copytree(self.jd, e.jd)
        elif self.backend == 'dict':
            if os.path.exists(self.dfile):
                shutil.copy(self.dfile, e.dfile)
        else:
            e.srv.data = dict(self.srv.data)
        return e

    def raw(self):
        """{key: digest of the stored bytes}, read without jug's lookup code where possible"""
        out = {}
        if self.backend in FILE_BACKENDS:
            if os.path.isdir(self.jd):
                for d in sorted(os.listdir(self.jd)):
                    p = os.path.join(self.jd, d)
                    if len(d) == 2 and os.path.isdir(p):
                        for fn in sorted(os.listdir(p)):
                            with open(os.path.join(p, fn), 'rb') as fh:
                                out[d + fn] = 'F' + hashlib.sha1(fh.read()).hexdigest()
            if os.path.exists(os.path.join(self.jd, 'packs', 'jugpack')):
                for k, v in storefaults.pack_on_disk(self.jd).items():
                    out[hx(k)] = out.get(hx(k), '') + 'P' + hashlib.sha1(pickle.dumps(v)).hexdigest()
        elif self.backend == 'dict':
            if os.path.exists(self.dfile):
                with open(self.dfile, 'rb') as fh:
                    for k, v in pickle.load(fh).items():
                        if k.startswith(b'result:'):
                            out[hx(k[7:])] = hashlib.sha1(v).hexdigest()
        else:
            for k, v in self.srv.data.items():
                if k.startswith(b'result:'):
                    out[hx(k[7:])] = hashlib.sha1(v).hexdigest()
        return out

    def finish_with(self, store):
        if isinstance(store, dict_store):
            store.close()


@contextlib.contextmanager
def recording():
    """proxy the removal / dump entry points of the three store classes (no in-tree hook)"""
    log = {'remove_many': [], 'remove': [], 'dump': []}
    saved = []

    def patch(cls, name, fn):
        saved.append((cls, name, cls.__dict__.get(name)))
        setattr(cls, name, fn)

    def wrap_many(orig):
        def remove_many(self, names):
            names = list(names)
            log['remove_many'].append([hx(n) for n in names])
            return orig(self, names)
        return remove_many

    def wrap_remove(orig):
        def remove(self, name):
            log['remove'].append(hx(name))
            return orig(self, name)
        return remove

    def wrap_dump(orig):
        def dump(self, obj, name):
            log['dump'].append(hx(name))
            return orig(self, obj, name)
        return dump
    try:
        patch(file_store, 'remove_many', wrap_many(file_store.remove_many))
        patch(base_store, 'remove_many', wrap_many(base_store.remove_many))
        for cls in (file_store, dict_store, redis_mod.redis_store):
            patch(cls, 'remove', wrap_remove(cls.remove))
            patch(cls, 'dump', wrap_dump(cls.dump))
        yield log
    finally:
        for cls, name, old in reversed(saved):
            if old is None:
                delattr(cls, name)
            else:
                setattr(cls, name, old)


def load_tasks(env):
    """load the jugfile as a jug process would; returns (store, tasks)"""
    jugrun.fresh()
    store, _ = jug.jug.init(env.jugfile, env.open())
    return store, list(jug.task.alltasks)


def write_salts(root, salts):
    with open(os.path.join(root, 'salts.json'), 'w') as fh:
        json.dump(salts, fh)


def run_execute(env):
    code, out, err = call_main(['execute', env.jugfile, '--jugdir', env.jugdir_arg()] + EXEC_FLAGS)
    if code not in (None, 0, 'no-exit'):
        raise HarnessError('C09 harness: jug execute failed: %r %s %s' % (code, out[-400:], err[-400:]))


TABLE_ROW = re.compile(r'^\s*(\d+)\s+(\S+)\s*$')


def parse_invalidate_output(out):
    """-> (message kind, {name: count})"""
    if 'No results invalidated.' in out:
        return 'NothingInvalid', {}
    if 'Tasks invalidated, but no results removed' in out:
        return 'NothingRemoved', {}
    counts, inside = {}, False
    for line in out.splitlines():
        if line.startswith('---'):
            inside = True
        elif line.startswith('...'):
            inside = False
        elif inside:
            m = TABLE_ROW.match(line)
            if not m:
                return 'Unparsed', {}
            counts[m.group(2)] = int(m.group(1))
    if 'Invalidated' not in out:
        return 'Unparsed', {}
    return 'Table', counts


class PlainOptions:
    def __init__(self, target):
        self.invalid_name = target
        self.short = False
        self.printed = []

    def print_out(self, *args):
        self.printed.append(' '.join(str(a) for a in args))


# ---------------------------------------------------------------------------- one jugfile: base state
def real_pack(env, how):
    """`jug pack` on a file store: the real update_pack(), run to completion or killed (how = {'mode', 'unlinks'})"""
    s = env.open()
    if how['mode'] == 'killed':
        storefaults.killed_pack(s, env.jd, how['unlinks'])
    else:
        s.update_pack()


def tid_key(t):
    return tuple(t)


def make_plan(rng, spec, state, backend):
    """every random decision of build_base, as data (recorded in the replay)"""
    otasks = oracle_tasks(spec)
    plan = {'pack': None, 'stale': [], 'picks': [], 'back': [], 'foreign': [], 'repack': None}
    if backend == 'filepack' and state != 'empty':
        r = rng.random()
        if r < 0.4:
            plan['pack'] = {'mode': 'complete'}
        elif r < 0.8:
            plan['pack'] = {'mode': 'killed', 'unlinks': rng.choice([0, 0, 1, 2, 4])}
        else:
            # a worker whose store object was created before the pack stores some results again afterwards
            plan['pack'] = {'mode': 'complete'}
            plan['stale'] = [list(tid) for tid, _, _, _ in otasks if rng.random() < 0.5]
    if state in ('partial_closed', 'partial_open') and otasks:
        picks = [tid for tid, _, _, _ in otasks if rng.random() < 0.3] or [rng.choice(otasks)[0]]
        if state == 'partial_closed':
            picks = sorted(closure(otasks, picks))
        plan['picks'] = [list(t) for t in picks]
        if backend == 'filepack' and rng.random() < 0.5:
            # some results come back as plain files next to the pack
            plan['back'] = [list(t) for t in picks if rng.random() < 0.5]
    plan['foreign'] = ['%040x' % rng.getrandbits(160) for _ in range(rng.choice([0, 1, 1, 2]))]
    if plan['foreign'] and backend == 'filepack' and rng.random() < 0.5:
        plan['repack'] = {'mode': 'killed', 'unlinks': 0} if (plan['pack'] or {}).get('mode') == 'killed' else {'mode': 'complete'}
    return plan


def build_base(spec, state, backend, root, plan):
    """write the jugfile, run the real execute, then carve the requested store state as the plan says"""
    env = Env(backend, root, 'base', bool(spec.get('setdir')))
    with open(env.jugfile, 'w') as fh:
        fh.write(jugfile_text(spec))
    write_salts(root, {})
    env.activate()
    with process_state():
        store, tasks = load_tasks(env)
        info = [(hx(t.hash()), t.name, [hx(d.hash()) for d in t.dependencies()]) for t in tasks]
        env.finish_with(store)
        end_process()
    otasks = oracle_tasks(spec)
    if len(otasks) != len(info):
        raise HarnessError('C09 harness: the jugfile defines %d tasks, the generator expected %d' % (len(info), len(otasks)))
    for (tid, nm, _, _), (h, name, _) in zip(otasks, info):
        if nm != name:
            raise HarnessError('C09 harness: task %r is named %r, expected %r' % (tid, name, nm))
    hashes = [h for h, _, _ in info]
    h_of = dict((tid, h) for (tid, _, _, _), h in zip(otasks, hashes))
    vals = None
    if state != 'empty':
        stale = env.open() if plan['stale'] else None        # a store object from before the pack: its .packed stays {}
        run_execute(env)
        if plan['pack']:
            real_pack(env, plan['pack'])
        if plan['stale']:
            vals = evaluate(spec, {})
            for tid in map(tid_key, plan['stale']):
                stale.dump(vals[tid], bx(h_of[tid]))
    gone = set(h_of[tid_key(t)] for t in plan['picks'])
    if gone:
        s = env.open()
        for h in sorted(gone):
            s.remove(bx(h))
        env.finish_with(s)
        back = set(h_of[tid_key(t)] for t in plan['back'])
        if back:
            vals = vals or evaluate(spec, {})
            s = env.open()
            for tid, h in h_of.items():
                if h in back:
                    s.dump(vals[tid], bx(h))
    foreign = list(plan['foreign'])
    if foreign:
        s = env.open()
        for k in foreign:
            s.dump(('foreign', k[:6]), bx(k))
        env.finish_with(s)
        if plan['repack']:
            real_pack(env, plan['repack'])
    return env, info, otasks, h_of, foreign


# ---------------------------------------------------------------------------- one case: a target on a copy of the base
def run_target(spec, base, info, otasks, h_of, target, tag, driver):
    """Returns the observation dict; raises HarnessError only for harness problems."""
    obs = {'target': target, 'driver': driver}
    names = sorted(set(nm for _, nm, _ in info))
    matched_names = [nm for nm in names if matches(target, nm)]
    obs['matched_names'] = matched_names
    old_salts = {}
    new_salts = {}
    for tid, nm, fn, _ in otasks:
        if nm in matched_names and fn is not None:
            new_salts[fn] = 1
    a = base.clone(tag + 'a')
    b = base.clone(tag + 'b')
    before = a.raw()
    obs['before'] = sorted(before)
    obs['both'] = sorted(k for k, v in before.items() if v.startswith('F') and 'P' in v)     # packed AND a file
    write_salts(base.root, new_salts)               # the target's code changes now
    # ---- the command
    a.activate()
    with recording() as log:
        if driver == 'cli':
            code, out, err = call_main(['invalidate', a.jugfile, '--jugdir', a.jugdir_arg(), '--target', target])
            if code not in (None, 0, 'no-exit'):
                obs['cli_error'] = 'exit %r: %s %s' % (code, out[-300:], err[-300:])
        else:
            with process_state():
                with jugrun.quiet() as (o, e):
                    store, tasks = load_tasks(a)
                    opts = PlainOptions(target)
                    try:
                        invalidate_mod.invalidate.run(store=store, options=opts)
                    except Exception as ex:        # the command under test raised
                        obs['cli_error'] = '%s: %s' % (type(ex).__name__, str(ex)[:200])
                    a.finish_with(store)
                    end_process()
            out = '\n'.join(opts.printed)
    obs['remove_many'] = log['remove_many']
    # the property is about the SET removed: every key handed to remove_many() or remove() during the command,
    # in whatever order, grouping or multiplicity the command chose
    obs['removed_keys'] = sorted(set(k for l in log['remove_many'] for k in l) | set(log['remove']))
    obs['msg'], obs['table'] = parse_invalidate_output(out)
    obs['output'] = out[-600:]
    after_a = a.raw()
    obs['cli_after'] = sorted(after_a)
    obs['cli_changed'] = sorted(k for k in after_a if before.get(k) != after_a[k])
    # ---- the shell, on the other copy: invalidate(t) for every task whose name matches
    b.activate()
    sess = []
    with recording() as log:
        with process_state():
            with jugrun.quiet():
                store, tasks = load_tasks(b)
                reverse = {}
                for t in tasks:
                    if t.name in matched_names:
                        n0 = len(log['remove'])
                        try:
                            shell_mod.invalidate(tasks, reverse, t)
                        except Exception as ex:
                            obs['shell_error'] = '%s: %s' % (type(ex).__name__, str(ex)[:200])
                        sess.append([hx(t.hash()), log['remove'][n0:]])
                b.finish_with(store)
                end_process()
    obs['shell'] = sess
    after_b = b.raw()
    obs['shell_after'] = sorted(after_b)
    obs['shell_changed'] = sorted(k for k in after_b if before.get(k) != after_b[k])
    # ---- the following execute, on the command's copy
    a.activate()
    calls = os.path.join(base.root, 'calls.log')
    if os.path.exists(calls):
        os.unlink(calls)
    with recording() as log:
        try:
            run_execute(a)
        except HarnessError as ex:
            obs['exec_error'] = str(ex)[:300]
    obs['executed'] = log['dump']
    fcalls = {}
    if os.path.exists(calls):
        with open(calls) as fh:
            for line in fh:
                fcalls[line.strip()] = fcalls.get(line.strip(), 0) + 1
    obs['calls'] = fcalls
    final = a.raw()
    obs['final'] = sorted(final)
    obs['exec_changed'] = sorted(k for k in after_a if final.get(k) != after_a[k])
    # values stored afterwards
    a.activate()
    s = a.open()
    vals = {}
    for tid, h in h_of.items():
        try:
            vals[h] = s.load(bx(h)) if s.can_load(bx(h)) else ('<missing>',)
        except Exception as ex:
            vals[h] = ('<unloadable %s>' % type(ex).__name__,)
    a.finish_with(s)
    obs['values'] = vals
    obs['new_salts'] = new_salts
    write_salts(base.root, old_salts)
    for e in (a, b):
        if e.backend in ('file', 'filepack'):
            shutil.rmtree(e.jd, ignore_errors=True)
        elif e.backend == 'dict' and os.path.exists(e.dfile):
            os.unlink(e.dfile)
    return obs


# ---------------------------------------------------------------------------- oracle on one observation
def norm(v):
    if isinstance(v, tuple):
        return ['tuple'] + [norm(x) for x in v]
    if isinstance(v, list):
        return [norm(x) for x in v]
    if isinstance(v, dict):
        return dict((k, norm(x)) for k, x in v.items())
    return v


def oracle(spec, info, otasks, h_of, foreign, obs):
    """[(clause, expected, observed)] - the property, evaluated without jug's dependency walk"""
    bad = []
    for k in ('cli_error', 'shell_error', 'exec_error'):
        if k in obs:
            bad.append((k, 'no exception', obs[k]))
    # the dependency walk agrees with the syntactic references
    for (tid, _, _, deps), (h, _, real) in zip(otasks, info):
        if set(real) != set(h_of[x] for x in deps):
            bad.append(('dependencies of %s' % (tid,), sorted(h_of[x] for x in deps), sorted(set(real))))
    seeds = [tid for tid, nm, _, _ in otasks if nm in obs['matched_names']]
    inv = set(h_of[t] for t in closure(otasks, seeds))
    before = set(obs['before'])
    exp_after = before - inv
    if set(obs['cli_after']) != exp_after:
        bad.append(('store after the command', sorted(exp_after), obs['cli_after']))
    if set(obs['shell_after']) != exp_after:
        bad.append(('store after the shell session', sorted(exp_after), obs['shell_after']))
    if set(obs['cli_after']) != set(obs['shell_after']):
        bad.append(('command and shell leave the same keys', obs['cli_after'], obs['shell_after']))
    if obs['cli_changed'] or obs['shell_changed']:
        bad.append(('untouched results are byte-identical', [], obs['cli_changed'] + obs['shell_changed']))
    allh = set(h for h, _, _ in info)
    exp_run = sorted(h for h in allh if h not in exp_after)
    if sorted(obs['executed']) != exp_run:
        bad.append(('tasks run by the following execute', exp_run, sorted(obs['executed'])))
    if obs['exec_changed']:
        bad.append(('execute leaves the surviving results alone', [], obs['exec_changed']))
    exp_final = exp_after | allh
    if set(obs['final']) != exp_final:
        bad.append(('store after the execute', sorted(exp_final), obs['final']))
    exp_calls = {}
    done = set()
    for ot in otasks:
        h = h_of[ot[0]]
        if h in exp_after or h in done:
            continue
        done.add(h)
        fn, n = calls_of(spec, ot)
        if fn is not None and n:
            exp_calls[fn] = exp_calls.get(fn, 0) + n
    if obs['calls'] != exp_calls:
        bad.append(('function calls during the execute', exp_calls, obs['calls']))
    vals = evaluate(spec, obs['new_salts'])
    for tid, h in sorted(h_of.items(), key=lambda kv: kv[1]):
        if norm(obs['values'].get(h)) != norm(vals[tid]):
            bad.append(('value of %s after invalidate + execute' % (tid,), norm(vals[tid]), norm(obs['values'].get(h))))
            break
    for k in foreign:
        if k not in obs['final']:
            bad.append(('foreign key survives', k, 'gone'))
    return bad


# ---------------------------------------------------------------------------- Coq rendering
PREAMBLE = '''
Open Scope positive_scope.
Definition msg_eqb (a b : cli_msg) : bool :=
  match a, b with
  | NothingInvalid, NothingInvalid | NothingRemoved, NothingRemoved | Table, Table => true
  | _, _ => false
  end.
Definition c09obs := (list tid * list tid * list (fname * nat) * cli_msg          (* keys handed to remove_many/remove, keys after, table, message *)
                      * list (tid * list tid) * list tid                        (* shell: (seed, remove() calls); keys after *)
                      * list tid)%type.                                          (* keys dumped by the following execute *)
Definition run_case (c : dag * list fname * list tid * c09obs) : bool :=
  match c with
  | (d, ms, before, (rm, cli_after, table, msg, sess, shell_after, execd)) =>
    let m := fun nm => mem nm ms in
    let st := st_of before in
    wf_dagb d &&
    (* the command: the SET of keys it asks the store to remove (order, grouping, multiplicity are its business) *)
    seteq_b rm (cli_invalid d m) &&
    seteq_b (filter (cli_store d m st) before) cli_after &&
    forallb (fun p => Nat.eqb (cli_count d m st (fst p)) (snd p)) table &&
    msg_eqb (cli_message d m st) msg &&
    (* the shell: one invalidate() per matching task (the harness's own calls), the SET of keys each removes *)
    list_eqb Pos.eqb (seeds_of d m) (map fst sess) &&
    forallb (fun p => seteq_b (shell_invalid d (fst p)) (snd p)) sess &&
    seteq_b (filter (shell_store d (seeds_of d m) st) before) shell_after &&
    (* the following execute *)
    seteq_b (exec_log d (cli_store d m st)) execd &&
    Nat.eqb (List.length (exec_log d (cli_store d m st))) (List.length execd)
  end.'''
CASE_TYPE = 'dag * list fname * list tid * c09obs'
IMPORTS = 'From JugV Require Import Model.Dag Model.Invalidate.'


def plist(xs):
    return '[' + ';'.join(str(x) for x in xs) + ']'


def intern_case(info, obs):
    ids, nids = {}, {}

    def hid(h):
        if h not in ids:
            ids[h] = len(ids) + 1
        return ids[h]

    def nid(n):
        if n not in nids:
            nids[n] = len(nids) + 1
        return nids[n]
    for h, name, deps in info:
        hid(h)
        nid(name)
        for x in deps:
            hid(x)
    for k in obs['before'] + obs['cli_after'] + obs['shell_after'] + obs['executed']:
        hid(k)
    for k in obs['removed_keys']:
        hid(k)
    for seed, l in obs['shell']:
        hid(seed)
        for k in l:
            hid(k)
    return ids, nids, hid, nid


def case_lit(info, obs):
    ids, nids, hid, nid = intern_case(info, obs)
    dag = '[' + ';'.join('(%d,%d,%s)' % (hid(h), nid(n), plist(hid(x) for x in deps)) for h, n, deps in info) + ']'
    names = sorted(set(n for _, n, _ in info))
    table = '[' + ';'.join('(%d,%s)' % (nid(n), natlit(obs['table'].get(n, 0))) for n in names) + ']'
    extra = [n for n in obs['table'] if n not in names]
    msg = obs['msg'] if (obs['msg'] in ('NothingInvalid', 'NothingRemoved', 'Table') and not extra) else None
    if msg is None:
        return None, ids, nids
    sess = '[' + ';'.join('(%d,%s)' % (hid(s), plist(hid(k) for k in l)) for s, l in obs['shell']) + ']'
    o = '(%s, %s, %s, %s, %s, %s, %s)' % (
        plist(hid(k) for k in obs['removed_keys']),
        plist(hid(k) for k in obs['cli_after']), table, msg, sess,
        plist(hid(k) for k in obs['shell_after']), plist(hid(k) for k in obs['executed']))
    lit = '(%s, %s, %s, %s)' % (dag, plist(nid(n) for n in obs['matched_names']), plist(hid(k) for k in obs['before']), o)
    return lit, ids, nids


# ---------------------------------------------------------------------------- driver
def summarize(obs):
    return dict((k, obs[k]) for k in ('target', 'driver', 'matched_names', 'before', 'both', 'remove_many', 'removed_keys', 'msg', 'table',
                                      'cli_after', 'shell', 'shell_after', 'executed', 'calls', 'final', 'output')
                if k in obs)


def run_program(ck, spec, state, backend, rng, root, ntargets, cases, metas, stats):
    plan = make_plan(rng, spec, state, backend)
    base, info, otasks, h_of, foreign = build_base(spec, state, backend, root, plan)
    targets = gen_targets(rng, spec, otasks, ntargets)
    for ti, target in enumerate(targets):
        driver = ('cli', 'direct')[(stats['n'] // 3) % 2]
        if spec.get('setdir'):
            driver = 'cli'                 # the point of the variant is the command-line path: main() -> init() -> command
        stats['n'] += 1
        obs = run_target(spec, base, info, otasks, h_of, target, 't%d' % ti, driver)
        meta = {'spec': spec, 'state': state, 'backend': backend, 'plan': plan, 'target': target, 'driver': driver,
                'graph': info, 'observed': summarize(obs)}
        for clause, exp, got in oracle(spec, info, otasks, h_of, foreign, obs):
            ck.violation({'kind': 'impl-violation', 'what': 'invalidate on %s: %s' % (backend, clause.split(' of (')[0]),
                          'clause': clause, 'expected': exp, 'observed_value': got, **meta})
        lit, ids, nids = case_lit(info, obs)
        if lit is None:
            ck.violation({'kind': 'impl-violation', 'what': 'invalidate printed something unexpected', **meta})
            continue
        meta['interning'] = {'hashes': ids, 'names': nids}
        cases.append(lit)
        metas.append(meta)
        inv_n = len(obs['removed_keys'])
        ck.distinct(lit, bool(obs['matched_names']) and bool(obs['before']))
        ck.count('backend:%s' % backend)
        if spec.get('setdir'):
            ck.count('jugfile selects its store with jug.set_jugdir (--jugdir names another location)')
        if any(st['kind'] == 'task' and st['fn'] in N_FUNCS for st in spec['stmts']):
            ck.count('program with tasks whose result is None')
        ck.count('state:%s' % state)
        ck.count('driver:%s' % driver)
        ck.count('target:%s' % ('regex' if target.startswith('/') else 'dotted' if '.' in target else 'bare'))
        ck.count('message:%s' % obs['msg'])
        if backend == 'filepack':
            ck.count('pack:%s%s' % ((plan['pack'] or {'mode': 'none'})['mode'], '+stale re-dump' if plan['stale'] else ''))
        if obs['both']:
            ck.count('state:key both packed and a file')
            if set(obs['both']) & set(obs['removed_keys']):
                ck.count('state:invalidated key both packed and a file')
        ck.count('invalid tasks:%s' % ('0' if inv_n == 0 else '1-2' if inv_n <= 2 else '3-5' if inv_n <= 5 else '6+'))
        if inv_n and inv_n < len(info):
            ck.count('proper subset of the tasks invalidated')
        if len(set(h for h, _, _ in info)) < len(info):
            ck.count('graph with two objects of one hash')
        if not created_in_order(info):
            ck.count('graph NOT created in dependency order (container filled after its consumer)')
        if len(ck.samples) < 4 and inv_n and ti == 0:
            ck.sample({'backend': backend, 'state': state, 'target': target, 'tasks': len(info),
                       'invalidated': inv_n, 'executed afterwards': len(obs['executed']), 'message': obs['msg']})
    for e in (base,):
        if e.backend in ('file', 'filepack'):
            shutil.rmtree(e.jd, ignore_errors=True)


def created_in_order(info):
    seen = set()
    for h, _, deps in info:
        if any(x not in seen for x in deps):
            return False
        seen.add(h)
    return True


def count_edges(ck, spec):
    def walk(e):
        k = e[0]
        if k in ('list', 'tuple'):
            ck.count('edge via container')
            for x in e[1]:
                walk(x)
        elif k == 'dict':
            ck.count('edge via container')
            for _, x in e[1]:
                walk(x)
        elif k == 'item':
            ck.count('edge via tasklet')
            if e[2][0] != 'lit':
                ck.count('edge via task- or tasklet-valued index')
            walk(e[1])
            walk(e[2])
        elif k in ('wrap', 'iter'):
            ck.count('edge via tasklet')
            if k == 'wrap':
                walk(e[1])
        elif k == 'custom':
            ck.count('edge via CustomHash')
            walk(e[1])
        elif k == 'mseq':
            ck.count('edge via mapped sequence')
        elif k == 'mslice':
            ck.count('edge via slice of mapped sequence')
        elif k == 'mitem':
            ck.count('edge via element of mapped sequence')
        elif k == 'ref':
            ck.count('edge via plain argument')
        elif k == 'cref':
            ck.count('edge via a container variable filled by later statements')
    for s in spec['stmts']:
        if s['kind'] == 'task':
            for a in s['args']:
                walk(a)
            for _, a in s['kwargs']:
                ck.count('edge via keyword argument')
                walk(a)
        elif s['kind'] == 'map':
            for a in s['inputs']:
                walk(a)
        elif s['kind'] in ('ident', 'fill'):
            walk(s['arg'])


def run(ck):
    ck.prove()
    ck.trusted_base = core.DEFAULT_TRUSTED_BASE + [
        'C09: the graph handed to the model is what Task.dependencies() of the real objects yields (its agreement with the '
        'syntactic references is checked by the oracle here and proved in C03/C16); redis is the in-process fake; the '
        'target matcher is an oracle (re-stated in the harness, compared through the removed sets)',
    ]
    ck.assumptions = ['wf_dag (every dependency is a task of the jugfile, equal hash => equal name and dependency set, acyclic - in ANY creation order): '
                      'checked on every observed graph by wf_dagb inside coqc',
                      'the store is not modified concurrently with the command']
    rng = ck.rng
    N = ck.n(200, 1100)
    ntargets = ck.n(4, 6)
    home = os.environ.get('HOME')
    cases, metas = [], []
    stats = {'n': 0}
    with jugrun.scratch_dir('jugv_c09_') as root:
        os.environ['HOME'] = root
        try:
            for i in range(N):
                backend = BACKENDS[i % 4]
                state = STATES[(i // 4) % len(STATES)]
                size = rng.choice([2, 4, 5, 6, 7, 8, 10] if ck.tier == 'quick' else [2, 4, 6, 8, 10, 12, 14])
                spec = Gen(rng, size).gen()
                count_edges(ck, spec)
                proot = os.path.join(root, 'p%d' % i)
                os.makedirs(proot)
                try:
                    run_program(ck, spec, state, backend, rng, proot, ntargets, cases, metas, stats)
                finally:
                    shutil.rmtree(proot, ignore_errors=True)
                    jugrun.fresh()
        finally:
            if home is None:
                os.environ.pop('HOME', None)
            else:
                os.environ['HOME'] = home
            fakeredis.uninstall()
    fails = ck.cases('invalidate', IMPORTS, CASE_TYPE, 'run_case', cases, preamble=PREAMBLE, shard=150)
    for i in (fails or []):
        m = metas[i]
        ck.violation({'kind': 'correspondence', 'what': 'invalidate on %s: model and jug disagree' % m['backend'],
                      'coq_case': cases[i], **m})


# ---------------------------------------------------------------------------- replay
def replay(obj):
    spec, state, backend, target = obj['spec'], obj['state'], obj['backend'], obj['target']
    import random
    rng = random.Random(obj.get('seed', 0))
    with jugrun.scratch_dir('jugv_c09r_') as root:
        home = os.environ.get('HOME')
        os.environ['HOME'] = root
        try:
            plan = obj.get('plan') or make_plan(rng, spec, state, backend)
            base, info, otasks, h_of, foreign = build_base(spec, state, backend, root, plan)
            obs = run_target(spec, base, info, otasks, h_of, target, 'r', obj.get('driver', 'cli'))
        finally:
            if home is None:
                os.environ.pop('HOME', None)
            else:
                os.environ['HOME'] = home
            fakeredis.uninstall()
            jugrun.fresh()
    print(jugfile_text(spec)[len(PRELUDE):])
    print('backend %s  state %s  target %r  matched names %s' % (backend, state, target, obs['matched_names']))
    lit, ids, nids = case_lit(info, obs)
    sh = lambda l: sorted(ids.get(k, k) for k in l)
    print('tasks        ', [(ids[h], n, [ids[x] for x in d]) for h, n, d in info])
    print('store built  ', plan)
    print('before       ', sh(obs['before']), ' both in the pack and a file:', sh(obs['both']))
    print('remove_many  ', [[ids[k] for k in l] for l in obs['remove_many']], ' message', obs['msg'], obs['table'])
    print('after command', sh(obs['cli_after']))
    print('shell        ', [(ids[s], [ids[k] for k in l]) for s, l in obs['shell']])
    print('after shell  ', sh(obs['shell_after']))
    print('executed     ', [ids[k] for k in obs['executed']], obs['calls'])
    bad = oracle(spec, info, otasks, h_of, foreign, obs)
    for clause, exp, got in bad:
        print('VIOLATED %s: expected %s observed %s' % (clause, exp, got))
    rc = 1 if bad else 0
    if obj.get('kind') == 'correspondence' and lit is not None:
        ck = core.Check('C09', 'quick', obj.get('seed', 0))
        mrc, out = core.make(['Model/Invalidate.vo', 'Model/CaseLib.vo'])
        fails = ck.cases('replay', IMPORTS, CASE_TYPE, 'run_case', [lit], preamble=PREAMBLE) if mrc == 0 else None
        print('model vs observed:', 'agree' if fails == [] else ('DISAGREE' if fails else 'could not evaluate'))
        if fails != []:
            rc = 1
    if not bad:
        print('the oracle finds nothing wrong on this run')
    return rc
