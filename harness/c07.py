"""C07 - a task's identifier is a deterministic function of its name and argument values.

Proof: Props/C07.v over Model/Hash.v (+ abstract digest in Proofs/HashFacts.v).
Tie: every generated value is realised as Python objects in separate interpreter processes with
different PYTHONHASHSEED / insertion orders / array layouts / sharing; the chunks the real code feeds
to sha1 are recorded and must equal the model's stream (evaluated in coqc).
Search: same value, different process/seed/realisation => identical identifier; and the identifier computed in an
interpreter that has hashed many other values before equals the one computed in an interpreter that has hashed nothing
(each spec once more in a forked child of a pristine process).
Loading: small jugfiles (functions, TaskGenerators, keyword / set / dict / array arguments, tasklets, a mapped sequence) are loaded
with the real jug.jug.init many times in one interpreter - relative, absolute, ./, redundant path components, from other working
directories, interleaved with another jugfile - and in fresh interpreters with different PYTHONHASHSEED: the (task name, identifier)
lists must all be the same (harness/c07load.py)."""
import random

from . import core
from . import hashgen

EVIDENCE = dict(
    level='proof',
    rule='cases = generated value/invocation specs (nested containers, sets, dicts, arrays of all layouts, tasks, tasklets, '
         'mapped sequences, hash wrappers, instances of subclasses of the built-in containers / scalars / ndarray), each realised in k interpreter processes with different PYTHONHASHSEED (one after the other) '
         'and once in an interpreter that has computed no other identifier; '
         'non-trivial = the spec contains at least one container/array/task node (more than one node); distinct = distinct specs',
    explanation='Coq: the digest is invariant under permutation of set/frozenset/dict children and array layout (for any sha1 stand-in H); '
                'tie: recorded sha1.update chunk sequence of the real code == model stream',
)


def gen_specs(ck, n):
    specs = []
    for i in range(n):
        r = ck.rng.random()
        if r < 0.5:
            specs.append(hashgen.gen_invocation(ck.rng, 3))
        else:
            specs.append(hashgen.gen_value(ck.rng, 3))
    # corpus of past / designed failures runs first
    corpus = [
        ['frozenset', [['leaf', "'p'"], ['leaf', "'q'"], ['leaf', "'r'"]]],
        ['task', 'f', [['frozenset', [['leaf', "'p'"], ['leaf', "'q'"], ['leaf', "'r'"]]]], []],
        ['objarray', [2], [['leaf', "'s'"], ['list', [['leaf', '1']]]]],
        ['task', 'f', [['objarray', [2, 2], [['leaf', "'s'"], ['leaf', '1'], ['leaf', 'None'], ['tuple', []]]]], []],
        ['dict', [[['leaf', "'a'"], ['leaf', '1']], [['leaf', "'b'"], ['set', [['leaf', "'u'"], ['leaf', "'v'"]]]]]],
        ['array', 'float64', [2, 3], [1, 2, 3, 4, 5, 6]],
        ['set', [['frozenset', [['leaf', "'a'"], ['leaf', "'b'"]]], ['leaf', "'c'"], ['tuple', [['leaf', '1']]]]],
        ['lambda', ['task', 'g', [], []], 'la'],
        ['mapslice', ['mapseq', 'm1', ['1', '2', '3', '4', '5'], 2], 1, 4, 1],
        # record / sub-array dtypes in every layout, big-endian data, chains of tasklets (return_tuple, iteratetask)
        ['rawarray', [['x', '<i4'], ['y', '<f4']], [2, 3], '000102030405060708090a0b0c0d0e0f101112131415161718191a1b1c1d1e1f202122232425262728292a2b2c2d2e2f'],
        ['task', 'f', [['rawarray', [['x', '<i2', [2]], ['p', [['y', '>i4']]]], [3, 2], '000102030405060708090a0b0c0d0e0f101112131415161718191a1b1c1d1e1f202122232425262728292a2b2c2d2e2f']], []],
        ['rawarray', '>f8', [2, 3], '000102030405060708090a0b0c0d0e0f101112131415161718191a1b1c1d1e1f202122232425262728292a2b2c2d2e2f'],
        ['task', 'f', [['getitem', ['rettuple', ['task', 'g', [['set', [['leaf', "'u'"], ['leaf', "'v'"]]]], []], 1, 2], ['leaf', '0']],
                       ['iter', ['getitem', ['task', 'g', [], []], ['leaf', "'a'"]], 1, 3]], []],
        # instances of subclasses of the dispatched types (pickled whole): positional, keyword, nested
        ['task', 'f', [['sub', 'OrderedDict', ['dict', [[['leaf', "'b'"], ['leaf', '2']], [['leaf', "'a'"], ['leaf', '1']]]]]],
         [['a', ['sub', 'defaultdict_list', ['dict', [[['leaf', "'k'"], ['list', [['leaf', '1']]]]]]]]]],
        ['list', [['sub', 'Counter', ['dict', [[['leaf', "'a'"], ['leaf', '1']]]]], ['sub', 'Point', ['tuple', [['leaf', '1'], ['leaf', '2']]]],
                  ['sub', 'MySet', ['set', [['leaf', '2'], ['leaf', '1']]]], ['sub', 'MyStr', ['leaf', "'ab'"]]]],
        ['dict', [[['leaf', "'m'"], ['sub', 'masked1', ['array', 'int32', [2, 2], [1, 2, 3, 4]]]], [['leaf', "'r'"], ['sub', 'recarray', ['array', 'float64', [3], [1, 2, 3]]]]]],
        # elements that are only partially ordered (frozensets: <= is inclusion), lambdas whose constants are containers
        ['set', [['frozenset', [['leaf', "'a'"]]], ['frozenset', [['leaf', "'b'"]]], ['frozenset', [['leaf', "'c'"]]], ['frozenset', [['leaf', "'a'"], ['leaf', "'b'"]]]]],
        ['task', 'f', [['frozenset', [['frozenset', [['leaf', "'u'"]]], ['frozenset', [['leaf', "'v'"]]], ['frozenset', [['leaf', "'w'"]]]]]], []],
        ['lambda', ['task', 'g', [], []], 'lin'],
        ['task', 'f', [['lambda', ['task', 'g', [], []], 'ltup']], []],
        # known finding D24, one value per sub-case: set subclass of strings (hash seed), ndarray subclass (layout), Counter (insertion order)
        ['sub', 'MySet', ['set', [['leaf', "'p'"], ['leaf', "'q'"], ['leaf', "'r'"]]]],
        ['task', 'f', [['sub', 'recarray', ['array', 'float64', [2, 3], [1, 2, 3, 4, 5, 6]]]], []],
        ['task', 'f', [], [['a', ['sub', 'Counter', ['dict', [[['leaf', "'a'"], ['leaf', '1']], [['leaf', "'b'"], ['leaf', '2']], [['leaf', "'c'"], ['leaf', '3']]]]]]]],
        # ==-equal scalars of different types as dict keys / set elements of consecutive values
        ['task', 'f', [['dict', [[['leaf', '1'], ['leaf', '10']], [['leaf', '2'], ['leaf', '20']]]]], []],
        ['task', 'g', [['dict', [[['leaf', '1.0'], ['leaf', '10']], [['leaf', '2.0'], ['leaf', '20']], [['leaf', '2.5'], ['leaf', '5']]]]], []],
        ['set', [['leaf', '0'], ['leaf', '7']]],
        ['set', [['leaf', '-0.0'], ['leaf', '7.0']]],
        ['frozenset', [['leaf', 'True'], ['leaf', "'t'"]]],
        ['frozenset', [['leaf', '1'], ['leaf', "'t'"]]],
    ]
    return corpus + specs


def run(ck):
    ck.prove()
    ck.assumptions = ['SHA-1/pickle are outside the model (digests symbolic); pickle.dumps of atomic values is deterministic across processes '
                      '(checked by the cross-process digest comparison)',
                      'known finding D24 (instances of proper subclasses of set/frozenset/dict/ndarray are pickled whole) is tolerated ONLY when '
                      'the disagreeing realisations are equal as values and their recorded chunk trees differ in nothing but the pickle chunks of such leaves']
    n = ck.n(400, 6000)
    seeds = [1, 2, 3] if ck.tier == 'quick' else [1, 2, 3, 4, 5, 6]
    specs = gen_specs(ck, n)
    results = hashgen.run_workers(specs, seeds, 'c07')
    cases, meta = [], []
    nerr = 0
    differing = []
    for i, spec in enumerate(specs):
        recs = [r[i] for r in results]
        errs = [r.get('error') for r in recs if r.get('error')]
        if errs:
            nerr += 1
            ck.count('skipped:' + errs[0].split(':')[0])
            if not errs[0].startswith('ValueError: unsupported') and not errs[0].startswith('TypeError: unhashable'):
                ck.count('worker-error')
                ck.notes.append('spec %d: %s' % (i, errs[0]))
            continue
        nn = hashgen.hashworker_count(spec) if hasattr(hashgen, 'hashworker_count') else len(str(spec))
        ck.distinct(spec, nontrivial=(spec[0] != 'leaf'))
        ck.count('kind:' + spec[0])
        digs = set(r['digest'] for r in recs)
        h1 = set(r['hash_one'] for r in recs) | set(r['hash_one_recorded'] for r in recs)
        if len(digs) != 1 or len(h1) != 1:
            differing.append(i)
        for s, r in zip(seeds, recs):
            cases.append(r['case'])
            meta.append({'spec': spec, 'seed': s})
    load_section(ck, seeds)
    report_differing(ck, specs, results, seeds, differing)
    order_dependence(ck, specs, results, seeds)
    ck.sample({'spec': specs[len(specs) // 2], 'seeds': seeds})
    ck.sample({'coq_case': cases[0]})
    if nerr > len(specs) // 5:
        ck.broken.append('generator: %d of %d specs could not be realised' % (nerr, len(specs)))
    fails = ck.cases('hash_stream', 'From JugV Require Import Model.Hash.', 'pv * list tok',
                     'fun c => toks_eqb (hash_one_stream false (fst c)) (snd c)', cases, shard=300,
                     preamble='Local Open Scope positive_scope.')
    for i in (fails or []):
        ck.violation({'kind': 'correspondence', 'what': 'sha1 chunk sequence of the real code differs from the model stream',
                      'spec': meta[i]['spec'], 'seed': meta[i]['seed'], 'coq_case': cases[i][:3000]})


JUGFILES = {
    'pipeline.py': """import numpy as np
from jug import Task, TaskGenerator, Tasklet, iteratetask
from jug.mapreduce import map as jug_map


def double(x):
    return 2 * x


@TaskGenerator
def total(xs, scale=1, *, tags=()):
    return scale * sum(xs)


@TaskGenerator
def split(n):
    return list(range(n)), {'n': n}


base = Task(double, %(k)d)
opts = total([base, 2, 3.5], scale=%(k)d, tags={'a', 'b', 'c'})
parts = split(%(n)d)
first = parts[0]
meta = parts[1]['n']
a, b = iteratetask(first, 2)
arr = total(np.arange(6.).reshape(2, 3).T, tags=frozenset(['x', 'y']))
both = total([a, b], scale={'w': [1, 2], 'v': (None, 'q')})
shifted = Tasklet(base, lambda v, d=%(k)d: v + d)
late = total([shifted, meta])
mapped = jug_map(double, list(range(%(n)d)), map_step=2)
picked = mapped[1]
""",
    'second.py': """from jug import TaskGenerator


@TaskGenerator
def double(x):
    return x + x


@TaskGenerator
def report(*rows, **named):
    return len(rows) + len(named)


rows = [double(i) for i in range(%(n)d)]
out = report(*rows, title='t%(k)d', keys={'k1', 'k2'})
head = out[0]
""",
}


FLOW = """import os
from jug import Task, TaskGenerator, Tasklet, CompoundTaskGenerator, iteratetask
from jug.compound import CompoundTask
from jug.utils import timed_path, cached_glob, CustomHash, identity
from jug.unsafe import NoHash
from jug.io import NoLoad
from jug.mapreduce import map as jug_map, mapreduce, currymap


def process(x, parameter=0):
    return x * parameter + 1


def gather(xs):
    return (sum(xs), len(xs))


def complex_operation(k, spread=2):
    inter = [Task(process, k, parameter=i) for i in range(spread + 2)]
    return Task(gather, inter)


@CompoundTaskGenerator
def staged(k):
    first = Task(process, k, parameter=%(k)d)
    return Task(gather, [first, Task(process, first, parameter=2)])


@TaskGenerator
def total(xs, scale=1):
    return scale * sum(x[0] if isinstance(x, tuple) else x for x in xs)


@TaskGenerator
def size_of(p):
    return os.path.getsize(p if isinstance(p, str) else p[0])


@TaskGenerator
def twice(x):
    return 2 * x


def add(a, b):
    return a + b


def describe(t):
    return type(t).__name__


mean_value = CompoundTask(complex_operation, %(k)d, spread=%(n)d)
second = staged(%(n)d)
report = total([mean_value, second], scale=%(k)d)
part = mean_value[0]
alias = Tasklet(second, lambda v, d=%(k)d: v[0] + d)
consumer = total([part, alias])
watched = size_of(timed_path('data/input.txt'))
watched_too = size_of(timed_path(os.path.join('data', 'sub', '..', 'other.txt')))
files = cached_glob('data/*.txt')
globbed = total([len(files)])
plain_path = size_of('data/input.txt')
custom = total([CustomHash(3, lambda o: b'custom-%(k)d'), NoHash(os.getpid())])
unloaded = Task(describe, NoLoad(report))
doubled = jug_map(twice, [1, 2, 3, 4, 5], map_step=2)
doubled_one = doubled[1]
doubled_some = doubled[1:4]
summed = mapreduce(add, twice, list(range(%(n)d + 3)), map_step=2, reduce_step=2)
pairs = currymap(add, [(1, 2), (3, 4), (5, 6)], map_step=2)
whole = identity(list(range(%(n)d)))
"""
INNER = ['flow.process', 'flow.gather']
ENVS = [
    {},
    {'TZ': 'Pacific/Kiritimati', 'LANG': 'C', 'LC_ALL': 'C', 'HOME': '/nonexistent', 'USER': 'someone', 'LOGNAME': 'someone', 'HOSTNAME': 'node17',
     'JUG_WORKER': '17', 'COLUMNS': '20'},
    {'TZ': 'UTC', 'LANG': 'en_US.UTF-8', 'HOME': '/tmp', 'USER': 'root', 'HOSTNAME': 'login.cluster', 'PYTHONUTF8': '1', 'TERM': 'dumb'},
]
UMASKS = [None, 0o077, 0o002]
ARGVS = [[], ['--aggressive-unload', 'x'], ['execute', '--jugdir', 'elsewhere', '--target', 'nothing']]


def run_plans(d, plans):
    """plans: list of (seed, env profile index, plan dict); runs them concurrently, each in its own interpreter; returns the outputs"""
    import json
    import os
    import subprocess
    import sys
    procs = []
    for n, (seed, prof, plan) in enumerate(plans):
        env = dict(os.environ)
        env.update(ENVS[prof % len(ENVS)])
        env.update(PYTHONHASHSEED=str(seed), PYTHONPATH=core.VERIF + os.pathsep + core.REPO, PYTHONDONTWRITEBYTECODE='1')
        plan = dict(plan, root=d, umask=UMASKS[prof % len(UMASKS)])
        pf, out = os.path.join(d, 'plan%d.json' % n), os.path.join(d, 'out%d.json' % n)
        json.dump(plan, open(pf, 'w'))
        procs.append((out, subprocess.Popen([sys.executable, '-m', 'harness.c07load', pf, out] + ARGVS[prof % len(ARGVS)], env=env, cwd=core.VERIF,
                                            stdout=subprocess.PIPE, stderr=subprocess.PIPE, text=True)))
    res = []
    for out, p in procs:
        so, se = p.communicate(timeout=600)
        if p.returncode != 0 or not os.path.exists(out):
            raise RuntimeError('c07load failed: %s' % se[-500:])
        res.append(json.load(open(out)))
        os.unlink(out)
    return res


def write_project(d, name, subst):
    import os
    proj = os.path.join(d, name)
    os.makedirs(os.path.join(proj, 'data', 'sub'))
    with open(os.path.join(proj, 'flow.py'), 'w') as fh:
        fh.write(FLOW % subst)
    for fn, body in (('input.txt', 'x' * (10 + subst['k'])), ('other.txt', 'hello\n' * subst['n'])):
        with open(os.path.join(proj, 'data', fn), 'w') as fh:
            fh.write(body)
        os.utime(os.path.join(proj, 'data', fn), (1700000000 + subst['k'], 1700000000.25 + subst['n']))
    return proj


def project_stages(d, seeds, subst):
    """the life of one project directory: identifiers BEFORE anything ran, with only the tasks inside the compound tasks stored, AFTER
    everything ran, after `cleanup`, after the directory was renamed, and in a copy under a third name (file times preserved); every
    snapshot in fresh interpreters with their own PYTHONHASHSEED / environment / umask / argv.  Returns [(stage, seed, record), ..]"""
    import os
    import shutil
    write_project(d, 'run_a', subst)
    st = {'dir': 'run_a', 'jugfile': 'flow.py', 'jugdir': 'flow.jugdata'}
    snaps = []

    def snap(stage, where, with_loads=False):
        plans = []
        for n, s in enumerate(seeds[:3]):
            steps = [dict(st, op='project', dir=where[n % len(where)], ways=['relative', 'absolute', './relative'] if n == 0 else ['relative'])]
            if with_loads:
                steps.insert(0, {'op': 'loads', 'dir': 'proj'})
            plans.append((s, n, {'steps': steps}))
        outs = run_plans(d, plans)
        for (s, n, _), o in zip(plans, outs):
            for step in o:
                if step.get('error'):
                    raise RuntimeError('c07load step failed: %s' % step['error'])
                for rec in step['records']:
                    snaps.append((stage if step['op'] == 'project' else 'loads', s, rec))

    snap('before anything ran', ['run_a'], with_loads=True)
    r = run_plans(d, [(seeds[0], 1, {'steps': [dict(st, op='run', only=INNER)]})])[0][0]
    if r.get('error') or not r.get('ran'):
        raise RuntimeError('could not run the inner tasks: %r' % (r,))
    snap('only the tasks inside the compound tasks stored', ['run_a'])
    r = run_plans(d, [(seeds[1], 2, {'steps': [dict(st, op='run', only=None)]})])[0][0]
    if r.get('error'):
        raise RuntimeError('could not run the project: %r' % (r,))
    snap('everything ran', ['run_a'])
    r = run_plans(d, [(seeds[2], 0, {'steps': [dict(st, op='cleanup')]})])[0][0]
    if r.get('error') or not r.get('removed'):
        raise RuntimeError('cleanup removed nothing: %r' % (r,))
    snap('after cleanup', ['run_a'])
    os.rename(os.path.join(d, 'run_a'), os.path.join(d, 'moved_to_b'))
    shutil.copytree(os.path.join(d, 'moved_to_b'), os.path.join(d, 'deep', 'er', 'copy_c'), copy_function=shutil.copy2)
    os.symlink(os.path.join(d, 'moved_to_b'), os.path.join(d, 'link_d'))
    snap('directory renamed / copied / reached through a symlink', ['moved_to_b', os.path.join('deep', 'er', 'copy_c'), 'link_d'])
    return snaps


GEN_SRC = """from jug import Task, TaskGenerator, barrier
from jug.mapreduce import map as jug_map, currymap, mapreduce

GEN = %(tag)r


def plain(x):
    return (GEN, x)


def add(a, b):
    return a + b


for _i in range(%(count)d):
    def _f(x, y=0, _i=_i):
        return (GEN, _i, x, y)
    _f.__name__ = _f.__qualname__ = '%(prefix)s%%d' %% _i
    globals()[_f.__name__] = TaskGenerator(_f)
del _f, _i
gens = [globals()['%(prefix)s%%d' %% i] for i in range(%(count)d)]
maps = [jug_map(g, list(range(%(n)d + i %% 3)), map_step=2 + i %% 2) for i, g in enumerate(gens)]
curried = [t for g in gens[:6] for t in currymap(g, [(1, 2), (3, 4), (5, 6)], map_step=2)]
reduced = [mapreduce(add, g, list(range(%(n)d)), map_step=2, reduce_step=2) for g in gens[:6]]
direct = [g(%(n)d) for g in gens[:4]]
plain_map = jug_map(plain, list(range(%(n)d)), map_step=2)
%(tail)s
"""


def generation_sources(subst):
    """what a process that keeps re-loading jugfile code sees: generations of ONE module name whose task generators come and go"""
    n = subst['n']
    return [('g1', GEN_SRC % dict(tag='one', count=40, prefix='work', n=n, tail='')),
            ('g2', GEN_SRC % dict(tag='two', count=40, prefix='job', n=n, tail='barrier()\nafter = Task(plain, 1)')),
            ('g3', GEN_SRC % dict(tag='three', count=25, prefix='work', n=n + 1, tail='')),
            ('g4', GEN_SRC % dict(tag='one', count=40, prefix='work', n=n, tail='')),          # the first generation again
            ('g5', GEN_SRC % dict(tag='five', count=60, prefix='step', n=n, tail='barrier()'))]


def generation_section(ck, d, seeds, subst):
    """identifiers do not depend on what the process loaded / hashed / freed before: every generation's identifiers in the long-lived
    interpreter equal those of a fresh interpreter that loads only that generation"""
    import os
    srcs = generation_sources(subst)
    for name, src in srcs:
        os.makedirs(os.path.join(d, name))
        with open(os.path.join(d, name, 'flow.py'), 'w') as fh:
            fh.write(src)
    dirs = [nm for nm, _ in srcs]
    plans = [(seeds[0], 0, {'steps': [{'op': 'generations', 'dirs': dirs, 'jugfile': 'flow.py', 'reloads': 2}]}),
             (seeds[1], 1, {'steps': [{'op': 'generations', 'dirs': dirs[::-1] + dirs, 'jugfile': 'flow.py', 'reloads': 1}]})]
    plans += [(seeds[(k + 2) % len(seeds)], k, {'steps': [{'op': 'generations', 'dirs': [nm], 'jugfile': 'flow.py', 'reloads': 1}]})
              for k, nm in enumerate(dirs)]
    outs = run_plans(d, plans)
    fresh = {}
    for nm, o in zip(dirs, outs[2:]):
        rec = o[0]['records'][0] if not o[0].get('error') else {'error': o[0]['error']}
        if rec.get('error') or len(rec.get('objects', {})) < 20:
            ck.broken.append('C07 generations: a fresh interpreter could not load %s: %r' % (nm, rec.get('error') or sorted(rec.get('objects', {}))[:5]))
            return
        fresh[nm] = rec['objects']
    if fresh['g1'] != fresh['g4'] or fresh['g1'] == fresh['g3']:
        ck.broken.append('C07 generations: generated sources are not as intended')
    reported = 0
    for pi, o in enumerate(outs[:2]):
        if o[0].get('error'):
            ck.broken.append('C07 generations: %s' % o[0]['error'][:300])
            continue
        for rec in o[0]['records']:
            ck.case_total += 1
            ck.count('generations:loads in a long-lived interpreter')
            ck.distinct(('generation', pi, rec['dir'], rec['reload'], rec['nth_load_in_process']), True)
            if rec.get('error'):
                ck.broken.append('C07 generations: load of %s failed: %s' % (rec['dir'], rec['error'][:300]))
                continue
            want = fresh[rec['dir']]
            bad = [(k, want.get(k), rec['objects'].get(k)) for k in sorted(set(want) | set(rec['objects'])) if want.get(k) != rec['objects'].get(k)]
            if bad:
                reported += 1
                if reported > 3:
                    ck.count('generations:differs(not reported)')
                    continue
                ck.violation({'kind': 'impl-violation',
                              'what': 'identifiers computed by an interpreter that loaded (and freed) other jugfile code before differ from those of a fresh interpreter',
                              'generations': dict(srcs), 'order_of_loads': plans[pi][2]['steps'][0]['dirs'], 'reloads': plans[pi][2]['steps'][0]['reloads'],
                              'this_load': {'dir': rec['dir'], 'nth_load_in_process': rec['nth_load_in_process']},
                              'objects(name, fresh interpreter, this interpreter)': bad[:4], 'number_of_differing_objects': len(bad), 'seeds': seeds})


def load_section(ck, seeds):
    """loading the same jugfile twice - in the same or in another process, by whatever path, whatever the results directory holds and
    whatever the process environment is - yields the same names and identifiers"""
    import os
    from . import jugrun
    subst = {'k': ck.rng.randint(2, 9), 'n': ck.rng.randint(3, 6)}
    with jugrun.scratch_dir('c07load') as d:
        os.makedirs(os.path.join(d, 'proj'))
        os.makedirs(os.path.join(d, 'elsewhere'))
        for nm, src in JUGFILES.items():
            with open(os.path.join(d, 'proj', nm), 'w') as fh:
                fh.write(src % subst)
        try:
            snaps = project_stages(d, seeds, subst)
            generation_section(ck, d, seeds, subst)
        except RuntimeError as e:
            ck.broken.append('C07 load section: %s' % str(e)[:400])
            return
    # ---- (1) plain loads: (name, identifier) lists
    ref = {}
    reported = 0
    for stage, s, rec in snaps:
        if stage != 'loads':
            continue
        ck.case_total += 1
        ck.count('load:' + rec['how'])
        ck.distinct(('load', rec['jugfile'], rec['how'], s), True)
        if rec.get('error'):
            ck.broken.append('jug.init failed on a generated jugfile (%s, %s): %s' % (rec['jugfile'], rec['how'], rec['error'][:200]))
            continue
        key = rec['jugfile']
        if key not in ref:
            ref[key] = (s, rec)
            if len(rec['tasks']) < 3 or not rec['tasklets']:
                ck.broken.append('generated jugfile %s defines too little: %r' % (key, rec['tasks']))
            continue
        s0, r0 = ref[key]
        if rec['tasks'] != r0['tasks'] or rec['tasklets'] != r0['tasklets']:
            reported += 1
            if reported > 3:
                ck.count('load:differs(not reported)')
                continue
            diff = [(x, y) for x, y in zip(r0['tasks'] + r0['tasklets'], rec['tasks'] + rec['tasklets']) if x != y][:3]
            ck.violation({'kind': 'impl-violation', 'what': 'loading the same jugfile again (another path / working directory / process) yields other task names or identifiers',
                          'jugfile': key, 'jugfile_source': JUGFILES[key] % subst, 'subst': subst,
                          'first_load': {k: r0[k] for k in ('how', 'path', 'cwd', 'nth_load_in_process')}, 'first_seed': s0,
                          'this_load': {k: rec[k] for k in ('how', 'path', 'cwd', 'nth_load_in_process')}, 'this_seed': s,
                          'first_differences(first, this)': diff, 'seeds': seeds})
    ck.sample({'jugfile': 'pipeline.py', 'tasks': ref.get('pipeline.py', (0, {'tasks': []}))[1]['tasks'][:3]})
    # ---- (2) the project through its life and in several environments: identifiers of the jugfile's objects
    first = None
    reported = 0
    for stage, s, rec in snaps:
        if stage == 'loads':
            continue
        ck.case_total += 1
        ck.count('project:' + stage)
        ck.distinct(('project', stage, rec['how'], rec['dir'], s), True)
        if rec.get('error'):
            ck.broken.append('jug.init failed on the generated project (%s, %s): %s' % (stage, rec['how'], rec['error'][:300]))
            continue
        objs = rec['objects']
        if first is None:
            first = (stage, s, rec)
            need = ('mean_value', 'second', 'report', 'part', 'watched', 'globbed', 'custom', 'unloaded', 'doubled', 'summed', 'whole')
            if any(k not in objs for k in need):
                ck.broken.append('generated project defines too little: %r' % sorted(objs))
        bad = []
        for name in sorted(objs):
            if len(set(objs[name][k] for k in objs[name] if k != 'hash_one()')) > 1:
                bad.append((name, 'its own identifiers disagree', objs[name]))
            elif name not in first[2]['objects']:
                bad.append((name, 'absent from the first load', objs[name]))
            elif objs[name] != first[2]['objects'][name]:
                bad.append((name, first[2]['objects'][name], objs[name]))
        bad += [(name, 'absent from this load', first[2]['objects'][name]) for name in first[2]['objects'] if name not in objs]
        if bad:
            reported += 1
            if reported > 3:
                ck.count('project:differs(not reported)')
                continue
            ck.violation({'kind': 'impl-violation',
                          'what': 'identifiers of the same jugfile objects differ between loads (state of the results directory / environment / directory name): ' + stage,
                          'project_source': FLOW % subst, 'subst': subst,
                          'first_load': {'stage': first[0], 'seed': first[1], 'how': first[2]['how'], 'dir': first[2]['dir']},
                          'this_load': {'stage': stage, 'seed': s, 'how': rec['how'], 'dir': rec['dir']},
                          'objects(name, first, this)': bad[:6], 'seeds': seeds})


def tree_diff(a, b):
    """compare two chunk trees (hashworker.chunk_tree).  Returns None if they differ in shape or in a chunk that is not, on both
    sides, the pickle of a proper-subclass leaf; otherwise the number of positions (all of them such pickles) where they differ."""
    if len(a) != len(b):
        return None
    n = 0
    for x, y in zip(a, b):
        if x[0] != y[0]:
            return None
        if x[0] == 'B':
            if x[1] != y[1]:
                if not (x[2] and y[2]):
                    return None
                n += 1
        else:
            k = tree_diff(x[1], y[1])
            if k is None:
                return None
            n += k
    return n


def subclass_leaf_kinds(spec, out=None):
    """which proper subclasses of set / frozenset / dict / ndarray a spec mentions"""
    out = set() if out is None else out
    if isinstance(spec, list):
        if len(spec) == 3 and spec[0] == 'sub' and isinstance(spec[1], str):
            base = {'dict': 'mapping', 'set': 'set', 'frozenset': 'set', 'array': 'ndarray'}.get(hashgen.sub_base(spec[1]))
            if base:
                out.add(base)
        for x in spec:
            subclass_leaf_kinds(x, out)
    return out


def report_differing(ck, specs, results, seeds, differing):
    """specs whose identifier differs between processes / realisations.  Known finding D24 (class subclass_pickled_whole) iff, on
    re-tracing exactly those realisations: the observed identifiers are reproduced, all realisations are equal as values, and their
    chunk trees differ only in chunks that are - in every realisation - the pickle of a leaf that is an instance of a proper subclass
    of set / frozenset / dict / ndarray.  Anything else is a violation."""
    if not differing:
        return
    traces = hashgen.run_workers([[i, specs[i]] for i in differing], seeds, 'c07trace', mode='trace')
    for k, i in enumerate(differing):
        spec = specs[i]
        recs = [r[i] for r in results]
        obj = {'kind': 'impl-violation', 'what': 'identifier differs between processes / hash seeds / realisations of the same value',
               'spec': spec, 'seeds': seeds, 'digests': [r['digest'] for r in recs],
               'hash_one': [r['hash_one'] for r in recs], 'hash_one_second_realisation': [r['hash_one_recorded'] for r in recs]}
        trs = [t[k] for t in traces]
        ok = all(not t.get('error') and len(t['traces']) == 2 for t in trs)
        if ok:
            # the traces are the realisations that disagreed
            ok = all(t['traces'][0]['digest'] == r['digest'] and t['traces'][0]['hash_one'] == r['hash_one'] and
                     t['traces'][1]['hash_one'] == r['hash_one_recorded'] for t, r in zip(trs, recs))
        if ok:
            flat = [x for t in trs for x in t['traces']]
            ref = flat[0]
            same_value = all(x['vkey'] == ref['vkey'] for x in flat)
            diffs = [tree_diff(ref['tree'], x['tree']) for x in flat]
            if same_value and all(d is not None for d in diffs) and any(diffs) and subclass_leaf_kinds(spec):
                obj['class'] = 'subclass_pickled_whole'
                obj['what'] = 'identifier of a value holding an instance of a subclass of set/frozenset/dict/ndarray (pickled whole) differs between realisations'
                obj['differing_chunks_all_subclass_pickles'] = max(d for d in diffs)
                for kind in sorted(subclass_leaf_kinds(spec)):
                    ck.count('known_subclass_pickled_whole:' + kind)
        ck.violation(obj)


def order_dependence(ck, specs, results, seeds):
    """the identifier of a value must not depend on which identifiers the interpreter computed before: compare the
    identifiers obtained one-after-the-other with those obtained in an interpreter that hashed nothing else; on a
    difference look for ONE earlier spec that is enough to change it (that pair is the failing input)"""
    iso = hashgen.run_workers(specs, [1], 'c07iso', mode='iso')[0]
    ck.count('isolated_identifiers', len(iso))
    reported = 0
    for i, spec in enumerate(specs):
        if iso[i].get('error') or any(r[i].get('error') for r in results):
            continue
        if len(set(r[i]['digest'] for r in results)) != 1:
            continue            # differs between processes already: reported by the cross-process comparison
        alone = iso[i]['digest']
        off = [(s, r[i]['digest']) for s, r in zip(seeds, results) if r[i]['digest'] != alone]
        if not off:
            continue
        ck.count('order_dependent_identifier')
        if reported >= 3:
            continue
        reported += 1
        # which single earlier spec is enough?  (each candidate pair in its own pristine interpreter)
        earlier = [j for j in range(i) if not iso[j].get('error')]
        pairs = hashgen.run_workers([['seq', [specs[j], spec]] for j in earlier], [1], 'c07iso', mode='iso')[0] if earlier else []
        culprit = next((j for j, r in zip(earlier, pairs) if r.get('digest') not in (None, alone)), None)
        obj = {'kind': 'impl-violation', 'what': 'identifier depends on which identifiers the same interpreter computed before',
               'spec': spec, 'identifier_alone': alone, 'identifier_after_others': dict((str(s), d) for s, d in off)}
        if culprit is not None:
            obj['first'] = specs[culprit]
            obj['identifier_after_first'] = pairs[earlier.index(culprit)]['digest']
            ck.violation(obj)
        else:
            ck.violation(obj, found_input=False)


def replay(obj):
    if 'generations' in obj:
        import os
        from . import jugrun
        with jugrun.scratch_dir('c07load') as d:
            for nm, src in obj['generations'].items():
                os.makedirs(os.path.join(d, nm))
                with open(os.path.join(d, nm, 'flow.py'), 'w') as fh:
                    fh.write(src)
            which = obj['this_load']['dir']
            outs = run_plans(d, [(1, 0, {'steps': [{'op': 'generations', 'dirs': obj['order_of_loads'], 'jugfile': 'flow.py', 'reloads': obj.get('reloads', 1)}]}),
                                 (1, 0, {'steps': [{'op': 'generations', 'dirs': [which], 'jugfile': 'flow.py', 'reloads': 1}]})])
        want = outs[1][0]['records'][0]['objects']
        rc = 0
        for rec in outs[0][0]['records']:
            if rec['dir'] == which:
                nbad = sum(1 for k in want if rec.get('objects', {}).get(k) != want[k])
                print('load %2d (%s): %d of %d objects differ from the fresh interpreter' % (rec['nth_load_in_process'], which, nbad, len(want)))
                rc = rc or (1 if nbad else 0)
        return rc
    if 'project_source' in obj:
        from . import jugrun
        global FLOW
        keep, FLOW = FLOW, obj['project_source'].replace('%', '%%')
        try:
            with jugrun.scratch_dir('c07load') as d:
                import os
                os.makedirs(os.path.join(d, 'proj'))
                os.makedirs(os.path.join(d, 'elsewhere'))
                snaps = [x for x in project_stages(d, obj.get('seeds', [1, 2, 3]), obj['subst']) if x[0] != 'loads']
        finally:
            FLOW = keep
        rc = 0
        for stage, s, rec in snaps:
            diff = [k for k in rec.get('objects', {}) if rec['objects'][k] != snaps[0][2]['objects'].get(k) or
                    len(set(v for kk, v in rec['objects'][k].items() if kk != 'hash_one()')) > 1]
            print('%-58s seed %s %-12s %-18s %s' % (stage, s, rec['how'], rec['dir'], 'same' if not diff and not rec.get('error') else 'DIFFERENT: %s' % (diff or rec.get('error'))))
            rc = rc or (1 if diff or rec.get('error') else 0)
        return rc
    if 'jugfile_source' in obj:
        import os
        from . import jugrun
        rc = 0
        ref = None
        with jugrun.scratch_dir('c07load') as d:
            os.makedirs(os.path.join(d, 'proj'))
            os.makedirs(os.path.join(d, 'elsewhere'))
            with open(os.path.join(d, 'proj', obj['jugfile']), 'w') as fh:
                fh.write(obj['jugfile_source'])
            seeds = obj.get('seeds', [1, 2])
            outs = run_plans(d, [(s, n, {'steps': [{'op': 'loads', 'dir': 'proj'}]}) for n, s in enumerate(seeds)])
            for s, o in zip(seeds, outs):
                recs = o[0]['records']
                ref = ref or recs[0]
                for r in recs:
                    same = r.get('tasks') == ref.get('tasks') and r.get('tasklets') == ref.get('tasklets') and not r.get('error')
                    print('PYTHONHASHSEED=%s %-28s %-34s %s %s' % (s, r['how'], r['path'], 'same' if same else 'DIFFERENT', (r.get('tasks') or [['', '']])[0]))
                    rc = rc or (0 if same else 1)
        return rc
    if 'first' in obj:
        res = hashgen.run_workers([obj['spec'], ['seq', [obj['first'], obj['spec']]]], [1], 'replay', mode='iso')[0]
        print('identifier of spec alone:            ', res[0].get('digest'), res[0].get('error', ''))
        print('identifier of spec after hashing first:', res[1].get('digest'), res[1].get('error', ''))
        return 0 if res[0].get('digest') == res[1].get('digest') and res[0].get('digest') else 1
    spec = obj['spec']
    seeds = obj.get('seeds') or [obj.get('seed', 1), obj.get('seed', 1) + 1]
    results = hashgen.run_workers([spec], seeds, 'replay')
    digs = [r[0].get('digest') for r in results]
    print('digests per seed:', dict(zip(seeds, digs)))
    print('errors:', [r[0].get('error') for r in results])
    return 0 if len(set(digs)) == 1 and None not in digs else 1
